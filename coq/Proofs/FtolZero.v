(* With ftol = 0 the relative-reduction stop test
       (f0_old - f0) / max(|f0_old|, |f0|, 1.0) < ftol
   can fire only when the objective strictly INCREASED (f0_old < f0), on every pair of
   binary64 values (NaNs, infinities and signed zeros included).
   Derived from the FloatAxioms specification through Flocq's IEEE754.PrimFloat bridge. *)
From Coq Require Import Reals ZArith Lra Lia Bool.
From Coq Require PrimFloat FloatAxioms.
From Flocq Require Import Core.Core IEEE754.BinarySingleNaN.
From Flocq Require IEEE754.PrimFloat.
From LBFGSB Require Import Base.FloatOrd.

Local Existing Instance FP.Hprec.
Local Existing Instance FP.Hmax.

(* ------------------------------------------------------------------------------------ *)
(* Shapes of binary floats                                                              *)
(* ------------------------------------------------------------------------------------ *)

(* strictly negative: -inf or a finite non-zero float with the sign bit set *)
Definition negnz (b : bf) : Prop :=
  match b with
  | B754_infinity true => True
  | B754_finite true _ _ _ => True
  | _ => False
  end.

(* NaN, or strictly positive (+inf or a finite non-zero float with the sign bit clear) *)
Definition nan_or_pos (b : bf) : Prop :=
  match b with
  | B754_nan => True
  | B754_infinity false => True
  | B754_finite false _ _ _ => True
  | _ => False
  end.

(* NaN, or sign bit clear *)
Definition nan_or_nonneg (b : bf) : Prop :=
  match b with
  | B754_nan => True
  | B754_zero false => True
  | B754_infinity false => True
  | B754_finite false _ _ _ => True
  | _ => False
  end.

Lemma negnz_not_nan (b : bf) : negnz b -> is_nan b = false.
Proof. destruct b as [s|s| |s m e H]; simpl; intros Hn; try reflexivity; destruct Hn. Qed.

Lemma negnz_sign (b : bf) : negnz b -> Bsign b = true.
Proof.
  destruct b as [s|s| |s m e H]; simpl; intros Hn; try (destruct Hn; fail);
    destruct s; try reflexivity; destruct Hn.
Qed.

Lemma negnz_B2R_finite (b : bf) : negnz b -> is_finite b = true -> (B2R b < 0)%R.
Proof.
  destruct b as [s|s| |s m e H]; simpl; intros Hn Hf; try discriminate; try (destruct Hn; fail).
  destruct s; [ | destruct Hn ].
  apply F2R_lt_0. simpl. lia.
Qed.

Lemma Bsign_true_B2R (b : bf) : Bsign b = true -> (B2R b <= 0)%R.
Proof.
  destruct b as [s|s| |s m e H]; simpl; intros Hs; try lra.
  subst s. apply F2R_le_0. simpl. lia.
Qed.

Lemma Bsign_false_B2R (b : bf) : Bsign b = false -> (0 <= B2R b)%R.
Proof.
  destruct b as [s|s| |s m e H]; simpl; intros Hs; try lra.
  subst s. apply F2R_ge_0. simpl. lia.
Qed.

(* ------------------------------------------------------------------------------------ *)
(* x < +0  ->  x strictly negative                                                      *)
(* ------------------------------------------------------------------------------------ *)

Lemma Bltb_zero_negnz (q : bf) : Bltb q (B754_zero false) = true -> negnz q.
Proof.
  destruct q as [s|s| |s m e H]; unfold Bltb, Bcompare; simpl; try discriminate;
    destruct s; simpl; try discriminate; intros _; exact I.
Qed.

(* ------------------------------------------------------------------------------------ *)
(* Division by a NaN-or-positive denominator: negative quotient -> negative numerator   *)
(* ------------------------------------------------------------------------------------ *)

Lemma Bdiv_negnz (n d : bf) :
  nan_or_pos d -> negnz (Bdiv mode_NE n d) -> negnz n.
Proof.
  intros Hd Hq.
  destruct d as [sd|sd| |sd md ed Hmd]; try (destruct Hd; fail).
  - (* +inf *)
    destruct sd; [destruct Hd | ].
    destruct n as [sn|sn| |sn mn en Hmn]; simpl in Hq; try (destruct Hq; fail).
  - (* NaN *)
    destruct n as [sn|sn| |sn mn en Hmn]; simpl in Hq; destruct Hq.
  - (* finite positive *)
    destruct sd; [destruct Hd | ].
    destruct n as [sn|sn| |sn mn en Hmn]; try (simpl in Hq; destruct Hq; fail).
    + (* inf / finite *)
      simpl in Hq. rewrite xorb_false_r in Hq. exact Hq.
    + (* finite / finite *)
      assert (Hnz : B2R (B754_finite false md ed Hmd : bf) <> 0%R).
      { apply Rgt_not_eq. simpl. apply F2R_gt_0. simpl. lia. }
      generalize (Bdiv_correct _ _ FP.Hprec FP.Hmax mode_NE
                    (B754_finite sn mn en Hmn) (B754_finite false md ed Hmd) Hnz).
      set (q := Bdiv mode_NE (B754_finite sn mn en Hmn) (B754_finite false md ed Hmd)) in *.
      change (Bsign (B754_finite sn mn en Hmn : bf)) with sn.
      change (Bsign (B754_finite false md ed Hmd : bf)) with false.
      rewrite xorb_false_r.
      destruct (Rlt_bool _ _).
      * intros (_ & _ & Hs).
        specialize (Hs (negnz_not_nan _ Hq)).
        rewrite (negnz_sign _ Hq) in Hs. subst sn. exact I.
      * unfold binary_overflow, overflow_to_inf. intros Hov.
        destruct q as [sq|sq| |sq mq eq Hmq]; simpl in Hov; try discriminate.
        injection Hov as Hov. subst sn. destruct sq; [exact I | destruct Hq].
Qed.

(* ------------------------------------------------------------------------------------ *)
(* Subtraction: strictly negative (rounded) difference -> x < y                          *)
(* ------------------------------------------------------------------------------------ *)

Lemma Bminus_finite_negnz (x y : bf) :
  is_finite x = true -> is_finite y = true ->
  negnz (Bminus mode_NE x y) -> (B2R x < B2R y)%R.
Proof.
  intros Fx Fy Hr.
  generalize (Bminus_correct _ _ FP.Hprec FP.Hmax mode_NE x y Fx Fy).
  destruct (Rlt_bool_spec
              (Rabs (round radix2 (SpecFloat.fexp FloatOps.prec FloatOps.emax)
                       (round_mode mode_NE) (B2R x - B2R y)))
              (bpow radix2 FloatOps.emax)) as [Hlt|Hge].
  - (* no overflow: the difference rounds to a negative number *)
    intros (Hv & Hfin & _).
    assert (Hneg : (B2R (Bminus mode_NE x y) < 0)%R) by (apply negnz_B2R_finite; assumption).
    rewrite Hv in Hneg.
    destruct (Rlt_le_dec (B2R x - B2R y) 0) as [Hd|Hd]; [lra | exfalso].
    assert (Hmono : (round radix2 (SpecFloat.fexp FloatOps.prec FloatOps.emax)
                       (round_mode mode_NE) 0
                     <= round radix2 (SpecFloat.fexp FloatOps.prec FloatOps.emax)
                          (round_mode mode_NE) (B2R x - B2R y))%R).
    { apply round_le; [ apply (fexp_correct _ _ FP.Hprec) | apply valid_rnd_N | exact Hd ]. }
    rewrite round_0 in Hmono by apply valid_rnd_N.
    lra.
  - (* overflow: the operands have opposite signs and are not both zero *)
    intros (Hov & Hsgn).
    assert (Hsx : Bsign x = true).
    { revert Hov Hr. unfold binary_overflow, overflow_to_inf.
      destruct (Bminus mode_NE x y) as [sq|sq| |sq mq eq Hmq]; simpl; try discriminate.
      intros Hov Hq. injection Hov as Hov. rewrite <- Hov. destruct sq; [reflexivity | destruct Hq]. }
    assert (Hsy : Bsign y = false).
    { rewrite Hsx in Hsgn. destruct (Bsign y); [discriminate | reflexivity]. }
    assert (Hx : (B2R x <= 0)%R) by (apply Bsign_true_B2R; exact Hsx).
    assert (Hy : (0 <= B2R y)%R) by (apply Bsign_false_B2R; exact Hsy).
    destruct (Req_dec (B2R x - B2R y) 0) as [Hz|Hz]; [exfalso | lra].
    rewrite Hz, round_0, Rabs_R0 in Hge by apply valid_rnd_N.
    generalize (bpow_gt_0 radix2 FloatOps.emax). lra.
Qed.

Lemma Bminus_negnz (x y : bf) : negnz (Bminus mode_NE x y) -> Bltb x y = true.
Proof.
  intros Hr.
  destruct (is_finite x) eqn:Fx; destruct (is_finite y) eqn:Fy.
  - rewrite (Bltb_correct _ _ x y Fx Fy).
    apply Rlt_bool_true. apply Bminus_finite_negnz; assumption.
  - destruct x as [sx|sx| |sx mx ex Hx]; try discriminate;
      destruct y as [sy|sy| |sy my ey Hy]; try discriminate; simpl in Hr;
      try (destruct Hr; fail);
      destruct sy; simpl in Hr; try (destruct Hr; fail); destruct sx; reflexivity.
  - destruct x as [sx|sx| |sx mx ex Hx]; try discriminate;
      destruct y as [sy|sy| |sy my ey Hy]; try discriminate; simpl in Hr;
      try (destruct Hr; fail);
      destruct sx; simpl in Hr; try (destruct Hr; fail); try destruct sy; reflexivity.
  - destruct x as [sx|sx| |sx mx ex Hx]; try discriminate;
      destruct y as [sy|sy| |sy my ey Hy]; try discriminate; simpl in Hr;
      try (destruct Hr; fail);
      destruct sx, sy; simpl in Hr; try (destruct Hr; fail); reflexivity.
Qed.

(* ------------------------------------------------------------------------------------ *)
(* The denominator max(|fo|, |f|, 1) is NaN or strictly positive                        *)
(* ------------------------------------------------------------------------------------ *)

Definition Bpymax (a b : bf) : bf := if Bltb a b then b else a.

Lemma Babs_nan_or_nonneg (x : bf) : nan_or_nonneg (Babs x).
Proof. destruct x as [s|s| |s m e H]; exact I. Qed.

Lemma Bpymax_nan_or_nonneg (a b : bf) :
  nan_or_nonneg a -> nan_or_nonneg b -> nan_or_nonneg (Bpymax a b).
Proof. intros Ha Hb. unfold Bpymax. destruct (Bltb a b); assumption. Qed.

Lemma Bpymax_one_nan_or_pos (a : bf) : nan_or_nonneg a -> nan_or_pos (Bpymax a Bone).
Proof.
  intros Ha. unfold Bpymax.
  destruct Bone_finite_pos as (m1 & e1 & H1 & E1). rewrite E1.
  destruct (Bltb a (B754_finite false m1 e1 H1)) eqn:Hlt.
  - exact I.
  - destruct a as [s|s| |s m e H].
    + (* a zero is below 1 *) destruct s; discriminate Hlt.
    + destruct s; exact Ha.
    + exact I.
    + destruct s; exact Ha.
Qed.

(* ------------------------------------------------------------------------------------ *)
(* Primitive floats                                                                     *)
(* ------------------------------------------------------------------------------------ *)

Module Local.
Definition pymax (a b : PF.float) : PF.float := if PF.ltb a b then b else a.
Definition is_f0_min_change_reached (f0 f0_old ftol : PF.float) : bool :=
  PF.ltb (PF.div (PF.sub f0_old f0)
            (pymax (pymax (PF.abs f0_old) (PF.abs f0)) PF.one)) ftol.
End Local.

Lemma Prim2B_zero : FP.Prim2B PF.zero = B754_zero false.
Proof. rewrite FP.zero_equiv. apply FP.Prim2B_B2Prim. Qed.

Lemma Prim2B_pymax (a b : PF.float) :
  FP.Prim2B (if PF.ltb a b then b else a) = Bpymax (FP.Prim2B a) (FP.Prim2B b).
Proof. unfold Bpymax. rewrite <- FP.ltb_equiv. destruct (PF.ltb a b); reflexivity. Qed.

Section Main.
(* the literals 0%float and 1%float need the PrimFloat notations *)
Import PF.
Local Notation pymax := Local.pymax.

Theorem min_change_zero_increase : forall f fo : PF.float,
  ltb (div (sub fo f) (pymax (pymax (abs fo) (abs f)) 1)) 0 = true -> ltb fo f = true.
Proof.
  intros f fo Hlt.
  change 1%float with PF.one in Hlt. change 0%float with PF.zero in Hlt.
  unfold Local.pymax in Hlt.
  rewrite FP.ltb_equiv in Hlt.
  rewrite Prim2B_zero, FP.div_equiv, FP.sub_equiv, !Prim2B_pymax, !FP.abs_equiv, Prim2B_one in Hlt.
  rewrite FP.ltb_equiv.
  apply Bminus_negnz.
  apply Bdiv_negnz with (2 := Bltb_zero_negnz _ Hlt).
  apply Bpymax_one_nan_or_pos.
  apply Bpymax_nan_or_nonneg; apply Babs_nan_or_nonneg.
Qed.

Corollary min_change_zero_never : forall f fo : PF.float,
  ltb f fo = true ->
  ltb (div (sub fo f) (pymax (pymax (abs fo) (abs f)) 1)) 0 = false.
Proof.
  intros f fo Hdec.
  destruct (ltb (div (sub fo f) (pymax (pymax (abs fo) (abs f)) 1)) 0) eqn:Hq; [ | reflexivity ].
  apply min_change_zero_increase in Hq.
  rewrite (ltb_asym _ _ Hdec) in Hq. discriminate Hq.
Qed.

Corollary min_change_zero_eq : forall f fo : PF.float,
  eqb f fo = true ->
  ltb (div (sub fo f) (pymax (pymax (abs fo) (abs f)) 1)) 0 = false.
Proof.
  intros f fo Heq.
  destruct (ltb (div (sub fo f) (pymax (pymax (abs fo) (abs f)) 1)) 0) eqn:Hq; [ | reflexivity ].
  apply min_change_zero_increase in Hq.
  destruct (eqb_leb _ _ Heq) as [Hle _].
  rewrite (leb_ltb_false _ _ Hle) in Hq. discriminate Hq.
Qed.

(* more generally: whenever the objective did not strictly increase (this includes NaN values) *)
Corollary min_change_zero_not_increase : forall f fo : PF.float,
  ltb fo f = false ->
  ltb (div (sub fo f) (pymax (pymax (abs fo) (abs f)) 1)) 0 = false.
Proof.
  intros f fo Hni.
  destruct (ltb (div (sub fo f) (pymax (pymax (abs fo) (abs f)) 1)) 0) eqn:Hq; [ | reflexivity ].
  apply min_change_zero_increase in Hq. rewrite Hni in Hq. discriminate Hq.
Qed.

(* the generated definition, at ftol = 0 *)
Corollary is_f0_min_change_reached_zero_increase : forall f0 f0_old : PF.float,
  Local.is_f0_min_change_reached f0 f0_old 0 = true -> ltb f0_old f0 = true.
Proof. intros f0 f0_old. exact (min_change_zero_increase f0 f0_old). Qed.

Corollary is_f0_min_change_reached_zero_never : forall f0 f0_old : PF.float,
  ltb f0 f0_old = true -> Local.is_f0_min_change_reached f0 f0_old 0 = false.
Proof. intros f0 f0_old. exact (min_change_zero_never f0 f0_old). Qed.

Corollary is_f0_min_change_reached_zero_eq : forall f0 f0_old : PF.float,
  eqb f0 f0_old = true -> Local.is_f0_min_change_reached f0 f0_old 0 = false.
Proof. intros f0 f0_old. exact (min_change_zero_eq f0 f0_old). Qed.

End Main.

Check min_change_zero_increase.
Check min_change_zero_never.
Check min_change_zero_eq.
Check min_change_zero_not_increase.
Check is_f0_min_change_reached_zero_increase.
Print Assumptions min_change_zero_increase.
