(* C02 on the driver model: every point handed to a user callable, every callback state and the returned x
   lie inside the box, for every behaviour of the numeric kernels and of the line-search routine. *)
From Coq Require Import List ZArith Bool String Lia Floats.PrimFloat.
From LBFGSB Require Import Base.Res Base.Hoare Base.FloatOrd Model.SF Model.FloatVec Model.Driver Generated.StopTests Proofs.SFPoints.
Import ListNotations.
Open Scope Z_scope.

(* a coordinate is inside [l, u] (exact binary64 comparisons), or it is NaN (which only NaN arithmetic produces) *)
Definition okc (x l u : float) : Prop := is_nan x = true \/ (leb l x = true /\ leb x u = true).

Fixpoint inbox (v lb ub : vec) : Prop :=
  match v, lb, ub with
  | x :: v', l :: lb', u :: ub' => okc x l u /\ inbox v' lb' ub'
  | [], _, _ => True
  | _, _, _ => False
  end.

Definition wfb (lb ub : vec) : Prop := Forall2 (fun l u => leb l u = true) lb ub.
Definition nonan (v : vec) : Prop := Forall (fun x => is_nan x = false) v.

Lemma fclip_nan x l u : is_nan (fclip x l u) = true -> leb l u = true -> is_nan x = true.
Proof.
  intros H Hlu. destruct (leb_not_nan _ _ Hlu) as [Nl Nu]. unfold fclip in H.
  destruct (is_nan x) eqn:Nx; [reflexivity|].
  destruct (ltb l x) eqn:E1.
  - rewrite Nx in H. destruct (ltb x u); congruence.
  - rewrite Nl in H. destruct (ltb l u); congruence.
Qed.

Lemma fclip_okc x l u : leb l u = true -> okc (fclip x l u) l u.
Proof.
  intros Hlu. destruct (leb_not_nan _ _ Hlu) as [Nl Nu]. unfold fclip, okc.
  destruct (is_nan x) eqn:Nx.
  - rewrite Nx. left. exact Nx.
  - destruct (ltb l x) eqn:E1.
    + rewrite Nx. destruct (ltb x u) eqn:E2.
      * right. split; apply ltb_leb; assumption.
      * right. split; [exact Hlu|apply leb_refl; exact Nu].
    + rewrite Nl. destruct (ltb l u) eqn:E2.
      * right. split; [apply leb_refl; exact Nl|exact Hlu].
      * right. split; [exact Hlu|apply leb_refl; exact Nu].
Qed.

Lemma vclip_inbox v lb ub : wfb lb ub -> inbox (vclip v lb ub) lb ub.
Proof.
  intros H. revert v. induction H as [|l u lb ub Hlu H IH]; intros v.
  - destruct v; cbn; auto.
  - destruct v as [|x v]; cbn; auto. split; [apply fclip_okc; exact Hlu|apply IH].
Qed.

Lemma okc_fsame x y l u : fsame x y = true -> okc x l u -> okc y l u.
Proof.
  unfold fsame, okc. intros H [Hn|[H1 H2]].
  - apply orb_true_iff in H as [H|H].
    + destruct (eqb_not_nan _ _ H). congruence.
    + apply andb_true_iff in H as [_ H]. left; exact H.
  - apply orb_true_iff in H as [H|H].
    + right. rewrite <- (eqb_leb_r _ _ _ H), <- (eqb_leb_l _ _ _ H). auto.
    + apply andb_true_iff in H as [_ H]. left; exact H.
Qed.

Lemma inbox_vsame a b lb ub : vsame a b = true -> inbox a lb ub -> inbox b lb ub.
Proof.
  revert b lb ub. induction a as [|x a IH]; intros [|y b] lb ub H; cbn in *; auto; try discriminate.
  apply andb_true_iff in H as [H1 H2]. destruct lb as [|l lb]; [tauto|]. destruct ub as [|u ub]; [tauto|].
  intros [Hx Ha]. split; [eapply okc_fsame; eauto|eapply IH; eauto].
Qed.

(* components with lb == ub never move *)
Lemma okc_fixed x l u : eqb l u = true -> okc x l u -> is_nan x = true \/ eqb x l = true.
Proof.
  intros E [Hn|[H1 H2]]; [left; exact Hn|right].
  apply leb_antisym; [|exact H1]. rewrite (eqb_leb_r _ _ _ E). exact H2.
Qed.

(* get_bounds accepted the bounds: no NaN bound and no lb > ub gives lb <= ub everywhere *)
Lemma count2_zero p a b : count2 p a b = 0%nat -> List.length a = List.length b -> Forall2 (fun x y => p x y = false) a b.
Proof.
  revert b. induction a as [|x a IH]; intros [|y b] H L; cbn in *; try discriminate; constructor.
  - destruct (p x y); [discriminate|reflexivity].
  - apply IH; [destruct (p x y); [discriminate|exact H]|lia].
Qed.

Section Box.
  Variable U : user.
  Variable K : kern.
  Variable c : cfg.
  Hypothesis bounds_wf : wfb (lb c) (ub c).
  Definition B (x : vec) : Prop := inbox x (lb c) (ub c).
  (* SciPy's differencing routine keeps its stencil inside the bounds it is given (assumption, observed by the search) *)
  Hypothesis stencil_in_box : forall p, B p -> Forall B (fd_stencil U p).

  Definition ev_in_box (e : ev) : Prop :=
    match e with
    | EvF x _ | EvG x _ => B x
    | EvScaler x _ _ _ _ => B x
    | EvUpd x _ _ _ _ _ _ => B x
    | EvCb s _ => B (r_x s)
    | EvFt _ | EvGt _ => True
    end.

  Notation sfst := (SF.st vec float vec float).
  Notation SQ := (stQ vec float vec float B).
  Notation sfev_ok := (ev_at vec float vec B).

  Lemma sfev_lift e : sfev_ok e -> ev_in_box (sfev e).
  Proof. destruct e; cbn; auto. Qed.

  Lemma box_sf_fun p t : B p -> SQ t -> hoare ev_in_box (sf_fun U p t) (fun r => SQ (snd r)).
  Proof. intros. unfold sf_fun. eapply hoare_lift; [apply sfev_lift|]. apply sf_fun_pts; auto. Qed.
  Lemma box_sf_grad p t : B p -> SQ t -> hoare ev_in_box (sf_grad U p t) (fun r => SQ (snd r)).
  Proof. intros. unfold sf_grad. eapply hoare_lift; [apply sfev_lift|]. apply sf_grad_pts; auto. Qed.
  Lemma box_sf_fun_and_grad p t : B p -> SQ t -> hoare ev_in_box (sf_fun_and_grad U p t) (fun r => SQ (snd r)).
  Proof. intros. unfold sf_fun_and_grad. eapply hoare_lift; [apply sfev_lift|]. apply sf_fun_and_grad_pts; auto. Qed.

  Lemma B_clip v : B (vclip v (lb c) (ub c)).
  Proof. apply vclip_inbox, bounds_wf. Qed.

  Lemma box_ls_loop n xk d par s : SQ (l_sf s) -> hoare ev_in_box (ls_loop U K c n xk d par s) (fun s' => SQ (l_sf s')).
  Proof.
    revert s. induction n as [|k IH]; intros s HS; cbn [ls_loop].
    - apply hoare_ret. exact HS.
    - destruct (dcs K par _) as [stp tk]. destruct tk; try (apply hoare_ret; exact HS).
      eapply hoare_bind; [apply box_sf_fun_and_grad; [apply B_clip|exact HS]|].
      intros [[f g] t1] H1. apply IH. exact H1.
  Qed.

  Lemma box_line_search xk f0 g0 d nit cap t : SQ t ->
    hoare ev_in_box (line_search U K c xk f0 g0 d nit cap t) (fun r => SQ (snd r)).
  Proof.
    intros HS. unfold line_search. eapply hoare_bind; [apply box_ls_loop; exact HS|].
    intros s H1. destruct (negb _ || _); [apply hoare_ret; exact H1|]. destruct (l_task s); apply hoare_ret; exact H1.
  Qed.

  Definition SI (s : lst) : Prop := B (s_x s) /\ SQ (s_sf s).

  Lemma box_accept_step ft s a d t1 : SQ t1 -> hoare ev_in_box (accept_step U K c ft s a d t1) (fun r => SI (snd r)).
  Proof.
    intros HS. unfold accept_step. pose proof (B_clip (vaxpy (s_x s) a d)) as Bx.
    eapply hoare_bind; [apply box_sf_fun_and_grad; [exact Bx|exact HS]|]. intros [[f0 g] t2] H2. cbn in H2.
    eapply hoare_bind with (R1 := fun _ => True).
    - destruct (u_upd U) as [u|]; [|apply hoare_ret; exact I].
      eapply hoare_bind with (R1 := fun _ => True); [apply hoare_call; [exact Bx|auto]|].
      intros [[[a1 a2] a3] a4] _. apply hoare_ret. exact I.
    - intros [[[[f1 fo] g1] G1] filt] _.
      destruct (if filt then _ else _) as [X1 G2].
      destruct (is_f0_target_reached _ _); [apply hoare_ret; split; [exact Bx|exact H2]|].
      destruct (is_f0_min_change_reached _ _ _); [apply hoare_ret; split; [exact Bx|exact H2]|].
      destruct (update_mem_f K c _ _ _ _ _ _) as [[X2 G3] m2].
      destruct (u_cb U) as [cb|]; [|apply hoare_ret; split; [exact Bx|exact H2]].
      eapply hoare_bind with (R1 := fun _ => True); [apply hoare_call; [exact Bx|auto]|].
      intros b _. destruct b; apply hoare_ret; (split; [exact Bx|exact H2]).
  Qed.

  Lemma box_body ft s : SI s -> hoare ev_in_box (body U K c ft s) (fun r => SI (snd r)).
  Proof.
    intros [Hx HS]. unfold body. eapply hoare_bind; [apply box_line_search; exact HS|].
    intros [stp t1] H1. cbn in H1. destruct stp as [a|]; [apply box_accept_step; exact H1|].
    apply hoare_ret. unfold fail_step. destruct (_ =? _)%nat; (split; [exact Hx|exact H1]).
  Qed.

  Lemma box_loop fuel ft gt s : SI s -> hoare ev_in_box (loop U K c fuel ft gt s) SI.
  Proof.
    revert s. induction fuel as [|k IH]; intros s HS; cbn [loop]; destruct (guard c gt s);
      try (apply hoare_ret; exact HS); try apply hoare_fuel.
    eapply hoare_bind; [apply box_body; exact HS|]. intros [cont s1] H1. cbn in H1.
    destruct cont; [apply IH; exact H1|apply hoare_ret; exact H1].
  Qed.

  Lemma box_run_checked x : B x -> (forall ck, checkpoint c = Some ck -> B (r_x ck)) ->
    hoare ev_in_box (run_checked U K c x) (fun r => B (r_x r)).
  Proof.
    intros Bx Bck. unfold run_checked.
    destruct (match checkpoint c with None => _ | Some ck => restore c ck end) as [X G].
    assert (S0 : SQ (SF.init vec float vec float x fone)) by exact Bx.
    assert (S0' : SQ (match checkpoint c with None => SF.init vec float vec float x fone
                                   | Some ck => SF.set_counters _ _ _ _ (r_nfev ck) (r_njev ck) (SF.init vec float vec float x fone) end)).
    { destruct (checkpoint c); exact Bx. }
    eapply hoare_bind with (R1 := fun r => SQ (snd r)).
    { destruct (checkpoint c); [apply hoare_ret; exact S0'|apply box_sf_fun; auto]. }
    intros [f0 t1] H1. cbn in H1.
    eapply hoare_bind with (R1 := fun _ => True).
    { destruct (ftarget c) as [[v|]|]; try (apply hoare_ret; exact I).
      eapply hoare_bind with (R1 := fun _ => True); [apply hoare_call; [exact I|auto]|intros; apply hoare_ret; exact I]. }
    intros ft _.
    eapply hoare_bind with (R1 := fun _ => True).
    { destruct (gtol c); [apply hoare_ret; exact I|apply hoare_call; [exact I|auto]]. }
    intros gt _.
    destruct (is_f0_target_reached _ _).
    { destruct (checkpoint c) as [ck|] eqn:Eck; apply hoare_ret; [apply (Bck ck); reflexivity|exact Bx]. }
    eapply hoare_bind with (R1 := fun r => SQ (snd r)).
    { destruct (checkpoint c); [apply hoare_ret; exact H1|apply box_sf_grad; auto]. }
    intros [g t2] H2. cbn in H2.
    eapply hoare_bind with (R1 := SQ).
    { destruct (u_scaler U) as [sc|]; [|apply hoare_ret; exact H2].
      eapply hoare_bind with (R1 := fun _ => True); [apply hoare_call; [exact Bx|auto]|].
      intros s _. apply hoare_ret. exact H2. }
    intros t3 H3.
    eapply hoare_bind with (R1 := fun _ => True).
    { destruct (u_upd U) as [u|]; [|apply hoare_ret; exact I].
      eapply hoare_bind with (R1 := fun _ => True); [apply hoare_call; [exact Bx|auto]|].
      intros [[[a1 a2] a3] a4] _. apply hoare_ret. exact I. }
    intros [[f1 g1] G1] _.
    destruct (match u_upd U with Some _ => _ | None => _ end) as [X' G'].
    destruct (match X' with [] => _ | _ => _ end) as [[X1 G2] m1].
    eapply hoare_bind with (R1 := SI); [apply box_loop; split; [exact Bx|exact H3]|].
    intros s [Hx _]. apply hoare_ret. unfold classify.
    destruct (leb _ _); [exact Hx|]. destruct (_ >=? _); [exact Hx|]. destruct (_ >=? _); exact Hx.
  Qed.

  Theorem box_run : hoare ev_in_box (run U K c) (fun r => B (r_x r)).
  Proof.
    unfold run. destruct (bounds_error c); [apply hoare_raise|].
    destruct (ck_ok c _) eqn:Eck; [|apply hoare_raise].
    apply box_run_checked; [apply B_clip|].
    intros ck Hck. unfold ck_ok in Eck. rewrite Hck in Eck. eapply inbox_vsame; [exact Eck|apply B_clip].
  Qed.
End Box.

(* the precondition on the bounds follows from get_bounds accepting them *)
Lemma bounds_accepted c : bounds_error c = None -> nonan (lb c) -> nonan (ub c) -> List.length (lb c) = List.length (ub c) -> wfb (lb c) (ub c).
Proof.
  unfold bounds_error. intros H Nl Nu L. destruct (x0 c); [discriminate|].
  destruct (0 <? count2 ltb (ub c) (lb c))%nat eqn:E; [discriminate|]. clear H.
  apply Nat.ltb_ge in E. assert (E0 : count2 ltb (ub c) (lb c) = 0%nat) by lia.
  apply count2_zero in E0; [|symmetry; exact L].
  unfold wfb, nonan in *. revert Nl Nu E0. generalize (lb c) (ub c). clear.
  intros a b Na Nb H. induction H as [|u l ub lb H1 H IH]; [constructor|].
  inversion Na; inversion Nb; subst. constructor; [|apply IH; assumption].
  apply ltb_false_leb; assumption.
Qed.
