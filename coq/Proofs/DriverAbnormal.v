(* ABNORMAL termination is reported only when a line search fails from a single-point memory - i.e. after the quasi-Newton
   memory has been dropped (or before it was ever filled), so that the search that failed was along the projected
   steepest-descent path: the result then carries no correction pair.  No hypothesis on the objective, the kernels or the
   configuration. *)
From Coq Require Import List ZArith Bool String Lia Floats.PrimFloat.
From LBFGSB Require Import Base.Res Base.Hoare Model.SF Model.FloatVec Model.Driver Generated.StopTests Proofs.DriverShape.
Import ListNotations.
Open Scope Z_scope.

Section Abnormal.
  Variable U : user.
  Variable K : kern.
  Variable c : cfg.

  Definition AB (s : lst) : Prop := s_msg s = MAbnormal -> List.length (s_X s) = 1%nat /\ s_succ s = false.

  Lemma ab_accept_step ft s a d t1 : s_msg s <> MAbnormal ->
    hoareT (accept_step U K c ft s a d t1) (fun r _ => s_msg (snd r) <> MAbnormal).
  Proof.
    intros HN. unfold accept_step.
    eapply hoareT_bind with (R1 := fun _ _ => True); [intros ? ? ?; exact I|]. intros [[f0 g] t2] tr1 _.
    eapply hoareT_bind with (R1 := fun _ _ => True); [intros ? ? ?; exact I|]. intros [[[[f1 fo] g1] G] filt] tr2 _.
    destruct (if filt then _ else _) as [X1 G1].
    destruct (is_f0_target_reached _ _); [apply hoareT_ret; cbn; discriminate|].
    destruct (is_f0_min_change_reached _ _ _); [apply hoareT_ret; cbn; discriminate|].
    destruct (update_mem_f K c _ _ _ _ _ _) as [[X2 G2] m2].
    destruct (u_cb U) as [cb|].
    - eapply hoareT_bind with (R1 := fun _ _ => True); [intros ? ? ?; exact I|].
      intros b tr3 _. destruct b; apply hoareT_ret; cbn; [discriminate|exact HN].
    - apply hoareT_ret. cbn. exact HN.
  Qed.

  Lemma ab_body ft s : s_msg s <> MAbnormal ->
    hoareT (body U K c ft s) (fun r _ => (fst r = true -> s_msg (snd r) <> MAbnormal) /\ AB (snd r)).
  Proof.
    intros HN. unfold body.
    eapply hoareT_bind with (R1 := fun _ _ => True); [intros ? ? ?; exact I|]. intros [stp t1] tr1 _.
    destruct stp as [a|].
    - eapply hoareT_weaken; [apply ab_accept_step; exact HN|]. intros [cont s1] tr H. cbn in *. split; [intros _; exact H|].
      intros E. contradiction.
    - apply hoareT_ret. unfold fail_step. destruct (List.length (s_X s) =? 1)%nat eqn:E; cbn [fst snd].
      + split; [discriminate|]. intros _. cbn. split; [apply Nat.eqb_eq; exact E|reflexivity].
      + split; [intros _; cbn; discriminate|]. intros H. cbn in H. discriminate.
  Qed.

  Lemma ab_loop fuel ft gt s : s_msg s <> MAbnormal -> hoareT (loop U K c fuel ft gt s) (fun s' _ => AB s').
  Proof.
    revert s. induction fuel as [|k IH]; intros s HN; cbn [loop]; destruct (guard c gt s).
    - apply hoareT_fuel.
    - apply hoareT_ret. intros E. contradiction.
    - eapply hoareT_bind; [apply ab_body; exact HN|]. intros [cont s1] tr1 [H1 H2]. cbn in H1, H2.
      destruct cont; [eapply hoareT_weaken; [apply IH; auto|auto]|apply hoareT_ret; exact H2].
    - apply hoareT_ret. intros E. contradiction.
  Qed.

  Theorem abnormal_without_memory : forall r tr, run U K c = (Ok r, tr) -> r_msg r = MAbnormal -> r_sk r = [] /\ r_success r = false.
  Proof.
    intros r tr H. pose proof (run_shape_of U K c _ r tr H eq_refl) as Hs.
    destruct Hs as [f0 t1 tr1 ft tr2 gt tr3 H1 H2 H3 Ht -> _
                   |f0 t1 tr1 ft tr2 gt tr3 g t2 tr4 t3 tr5 f1 g1 G1 tr6 s' tr7 H1 H2 H3 Ht H4 H5 H6 H7 -> _].
    - unfold early_result. destruct (checkpoint c); cbn; discriminate.
    - assert (HA : AB s').
      { eapply ab_loop; [|exact H7]. unfold first_state.
        destruct (match u_upd U with Some _ => _ | None => _ end) as [X0 G0].
        destruct (match X0 with [] => _ | _ => _ end) as [[X1 G2] m1]. cbn. discriminate. }
      unfold classify. destruct (leb _ _); [cbn; discriminate|]. destruct (_ >=? _); [cbn; discriminate|].
      destruct (_ >=? _); [cbn; discriminate|]. cbn [snapshot r_msg r_sk r_yk r_success]. intros E. destruct (HA E) as [HL HS].
      split; [|exact HS]. destruct (s_X s') as [|p [|q X]]; try discriminate HL. reflexivity.
  Qed.
End Abnormal.
