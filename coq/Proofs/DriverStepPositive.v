(* The step handed back by the line search is not zero: a zero step evaluates the starting point itself, whose value is not
   strictly below itself.  With the range clause (DriverDcsrch) the step is therefore NaN or in (0, stpmax]. *)
From Coq Require Import List ZArith Bool String Lia Floats.PrimFloat.
From LBFGSB Require Import Base.Res Base.Hoare Base.FloatOrd Model.SF Model.FloatVec Model.Driver
  Proofs.SFProofs Proofs.DriverBox Proofs.DriverReport Proofs.DriverValues.
Import ListNotations.
Open Scope Z_scope.

Section Zero.
  (* facts about binary64 zeros (Proofs/FloatZero.v) *)
  Hypothesis axpy_zero : forall x a d, eqb a 0%float = true -> is_finite d = true -> is_nan x = false -> eqb (add x (mul a d)) x = true.
  Hypothesis eqb_trans : forall a b c, eqb a b = true -> eqb b c = true -> eqb a c = true.

  Lemma fclip_eqb x l u : is_nan x = false -> leb l x = true -> leb x u = true -> eqb (fclip x l u) x = true.
  Proof.
    intros Nx H1 H2. destruct (leb_not_nan _ _ H1) as [Nl _]. destruct (leb_not_nan _ _ H2) as [_ Nu]. unfold fclip. rewrite Nx.
    destruct (ltb l x) eqn:E1.
    - rewrite Nx. destruct (ltb x u) eqn:E2.
      + apply leb_antisym; apply leb_refl; exact Nx.
      + apply leb_antisym; [|exact H2]. apply ltb_false_leb; assumption.
    - rewrite Nl. assert (Elx : eqb l x = true) by (apply leb_antisym; [exact H1|apply ltb_false_leb; assumption]).
      destruct (ltb l u) eqn:E2; [exact Elx|].
      assert (Eul : eqb u l = true) by (apply leb_antisym; [apply ltb_false_leb; assumption|eapply leb_trans; eauto]).
      eapply eqb_trans; eauto.
  Qed.

  (* same value as x: the clipped x + 0 * d *)
  Lemma trial_zero (xk d lb ub : vec) a : eqb a 0%float = true ->
    inbox xk lb ub -> nonan xk -> Forall (fun di => is_finite di = true) d -> List.length d = List.length xk ->
    veqb (vclip (vaxpy xk a d) lb ub) xk = true.
  Proof.
    intros Ha. revert d lb ub. induction xk as [|x xk IH]; intros d lb ub Hb Hn Hd Hl.
    - destruct d; [|discriminate]. destruct lb, ub; reflexivity.
    - destruct d as [|di d]; [discriminate|]. destruct lb as [|l lb]; [destruct Hb|]. destruct ub as [|u ub]; [destruct Hb|].
      destruct Hb as [Hx Hb]. inversion Hn as [|? ? Nx Hn']; subst. inversion Hd as [|? ? Fd Hd']; subst.
      cbn [vaxpy vmap2 vclip veqb]. fold (vaxpy xk a d).
      destruct Hx as [Hx|[H1 H2]]; [congruence|].
      assert (E1 : eqb (add x (mul a di)) x = true) by (apply axpy_zero; assumption).
      assert (N1 : is_nan (add x (mul a di)) = false) by (apply eqb_not_nan in E1; tauto).
      assert (E2 : eqb (fclip (add x (mul a di)) l u) (add x (mul a di)) = true).
      { apply fclip_eqb; [exact N1| |].
        - rewrite (eqb_leb_r _ _ _ E1). exact H1.
        - rewrite (eqb_leb_l _ _ _ E1). exact H2. }
      rewrite (eqb_trans _ _ _ E2 E1). cbn [andb]. apply IH; auto.
  Qed.

  Section Step.
    Variable U : user.
    Variable K : kern.
    Variable c : cfg.
    Hypothesis user_respects_array_equal : forall p q, veqb p q = true ->
      uf U p = uf U q /\ ug U p = ug U q /\ fd_stencil U p = fd_stencil U q /\ fd_est U p = fd_est U q.

    Theorem line_search_step_nonzero xk f0 g0 d nit cap t a t1 tr :
      Inv vec float vec float (uf U) (ug U) (fd_stencil U) (fd_est U) (fdmode U) t ->
      (* f0 is the (scaled) objective value at the start xk, which lies in the box and has no NaN; the direction is finite *)
      (exists fv0, uf U xk = Ok fv0 /\ f0 = mul fv0 (SF.scale _ _ _ _ t)) ->
      inbox xk (lb c) (ub c) -> nonan xk -> Forall (fun di => is_finite di = true) d -> List.length d = List.length xk ->
      line_search U K c xk f0 g0 d nit cap t = (Ok (Some a, t1), tr) ->
      eqb a 0%float = false.
    Proof.
      intros HI (fv0 & V0 & Ef0) Hb Hn Hd Hl H.
      destruct (val_line_search U K c user_respects_array_equal xk f0 g0 d nit cap t HI _ _ H) as (_ & _ & _ & _ & Hs).
      destruct (Hs a eq_refl) as (fv & V & Hlt). destruct (eqb a 0%float) eqn:Ea; [|reflexivity]. exfalso.
      pose proof (trial_zero xk d (lb c) (ub c) a Ea Hb Hn Hd Hl) as Hz.
      destruct (user_respects_array_equal _ _ Hz) as (Huf & _). unfold trial in V. rewrite Huf, V0 in V. inversion V; subst fv.
      rewrite Ef0 in Hlt. rewrite ltb_irrefl in Hlt. discriminate.
    Qed.
  End Step.
End Zero.
