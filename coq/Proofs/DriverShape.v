(* Shape of a complete run of the driver model: a successful run is either the early return (target already reached at the
   start) or a prefix of initial steps followed by the loop, the final classification and the result.  Later proofs use this
   decomposition instead of walking through [run_checked] again. *)
From Coq Require Import List ZArith Bool String Lia Floats.PrimFloat FunctionalExtensionality.
From LBFGSB Require Import Base.Res Base.Hoare Model.SF Model.FloatVec Model.Driver Generated.StopTests.
Import ListNotations.
Open Scope Z_scope.

Section Shape.
  Variable U : user.
  Variable K : kern.
  Variable c : cfg.
  Notation sfst := (SF.st vec float vec float).
  Notation scale := (SF.scale vec float vec float).

  Definition t_init (x : vec) : sfst :=
    let t00 := SF.init vec float vec float x fone in
    match checkpoint c with None => t00 | Some ck => SF.set_counters _ _ _ _ (r_nfev ck) (r_njev ck) t00 end.
  Definition step_f0 (x : vec) : M ev (float * sfst) :=
    match checkpoint c with None => sf_fun U x (t_init x) | Some ck => ret (r_fun ck, t_init x) end.
  Definition step_ft : M ev (option float) :=
    match ftarget c with
    | None => ret None
    | Some (TolConst v) => ret (Some v)
    | Some TolCall => v <- call (u_ftarget U) (EvFt (u_ftarget U)) ;; ret (Some v)
    end.
  Definition step_gt : M ev float :=
    match gtol c with TolConst v => ret v | TolCall => call (u_gtol U) (EvGt (u_gtol U)) end.
  Definition step_g (x : vec) (t1 : sfst) : M ev (vec * sfst) :=
    match checkpoint c with None => sf_grad U x t1 | Some ck => ret (r_jac ck, t1) end.
  Definition step_sc (x g : vec) (t2 : sfst) : M ev sfst :=
    match u_scaler U with
    | None => ret t2
    | Some sc => let r := sc x g (lb c) (ub c) in s <- call r (EvScaler x g (lb c) (ub c) r) ;; ret (SF.set_scale _ _ _ _ s t2)
    end.
  Definition step_upd (x : vec) (f0 : float) (g : vec) (X G : list vec) : M ev (float * vec * list vec) :=
    match u_upd U with
    | None => ret (f0, g, G)
    | Some u => let r := u x f0 f0 g X G in '(a1, _, a3, a4) <- call r (EvUpd x f0 f0 g X G r) ;; ret (a1, a3, a4)
    end.
  Definition nit_start : Z := match checkpoint c with None => 0 | Some ck => r_nit ck end.
  Definition restored : list vec * list vec := match checkpoint c with None => ([], []) | Some ck => restore c ck end.
  Definition early_result (x : vec) (f0 : float) (t1 : sfst) : result :=
    match checkpoint c with
    | None => mkres x f0 (vzeros x) (SF.nfev _ _ _ _ t1) (SF.ngev _ _ _ _ t1) nit_start 0 MTarget true [] []
    | Some ck => mkres (r_x ck) (r_fun ck) (r_jac ck) (r_nfev ck) (r_njev ck) (r_nit ck) 0 MTarget true (r_sk ck) (r_yk ck)
    end.
  (* the state with which the loop is entered *)
  Definition first_state (x : vec) (f0 : float) (g : vec) (G : list vec) (t3 : sfst) : lst :=
    let '(X, G) := match u_upd U, fst restored with
                   | Some _, _ :: _ => filter_mem K c (fst restored) G
                   | _, _ => (fst restored, G)
                   end in
    let '(X1, G1, m1) := match X with
                         | [] => ([x], [g], None)
                         | _ => update_mem_f K c (1 <? List.length X)%nat x g X G None
                         end in
    mklst x f0 g X1 G1 m1 nit_start MStart false 2 t3.

  Inductive run_shape (x : vec) (r : result) (tr : list ev) : Prop :=
  | shape_early f0 t1 tr1 ft tr2 gt tr3 :
      step_f0 x = (Ok (f0, t1), tr1) -> step_ft = (Ok ft, tr2) -> step_gt = (Ok gt, tr3) ->
      is_f0_target_reached (div f0 (scale t1)) ft = true ->
      r = early_result x f0 t1 -> tr = tr1 ++ tr2 ++ tr3 -> run_shape x r tr
  | shape_loop f0 t1 tr1 ft tr2 gt tr3 g t2 tr4 t3 tr5 f1 g1 G1 tr6 s' tr7 :
      step_f0 x = (Ok (f0, t1), tr1) -> step_ft = (Ok ft, tr2) -> step_gt = (Ok gt, tr3) ->
      is_f0_target_reached (div f0 (scale t1)) ft = false ->
      step_g x t1 = (Ok (g, t2), tr4) -> step_sc x g t2 = (Ok t3, tr5) ->
      step_upd x (mul f0 (scale t3)) (vscale g (scale t3)) (fst restored) (snd restored) = (Ok (f1, g1, G1), tr6) ->
      loop U K c (fuel0 c nit_start) ft gt (first_state x f1 g1 G1 t3) = (Ok s', tr7) ->
      r = snapshot (classify c gt s') (s_nit (classify c gt s')) ->
      tr = tr1 ++ tr2 ++ tr3 ++ tr4 ++ tr5 ++ tr6 ++ tr7 -> run_shape x r tr.

  Lemma run_checked_shape x r tr : run_checked U K c x = (Ok r, tr) -> run_shape x r tr.
  Proof.
    unfold run_checked. intros H.
    assert (ER : (match checkpoint c with None => ([], []) | Some ck => restore c ck end) = restored) by reflexivity.
    rewrite ER in H. destruct restored as [X G] eqn:ERX.
    change (match checkpoint c with None => sf_fun U x (SF.init vec float vec float x fone)
            | Some ck => ret (r_fun ck, SF.set_counters _ _ _ _ (r_nfev ck) (r_njev ck) (SF.init vec float vec float x fone)) end)
      with (step_f0 x) in H || idtac.
    assert (Ef0 : (match checkpoint c with
                   | Some ck => ret (r_fun ck, match checkpoint c with Some ck0 => SF.set_counters _ _ _ _ (r_nfev ck0) (r_njev ck0) (SF.init vec float vec float x fone) | None => SF.init vec float vec float x fone end)
                   | None => sf_fun U x (match checkpoint c with Some ck0 => SF.set_counters _ _ _ _ (r_nfev ck0) (r_njev ck0) (SF.init vec float vec float x fone) | None => SF.init vec float vec float x fone end)
                   end) = step_f0 x) by (unfold step_f0, t_init; destruct (checkpoint c); reflexivity).
    rewrite Ef0 in H. clear Ef0.
    apply bind_ok_inv in H as ([f0 t1] & tr1 & trA & H1 & H & ->).
    change (match ftarget c with None => ret None | Some (TolConst v) => ret (Some v)
            | Some TolCall => v <- call (u_ftarget U) (EvFt (u_ftarget U)) ;; ret (Some v) end) with step_ft in H.
    apply bind_ok_inv in H as (ft & tr2 & trB & H2 & H & ->).
    change (match gtol c with TolConst v => ret v | TolCall => call (u_gtol U) (EvGt (u_gtol U)) end) with step_gt in H.
    apply bind_ok_inv in H as (gt & tr3 & trC & H3 & H & ->).
    destruct (is_f0_target_reached (div f0 (scale t1)) ft) eqn:Et.
    - eapply shape_early; eauto.
      + unfold early_result, nit_start. destruct (checkpoint c); unfold ret in H; inversion H; reflexivity.
      + destruct (checkpoint c); unfold ret in H; inversion H; subst; rewrite ?app_nil_r; reflexivity.
    - change (match checkpoint c with None => sf_grad U x t1 | Some ck => ret (r_jac ck, t1) end) with (step_g x t1) in H.
      apply bind_ok_inv in H as ([g t2] & tr4 & trD & H4 & H & ->).
      change (match u_scaler U with None => ret t2
              | Some sc => let r := sc x g (lb c) (ub c) in s <- call r (EvScaler x g (lb c) (ub c) r) ;; ret (SF.set_scale _ _ _ _ s t2) end)
        with (step_sc x g t2) in H.
      apply bind_ok_inv in H as (t3 & tr5 & trE & H5 & H & ->).
      change (match u_upd U with None => ret (mul f0 (scale t3), vscale g (scale t3), G)
              | Some u => let r := u x (mul f0 (scale t3)) (mul f0 (scale t3)) (vscale g (scale t3)) X G in
                          '(a1, _, a3, a4) <- call r (EvUpd x (mul f0 (scale t3)) (mul f0 (scale t3)) (vscale g (scale t3)) X G r) ;; ret (a1, a3, a4) end)
        with (step_upd x (mul f0 (scale t3)) (vscale g (scale t3)) X G) in H.
      apply bind_ok_inv in H as ([[f1 g1] G1] & tr6 & trF & H6 & H & ->).
      assert (EFS : forall t, (let '(X0, G0) := match u_upd U, X with Some _, _ :: _ => filter_mem K c X G1 | _, _ => (X, G1) end in
                          let '(X1, G2, m1) := match X0 with [] => ([x], [g1], None) | _ :: _ => update_mem_f K c (1 <? List.length X0)%nat x g1 X0 G0 None end in
                          mklst x f1 g1 X1 G2 m1 (match checkpoint c with None => 0 | Some ck => r_nit ck end) MStart false 2 t)
                          = first_state x f1 g1 G1 t).
      { intros t. unfold first_state, nit_start. rewrite ERX. cbn [fst]. reflexivity. }
      specialize (EFS t3).
      destruct (match u_upd U, X with Some _, _ :: _ => filter_mem K c X G1 | _, _ => (X, G1) end) as [X0 G0] eqn:EF.
      destruct (match X0 with [] => ([x], [g1], None) | _ :: _ => update_mem_f K c (1 <? List.length X0)%nat x g1 X0 G0 None end) as [[X1 G2] m1] eqn:EM.
      cbn beta iota in EFS. rewrite EFS in H.
      apply bind_ok_inv in H as (s' & tr7 & trG & H7 & H & ->).
      unfold ret in H. inversion H; subst. rewrite app_nil_r.
      eapply shape_loop; eauto. rewrite ERX. exact H6.
  Qed.

  (* the run written with the named steps *)
  Definition run_steps (x : vec) : M ev result :=
    '(f0, t1) <- step_f0 x ;;
    ft <- step_ft ;;
    gt <- step_gt ;;
    if is_f0_target_reached (div f0 (scale t1)) ft then ret (early_result x f0 t1)
    else
      '(g, t2) <- step_g x t1 ;;
      t3 <- step_sc x g t2 ;;
      '(f1, g1, G1) <- step_upd x (mul f0 (scale t3)) (vscale g (scale t3)) (fst restored) (snd restored) ;;
      s <- loop U K c (fuel0 c nit_start) ft gt (first_state x f1 g1 G1 t3) ;;
      ret (snapshot (classify c gt s) (s_nit (classify c gt s))).

  Lemma run_checked_steps x : run_checked U K c x = run_steps x.
  Proof.
    unfold run_checked, run_steps, step_f0, t_init, step_ft, step_gt, step_g, step_sc, step_upd, first_state, early_result, nit_start, restored.
    destruct (match checkpoint c with None => ([], []) | Some ck => restore c ck end) as [X G] eqn:ER. cbn [fst snd].
    f_equal. apply FunctionalExtensionality.functional_extensionality. intros [f0 t1].
    f_equal. apply FunctionalExtensionality.functional_extensionality. intros ft.
    f_equal. apply FunctionalExtensionality.functional_extensionality. intros gt.
    destruct (is_f0_target_reached _ _); [destruct (checkpoint c); reflexivity|].
    f_equal. apply FunctionalExtensionality.functional_extensionality. intros [g t2].
    f_equal. apply FunctionalExtensionality.functional_extensionality. intros t3.
    f_equal. apply FunctionalExtensionality.functional_extensionality. intros [[f1 g1] G1].
    destruct (match u_upd U with Some _ => _ | None => _ end) as [X0 G0].
    destruct (match X0 with [] => _ | _ => _ end) as [[X1 G2] m1]. reflexivity.
  Qed.

  Lemma run_shape_of x : forall r tr, run U K c = (Ok r, tr) -> x = vclip (x0 c) (lb c) (ub c) -> run_shape x r tr.
  Proof.
    intros r tr H ->. unfold run in H. destruct (bounds_error c); [discriminate|]. destruct (ck_ok c _); [|discriminate].
    apply run_checked_shape. exact H.
  Qed.
End Shape.
