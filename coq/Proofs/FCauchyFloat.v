(* Flocq-level facts on primitive binary64 floats used by FCauchyProofs.v (kept apart: importing Flocq's Core
   shadows the name [float]).  No axioms besides those of the standard library / Flocq. *)
From Coq Require Import Bool.
From Coq Require PrimFloat FloatAxioms.
From Flocq Require Import Core.Core IEEE754.BinarySingleNaN.
From Flocq Require IEEE754.PrimFloat.
From LBFGSB Require Import Base.FloatOrd.

Lemma Prim2B_zero : FP.Prim2B PF.zero = B754_zero false.
Proof. rewrite FP.zero_equiv. apply FP.Prim2B_B2Prim. Qed.

(* the opposite of a signed zero is a signed zero *)
Lemma eqb_opp_zero (a : PF.float) : PF.eqb a PF.zero = true -> PF.eqb (PF.opp a) PF.zero = true.
Proof.
  rewrite !FP.eqb_equiv, FP.opp_equiv, Prim2B_zero.
  destruct (FP.Prim2B a) as [s|s| |s m e H]; try destruct s; simpl; try discriminate; reflexivity.
Qed.

(* the opposite of a NaN is a NaN, and only of a NaN *)
Lemma is_nan_opp (a : PF.float) : PF.is_nan (PF.opp a) = PF.is_nan a.
Proof.
  rewrite !FP.is_nan_equiv, FP.opp_equiv.
  destruct (FP.Prim2B a) as [s|s| |s m e H]; reflexivity.
Qed.

(* a NaN left operand gives a NaN *)
Lemma is_nan_sub_l (a b : PF.float) : PF.is_nan a = true -> PF.is_nan (PF.sub a b) = true.
Proof.
  rewrite !FP.is_nan_equiv, FP.sub_equiv. destruct (FP.Prim2B a); try discriminate. intros _.
  destruct (FP.Prim2B b); reflexivity.
Qed.
Lemma is_nan_add_l (a b : PF.float) : PF.is_nan a = true -> PF.is_nan (PF.add a b) = true.
Proof.
  rewrite !FP.is_nan_equiv, FP.add_equiv. destruct (FP.Prim2B a); try discriminate. intros _.
  destruct (FP.Prim2B b); reflexivity.
Qed.
Lemma is_nan_div_l (a b : PF.float) : PF.is_nan a = true -> PF.is_nan (PF.div a b) = true.
Proof.
  rewrite !FP.is_nan_equiv, FP.div_equiv. destruct (FP.Prim2B a); try discriminate. intros _.
  destruct (FP.Prim2B b); reflexivity.
Qed.

(* order facts in the key domain *)
Lemma eqb_trans (a b c : PF.float) : PF.eqb a b = true -> PF.eqb b c = true -> PF.eqb a c = true.
Proof. key_tac. Qed.
Lemma eqb_ltb_false (a b : PF.float) : PF.eqb a b = true -> PF.ltb a b = false.
Proof. key_tac. Qed.
Lemma eqb_ltb_false' (a b : PF.float) : PF.eqb a b = true -> PF.ltb b a = false.
Proof. key_tac. Qed.
Lemma nan_ltb_l (a b : PF.float) : PF.is_nan a = true -> PF.ltb a b = false.
Proof. key_tac. Qed.
Lemma nan_ltb_r (a b : PF.float) : PF.is_nan b = true -> PF.ltb a b = false.
Proof. key_tac. Qed.
Lemma leb_eqb_or_ltb (a b : PF.float) : PF.leb a b = true -> PF.eqb a b = true \/ PF.ltb a b = true.
Proof.
  intros H. destruct (PF.ltb a b) eqn:L; [right; reflexivity|left].
  destruct (leb_not_nan _ _ H) as [Na Nb]. apply leb_antisym; [exact H|]. apply ltb_false_leb; assumption.
Qed.
Lemma ltb_eqb_false (a b : PF.float) : PF.ltb a b = true -> PF.eqb a b = false.
Proof. intros H. destruct (PF.eqb a b) eqn:E; [|reflexivity]. rewrite (eqb_ltb_false _ _ E) in H. discriminate. Qed.

Print Assumptions eqb_opp_zero.
