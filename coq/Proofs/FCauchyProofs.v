(* ================================================================================================
   FCauchyProofs.v -- float-level safety facts of the bit-exact model Model/FCauchy.v of
   lbfgsb.cauchy.get_cauchy_point, for ALL inputs: any n, any binary64 values (NaN, infinities, signed zeros,
   subnormals), any answers of the five BLAS/LAPACK oracles, any W, theta, use_factor.

   (P4) shapes            fgcp_length_xcp, fgcp_length_c
   (P3) fixed indices     sorted_pos_spec (argsort + filter), fgcp_fixed_prefix, fgcp_fixed_sorted
   (P1) components        fgcp_xcp_fixed, fgcp_xcp_free, fgcp_component, fgcp_feasible (box membership)
   (P2) untouched         fgcp_zero_direction_untouched, fgcp_zero_breakpoint_untouched, fgcp_zero_gradient_untouched
   ================================================================================================ *)
From Coq Require Import List Bool Arith Lia Sorted Permutation Floats.PrimFloat.
From LBFGSB Require Import Base.FloatOrd Model.FloatVec Model.FCauchy Proofs.DriverBox Proofs.FCauchyFloat.
Import ListNotations.
Local Open Scope nat_scope.

(* ---------------------------------------------------------------------------------------------- *)
(* A. element access and shapes of the vector primitives                                           *)
(* ---------------------------------------------------------------------------------------------- *)
Lemma upd_length i v a : length (upd i v a) = length a.
Proof. revert i. induction a as [|h a IH]; intros [|i]; simpl; auto. Qed.

Lemma nth_upd_same i v a dflt : i < length a -> nth i (upd i v a) dflt = v.
Proof. revert i. induction a as [|h a IH]; intros [|i] H; simpl in *; try lia; auto. apply IH. lia. Qed.

Lemma nth_upd_other i j v a dflt : i <> j -> nth i (upd j v a) dflt = nth i a dflt.
Proof. revert i j. induction a as [|h a IH]; intros [|i] [|j] H; simpl; auto; try lia. Qed.

Lemma vip_length f a b : length (vip f a b) = length a.
Proof. revert b. induction a as [|h a IH]; intros [|y b]; simpl; auto. Qed.

Lemma vmap2_length f a b : length (vmap2 f a b) = Nat.min (length a) (length b).
Proof. revert b. induction a as [|h a IH]; intros [|y b]; simpl; auto. Qed.

Lemma nth_vmap2 f a b i dflt : i < length a -> i < length b ->
  nth i (vmap2 f a b) dflt = f (nth i a dflt) (nth i b dflt).
Proof.
  revert b i. induction a as [|h a IH]; intros [|y b] [|i] Ha Hb; simpl in *; try lia; auto; try (apply IH; lia).
Qed.

Lemma vzeros_length a : length (vzeros a) = length a.
Proof. apply map_length. Qed.

Lemma final_move_length told xcp x d lb ub : length (final_move told xcp x d lb ub) = length xcp.
Proof.
  revert x d lb ub. induction xcp as [|xc xcp IH]; intros [|xi x] [|di d] [|li lb] [|ui ub]; simpl; auto.
Qed.

Lemma nth_final_move told xcp x d lb ub i dflt :
  i < length xcp -> i < length x -> i < length d -> i < length lb -> i < length ub ->
  nth i (final_move told xcp x d lb ub) dflt =
  if eqb (nth i d dflt) 0 then nth i xcp dflt
  else fclip (add (nth i x dflt) (mul told (nth i d dflt))) (nth i lb dflt) (nth i ub dflt).
Proof.
  revert x d lb ub i.
  induction xcp as [|xc xcp IH]; intros [|xi x] [|di d] [|li lb] [|ui ub] [|i]; simpl; intros; try lia; auto; try (apply IH; lia).
Qed.

Lemma breakpoints_length x g lb ub :
  length (breakpoints x g lb ub) = Nat.min (Nat.min (length x) (length g)) (Nat.min (length lb) (length ub)).
Proof.
  revert g lb ub. induction x as [|xi x IH]; intros [|gi g] [|li lb] [|ui ub]; simpl; auto; try lia.
Qed.

Lemma nth_breakpoints x g lb ub i dflt :
  i < length x -> i < length g -> i < length lb -> i < length ub ->
  nth i (breakpoints x g lb ub) dflt = bp (nth i x dflt) (nth i g dflt) (nth i lb dflt) (nth i ub dflt).
Proof.
  revert g lb ub i. induction x as [|xi x IH]; intros [|gi g] [|li lb] [|ui ub] [|i]; simpl; intros; try lia; auto; try (apply IH; lia).
Qed.

Definition memb (i : nat) (F : list nat) : bool := existsb (Nat.eqb i) F.

Lemma memb_In i F : memb i F = true <-> In i F.
Proof.
  unfold memb. rewrite existsb_exists. split.
  - intros [j [Hj E]]. apply Nat.eqb_eq in E. subst. exact Hj.
  - intros H. exists i. split; [exact H|apply Nat.eqb_refl].
Qed.

Lemma memb_false i F : memb i F = false <-> ~ In i F.
Proof. rewrite <- memb_In. destruct (memb i F); split; intros; try discriminate; auto. exfalso; auto. Qed.

Lemma memb_app i F G : memb i (F ++ G) = memb i F || memb i G.
Proof. apply existsb_app. Qed.

(* ---------------------------------------------------------------------------------------------- *)
(* B. the stable argsort (NumPy order: NaN last) and the filter t > 0                              *)
(* ---------------------------------------------------------------------------------------------- *)
Lemma np_lt_false_iff a b :
  np_lt a b = false <-> (is_nan a = true \/ (is_nan a = false /\ is_nan b = false /\ leb b a = true)).
Proof.
  unfold np_lt. destruct (is_nan a) eqn:Na, (is_nan b) eqn:Nb; simpl; rewrite ?orb_false_r, ?orb_true_r.
  - split; [left; reflexivity|intros _; apply nan_ltb_l; exact Na].
  - split; [left; reflexivity|intros _; apply nan_ltb_l; exact Na].
  - split; [discriminate|intros [H|[_ [H _]]]; discriminate].
  - split.
    + intros H. right. repeat split. apply ltb_false_leb; assumption.
    + intros [H|[_ [_ H]]]; [discriminate|apply leb_ltb_false; exact H].
Qed.

Lemma np_lt_asym a b : np_lt a b = true -> np_lt b a = false.
Proof.
  intros H. apply np_lt_false_iff. destruct (is_nan b) eqn:Nb; [left; reflexivity|right].
  unfold np_lt in H. rewrite Nb in H. simpl in H. rewrite orb_false_r in H.
  destruct (ltb_not_nan _ _ H) as [Na _]. repeat split; auto. apply ltb_leb; exact H.
Qed.

Lemma np_le_trans a b c : np_lt b a = false -> np_lt c b = false -> np_lt c a = false.
Proof.
  rewrite !np_lt_false_iff. intros H1 [H2|(Nc & Nb & H2)]; [left; exact H2|].
  destruct H1 as [H1|(_ & Na & H1)]; [congruence|]. right. repeat split; auto. eapply leb_trans; eauto.
Qed.

(* p comes before q: not greater in NumPy's order, and by increasing index among equivalent keys *)
Definition stab (p q : nat * float) : Prop :=
  np_lt (snd q) (snd p) = false /\ (np_lt (snd p) (snd q) = false -> fst p < fst q).

Lemma ins_perm k l : Permutation (ins k l) (k :: l).
Proof.
  induction l as [|h r IH]; simpl; [reflexivity|]. destruct (np_lt (snd h) (snd k)); [|reflexivity].
  rewrite IH. apply perm_swap.
Qed.

Lemma isort_perm l : Permutation (isort l) l.
Proof. induction l as [|a l IH]; simpl; [reflexivity|]. rewrite ins_perm, IH. reflexivity. Qed.

Lemma ins_sorted k l :
  Forall (fun q => fst k < fst q) l -> StronglySorted stab l -> StronglySorted stab (ins k l).
Proof.
  induction l as [|h r IH]; intros HF HS; simpl.
  - repeat constructor.
  - apply StronglySorted_inv in HS. destruct HS as [HSr HFr]. inversion HF as [|? ? Hkh HFk]; subst.
    destruct (np_lt (snd h) (snd k)) eqn:E.
    + constructor; [apply IH; assumption|].
      eapply Permutation_Forall; [apply Permutation_sym, ins_perm|]. constructor; [|exact HFr].
      split; [apply np_lt_asym; exact E|intros E'; congruence].
    + constructor; [constructor; assumption|]. constructor; [split; [exact E|intros _; exact Hkh]|].
      rewrite Forall_forall in *. intros q Hq. destruct (HFr q Hq) as [H1 _]. split.
      * eapply np_le_trans; eauto.
      * intros _. apply HFk. exact Hq.
Qed.

Lemma isort_sorted l : StronglySorted (fun p q => fst p < fst q) l -> StronglySorted stab (isort l).
Proof.
  induction l as [|a l IH]; intros HS; simpl; [constructor|].
  apply StronglySorted_inv in HS. destruct HS as [HSl HF]. apply ins_sorted; [|apply IH; exact HSl].
  eapply Permutation_Forall; [apply Permutation_sym, isort_perm|exact HF].
Qed.

Lemma in_combine_seq (t : vec) s i a :
  In (i, a) (combine (seq s (length t)) t) <-> (s <= i < s + length t /\ a = nth (i - s) t nan).
Proof.
  revert s. induction t as [|h t IH]; intros s; simpl.
  - split; [tauto|lia].
  - rewrite IH. split.
    + intros [E|[H1 H2]].
      * inversion E; subst. split; [lia|]. rewrite Nat.sub_diag. reflexivity.
      * split; [lia|]. replace (i - s) with (S (i - S s)) by lia. exact H2.
    + intros [H1 H2]. destruct (Nat.eq_dec i s) as [->|Hne].
      * left. rewrite Nat.sub_diag in H2. subst. reflexivity.
      * right. split; [lia|]. replace (i - s) with (S (i - S s)) in H2 by lia. exact H2.
Qed.

Lemma map_fst_combine_seq (t : vec) s : map fst (combine (seq s (length t)) t) = seq s (length t).
Proof. revert s. induction t as [|h t IH]; intros s; simpl; [reflexivity|]. rewrite IH. reflexivity. Qed.

Lemma combine_seq_sorted (t : vec) s : StronglySorted (fun p q : nat * float => fst p < fst q) (combine (seq s (length t)) t).
Proof.
  revert s. induction t as [|h t IH]; intros s; simpl; constructor; [apply IH|].
  rewrite Forall_forall. intros [i a] Hi. apply in_combine_seq in Hi. simpl. lia.
Qed.

Definition pairs (t : vec) : list (nat * float) := isort (combine (seq 0 (length t)) t).

Lemma pairs_in t p : In p (pairs t) <-> (fst p < length t /\ snd p = tnth t (fst p)).
Proof.
  unfold pairs. destruct p as [i a]. split.
  - intros H. eapply Permutation_in in H; [|apply isort_perm]. apply in_combine_seq in H. simpl.
    rewrite Nat.sub_0_r in H. unfold tnth. tauto.
  - simpl. intros [H1 H2]. eapply Permutation_in; [apply Permutation_sym, isort_perm|].
    apply in_combine_seq. rewrite Nat.sub_0_r. unfold tnth in H2. split; [lia|exact H2].
Qed.

Lemma map_sorted {A B} (R : A -> A -> Prop) (R' : B -> B -> Prop) (f : A -> B) l :
  (forall a b, In a l -> In b l -> R a b -> R' (f a) (f b)) -> StronglySorted R l -> StronglySorted R' (map f l).
Proof.
  intros H HS. induction HS as [|a l HS IH HF]; simpl; constructor.
  - apply IH. intros; apply H; simpl; auto.
  - rewrite Forall_forall in *. intros b Hb. apply in_map_iff in Hb. destruct Hb as [b0 [<- Hb0]].
    apply H; simpl; auto.
Qed.

Lemma filter_sorted {A} (R : A -> A -> Prop) (f : A -> bool) l : StronglySorted R l -> StronglySorted R (filter f l).
Proof.
  intros HS. induction HS as [|a l HS IH HF]; simpl; [constructor|]. destruct (f a); [|exact IH].
  constructor; [exact IH|]. rewrite Forall_forall in *. intros b Hb. apply filter_In in Hb. apply HF. tauto.
Qed.

Lemma weaken_sorted {A} (R R' : A -> A -> Prop) l :
  (forall a b, In a l -> In b l -> R a b -> R' a b) -> StronglySorted R l -> StronglySorted R' l.
Proof.
  intros H HS. rewrite <- (map_id l). eapply map_sorted; [|exact HS]. exact H.
Qed.

(* the order of np.argsort(t, kind="stable"): i before j implies t_i not greater than t_j in NumPy's sorting
   order (NaN greatest), and i < j when neither is smaller than the other (equal, -0.0 / 0.0, or both NaN) *)
Definition np_before (t : vec) (i j : nat) : Prop := stab (i, tnth t i) (j, tnth t j).

Theorem argsort_spec t :
  (forall i, In i (argsort t) <-> i < length t) /\ NoDup (argsort t) /\ StronglySorted (np_before t) (argsort t).
Proof.
  unfold argsort. fold (pairs t). split; [|split].
  - intros i. rewrite in_map_iff. split.
    + intros [p [<- Hp]]. apply pairs_in in Hp. tauto.
    + intros Hi. exists (i, tnth t i). split; [reflexivity|]. apply pairs_in. simpl. auto.
  - eapply Permutation_NoDup; [apply Permutation_map, Permutation_sym, isort_perm|].
    rewrite map_fst_combine_seq. apply seq_NoDup.
  - eapply map_sorted; [|apply isort_sorted, combine_seq_sorted].
    intros [i a] [j b] Hi Hj H. fold (pairs t) in Hi, Hj. apply pairs_in in Hi. apply pairs_in in Hj. simpl in *.
    destruct Hi as [_ ->]. destruct Hj as [_ ->]. exact H.
Qed.

(* the order of the list of breakpoint indices the loop walks through *)
Definition bp_before (t : vec) (i j : nat) : Prop :=
  leb (tnth t i) (tnth t j) = true /\ (eqb (tnth t i) (tnth t j) = true -> i < j).

Theorem sorted_pos_spec t :
  (forall i, In i (sorted_pos t) <-> (i < length t /\ ltb 0 (tnth t i) = true))
  /\ NoDup (sorted_pos t)
  /\ StronglySorted (bp_before t) (sorted_pos t).
Proof.
  destruct (argsort_spec t) as (HI & HN & HS). unfold sorted_pos. split; [|split].
  - intros i. rewrite filter_In, HI. reflexivity.
  - apply NoDup_filter. exact HN.
  - eapply weaken_sorted; [|apply filter_sorted; exact HS].
    intros i j Hi Hj [H1 H2]. apply filter_In in Hi. apply filter_In in Hj. simpl in *.
    destruct Hi as [_ Pi]. destruct Hj as [_ Pj].
    destruct (ltb_not_nan _ _ Pi) as [_ Ni]. destruct (ltb_not_nan _ _ Pj) as [_ Nj].
    apply np_lt_false_iff in H1. destruct H1 as [H1|(_ & _ & H1)]; [congruence|]. split; [exact H1|].
    intros E. apply H2. apply np_lt_false_iff. right. repeat split; auto.
    destruct (eqb_leb _ _ E) as [_ H]. exact H.
Qed.

(* the three properties determine the list: it is THE stably sorted list of the indices with t_i > 0 *)
Lemma sorted_unique (Rel : nat -> nat -> Prop) : forall l1 l2 : list nat,
  (forall i j, In i l1 -> In j l1 -> Rel i j -> Rel j i -> False) ->
  NoDup l1 -> NoDup l2 -> (forall i, In i l1 <-> In i l2) ->
  StronglySorted Rel l1 -> StronglySorted Rel l2 -> l1 = l2.
Proof.
  induction l1 as [|a l1 IH]; intros l2 Hanti N1 N2 HI S1 S2.
  - destruct l2 as [|b l2]; [reflexivity|]. exfalso. apply (HI b). left. reflexivity.
  - destruct l2 as [|b l2]; [exfalso; apply (HI a); left; reflexivity|].
    apply StronglySorted_inv in S1. destruct S1 as [S1 F1]. apply StronglySorted_inv in S2. destruct S2 as [S2 F2].
    rewrite Forall_forall in F1, F2. inversion N1 as [|? ? Na N1']; subst. inversion N2 as [|? ? Nb N2']; subst.
    assert (E : a = b).
    { destruct (proj1 (HI a) (or_introl eq_refl)) as [E|Ha]; [symmetry; exact E|].
      destruct (proj2 (HI b) (or_introl eq_refl)) as [E|Hb]; [exact E|].
      exfalso. apply (Hanti a b); [left; reflexivity|right; exact Hb|apply F1; exact Hb|apply F2; exact Ha]. }
    subst b. f_equal. apply IH; auto.
    + intros i j Hi Hj. apply Hanti; right; assumption.
    + intros i. split; intros Hi.
      * destruct (proj1 (HI i) (or_intror Hi)) as [E|H]; [subst; contradiction|exact H].
      * destruct (proj2 (HI i) (or_intror Hi)) as [E|H]; [subst; contradiction|exact H].
Qed.

Theorem sorted_pos_unique t l :
  (forall i, In i l <-> (i < length t /\ ltb 0 (tnth t i) = true)) -> NoDup l -> StronglySorted (bp_before t) l ->
  l = sorted_pos t.
Proof.
  intros HI HN HS. destruct (sorted_pos_spec t) as (HI' & HN' & HS').
  apply (sorted_unique (bp_before t)); auto.
  - intros i j _ _ [L1 O1] [L2 O2]. assert (E : eqb (tnth t i) (tnth t j) = true) by (apply leb_antisym; assumption).
    specialize (O1 E). rewrite eqb_sym in E. specialize (O2 E). lia.
  - intros i. rewrite HI, HI'. reflexivity.
Qed.

(* ---------------------------------------------------------------------------------------------- *)
(* C. box lemmas                                                                                   *)
(* ---------------------------------------------------------------------------------------------- *)
Lemma inbox_upd a : forall lb ub i v,
  inbox a lb ub -> (i < length a -> okc v (nth i lb nan) (nth i ub nan)) -> inbox (upd i v a) lb ub.
Proof.
  induction a as [|h a IH]; intros lb ub i v HB Hv; [destruct i; exact I|].
  destruct lb as [|l lb]; [destruct HB|]. destruct ub as [|u ub]; [destruct HB|]. destruct HB as [Hh Ha].
  destruct i as [|k]; simpl.
  - split; [apply Hv; simpl; lia|exact Ha].
  - split; [exact Hh|]. apply IH; [exact Ha|]. intros Hk. apply Hv. simpl. lia.
Qed.

Lemma inbox_length a : forall lb ub, inbox a lb ub -> length a <= length lb /\ length a <= length ub.
Proof.
  induction a as [|h a IH]; intros lb ub HB; simpl; [lia|].
  destruct lb as [|l lb]; [destruct HB|]. destruct ub as [|u ub]; [destruct HB|]. destruct HB as [_ Ha].
  apply IH in Ha. simpl. lia.
Qed.

Lemma wfb_nth lb ub i : wfb lb ub -> i < length lb -> leb (nth i lb nan) (nth i ub nan) = true.
Proof.
  intros H. revert i. induction H as [|l u lb ub Hlu H IH]; intros [|i] Hi; simpl in *; try lia; auto.
  apply IH. lia.
Qed.

Lemma okc_lower l u : leb l u = true -> okc l l u.
Proof. intros H. destruct (leb_not_nan _ _ H) as [Nl _]. right. split; [apply leb_refl; exact Nl|exact H]. Qed.
Lemma okc_upper l u : leb l u = true -> okc u l u.
Proof. intros H. destruct (leb_not_nan _ _ H) as [_ Nu]. right. split; [exact H|apply leb_refl; exact Nu]. Qed.

Lemma final_move_inbox told xcp : forall x d lb ub,
  wfb lb ub -> inbox xcp lb ub -> inbox (final_move told xcp x d lb ub) lb ub.
Proof.
  induction xcp as [|xc xcp IH]; intros x d lb ub Hw HB; [destruct x, d, lb, ub; exact I|].
  destruct lb as [|l lb]; [destruct HB|]. destruct ub as [|u ub]; [destruct HB|]. destruct HB as [Hh Ha].
  inversion Hw as [|? ? ? ? Hlu Hw']; subst.
  destruct x as [|xi x]; [simpl; auto|]. destruct d as [|di d]; [simpl; auto|]. simpl.
  split; [|apply IH; assumption]. destruct (eqb di 0); [exact Hh|apply fclip_okc; exact Hlu].
Qed.

Lemma inbox_nth v : forall lb ub i, inbox v lb ub -> i < length v -> okc (nth i v nan) (nth i lb nan) (nth i ub nan).
Proof.
  induction v as [|h v IH]; intros lb ub i HB Hi; simpl in Hi; [lia|].
  destruct lb as [|l lb]; [destruct HB|]. destruct ub as [|u ub]; [destruct HB|]. destruct HB as [Hh Hv].
  destruct i as [|i]; simpl; [exact Hh|]. apply IH; [exact Hv|lia].
Qed.

Lemma nth_inbox v : forall lb ub, length v <= length lb -> length v <= length ub ->
  (forall i, i < length v -> okc (nth i v nan) (nth i lb nan) (nth i ub nan)) -> inbox v lb ub.
Proof.
  induction v as [|h v IH]; intros lb ub L1 L2 H; [exact I|].
  destruct lb as [|l lb]; [simpl in L1; lia|]. destruct ub as [|u ub]; [simpl in L2; lia|]. simpl in *. split.
  - apply (H 0). lia.
  - apply IH; try lia. intros i Hi. apply (H (S i)). lia.
Qed.

Lemma fclip_nan_in x l u : is_nan x = true -> is_nan (fclip x l u) = true.
Proof. intros H. unfold fclip. rewrite H. rewrite H. exact H. Qed.

(* ---------------------------------------------------------------------------------------------- *)
(* D. the loop                                                                                     *)
(* ---------------------------------------------------------------------------------------------- *)
Section GCP.
Variable O : oracles.
Variables x g lb ub : vec.
Variable theta : float.
Variable W : list vec.
Variable uf : bool.

Section LoopFacts.
Variable t : vec.
Variable f2 : float.
Notation stepm := (step O x g lb ub theta W uf f2).
Notation loopm := (loop O x g lb ub theta W uf t f2).

Lemma step_shapes ibp tc dt s :
  length (s_xcp (stepm ibp tc dt s)) = length (s_xcp s) /\ length (s_c (stepm ibp tc dt s)) = length (s_c s)
  /\ length (s_p (stepm ibp tc dt s)) = length (s_p s) /\ length (s_d (stepm ibp tc dt s)) = length (s_d s).
Proof.
  unfold step; simpl. rewrite !vip_length, upd_length. split; [|split; [|split]]; try reflexivity.
  destruct (ltb 0 _); [apply upd_length|]. destruct (ltb _ 0); [apply upd_length|reflexivity].
Qed.

Lemma step_fixed ibp tc dt s : s_fixed (stepm ibp tc dt s) = s_fixed s ++ [ibp].
Proof. reflexivity. Qed.

Lemma step_told ibp tc dt s : s_told (stepm ibp tc dt s) = tc.
Proof. reflexivity. Qed.

Lemma loop_shapes idx : forall tc dt s,
  length (s_xcp (fst (loopm idx tc dt s))) = length (s_xcp s) /\ length (s_c (fst (loopm idx tc dt s))) = length (s_c s)
  /\ length (s_p (fst (loopm idx tc dt s))) = length (s_p s) /\ length (s_d (fst (loopm idx tc dt s))) = length (s_d s).
Proof.
  induction idx as [|ibp rest IH]; intros tc dt s; simpl; [auto|].
  destruct (ltb (s_dtm s) dt); simpl; [auto|].
  destruct (IH (match rest with [] => infinity | j :: _ => tnth t j end)
               (sub (match rest with [] => infinity | j :: _ => tnth t j end) tc) (stepm ibp tc dt s)) as (A & B & C & D).
  destruct (step_shapes ibp tc dt s) as (A' & B' & C' & D'). split; [|split; [|split]]; congruence.
Qed.

(* the loop fixes a prefix of the list it is given, in order; it stops either on `break` (something is left)
   or because the list is exhausted *)
Lemma loop_fixed idx : forall tc dt s,
  exists pre rest, idx = pre ++ rest
    /\ s_fixed (fst (loopm idx tc dt s)) = s_fixed s ++ pre
    /\ (snd (loopm idx tc dt s) = false -> rest = [])
    /\ (snd (loopm idx tc dt s) = true -> rest <> []).
Proof.
  induction idx as [|ibp rest IH]; intros tc dt s; simpl.
  - exists [], []. split; [reflexivity|]. split; [symmetry; apply app_nil_r|]. split; [reflexivity|intros H; discriminate H].
  - destruct (ltb (s_dtm s) dt); simpl.
    + exists [], (ibp :: rest). split; [reflexivity|]. split; [symmetry; apply app_nil_r|].
      split; [intros H; discriminate H|intros _ H; discriminate H].
    + destruct (IH (match rest with [] => infinity | j :: _ => tnth t j end)
                   (sub (match rest with [] => infinity | j :: _ => tnth t j end) tc) (stepm ibp tc dt s))
        as (pre & rest' & E & F & N1 & N2).
      exists (ibp :: pre), rest'. rewrite F, step_fixed, <- app_assoc. simpl. subst rest. split; [reflexivity|]. split; [reflexivity|]. split; assumption.
Qed.

Lemma step_inbox ibp tc dt s : wfb lb ub -> inbox (s_xcp s) lb ub -> inbox (s_xcp (stepm ibp tc dt s)) lb ub.
Proof.
  intros Hw HB. unfold step; simpl. destruct (inbox_length _ _ _ HB) as [L1 _].
  destruct (ltb 0 _); [|destruct (ltb _ 0); [|exact HB]]; (apply inbox_upd; [exact HB|]); intros Hi.
  - apply okc_upper. apply wfb_nth; [exact Hw|lia].
  - apply okc_lower. apply wfb_nth; [exact Hw|lia].
Qed.

Lemma loop_inbox idx : forall tc dt s,
  wfb lb ub -> inbox (s_xcp s) lb ub -> inbox (s_xcp (fst (loopm idx tc dt s))) lb ub.
Proof.
  induction idx as [|ibp rest IH]; intros tc dt s Hw HB; simpl; [exact HB|].
  destruct (ltb (s_dtm s) dt); simpl; [exact HB|]. apply IH; [exact Hw|]. apply step_inbox; assumption.
Qed.
End LoopFacts.

(* ---------------------------------------------------------------------------------------------- *)
(* E. the whole function                                                                           *)
(* ---------------------------------------------------------------------------------------------- *)
Notation t := (breakpoints x g lb ub).
Notation d0 := (dir0 t g).
Notation R := (fgcp_full O x g lb ub theta W uf).

Definition p0 : vec := o_WTd O d0.
Definition fp0 : float := opp (o_dd O d0).
Definition f2o : float := mul (opp theta) fp0.
Definition fs0 : float := if uf then sub f2o (o_pMp O p0) else f2o.
Definition dtm0 : float := div (opp fp0) fs0.
Definition s0 : st := mkst x (vzeros p0) p0 d0 fp0 fs0 dtm0 0 [].
Definition tc0 : float := match sorted_pos t with [] => infinity | i0 :: _ => tnth t i0 end.
Definition lres : st * bool := loop O x g lb ub theta W uf t f2o (sorted_pos t) tc0 (sub tc0 0) s0.

Lemma fgcp_full_eq :
  R = match sorted_pos t with
      | [] => mkres x (vzeros p0) [] 0 dtm0 false false
      | _ :: _ =>
          let s := fst lres in
          let dtm1 := if ltb (s_dtm s) 0 then 0%float else s_dtm s in
          let told := add (s_told s) dtm1 in
          mkres (final_move told (s_xcp s) x (s_d s) lb ub)
                (vip (fun cj pj => add cj (mul dtm1 pj)) (s_c s) (s_p s))
                (s_fixed s) told dtm1 (snd lres) true
      end.
Proof.
  unfold fgcp_full, lres, tc0, s0, dtm0, fs0, f2o, fp0, p0. destruct (sorted_pos t) as [|i0 rest]; [reflexivity|].
  destruct (loop _ _ _ _ _ _ _ _ _ _ _ _ _ _) as [s found]. reflexivity.
Qed.

Lemma r_loop_iff : r_loop R = false <-> sorted_pos t = [].
Proof. rewrite fgcp_full_eq. destruct (sorted_pos t); simpl; split; intros; try discriminate; reflexivity. Qed.

(* (P4) shapes, for all inputs *)
Theorem fgcp_length_xcp : length (r_xcp R) = length x.
Proof.
  rewrite fgcp_full_eq. destruct (sorted_pos t); simpl; [reflexivity|]. rewrite final_move_length.
  unfold lres. apply loop_shapes.
Qed.

Theorem fgcp_length_c : length (r_c R) = length (o_WTd O d0).
Proof.
  rewrite fgcp_full_eq. destruct (sorted_pos t); simpl; [apply vzeros_length|]. rewrite vip_length.
  unfold lres. destruct (loop_shapes t f2o (sorted_pos t) tc0 (sub tc0 0) s0) as (_ & H & _). rewrite H. simpl. apply vzeros_length.
Qed.

(* early return: nothing is touched *)
Theorem fgcp_no_breakpoint : sorted_pos t = [] -> r_xcp R = x /\ r_c R = vzeros (o_WTd O d0) /\ r_fixed R = [].
Proof. intros H. rewrite fgcp_full_eq, H. simpl. auto. Qed.

(* (P3) the indices fixed by the loop, in order, are a prefix of the stably sorted list of the indices with
   t_i > 0; the whole list when the loop ends by exhaustion, a strict prefix when it ends by `break` *)
Theorem fgcp_fixed_prefix :
  exists rest, sorted_pos t = r_fixed R ++ rest
    /\ (r_found R = false -> rest = []) /\ (r_found R = true -> rest <> []).
Proof.
  rewrite fgcp_full_eq. destruct (sorted_pos t) as [|i0 l] eqn:E.
  - exists []. simpl. repeat split; auto. intros H; discriminate H.
  - simpl. unfold lres. rewrite E.
    destruct (loop_fixed t f2o (i0 :: l) tc0 (sub tc0 0) s0) as (pre & rest & E1 & E2 & N1 & N2).
    exists rest. rewrite E2. simpl. auto.
Qed.

Lemma sorted_app_l {A} (Rel : A -> A -> Prop) a b : StronglySorted Rel (a ++ b) -> StronglySorted Rel a.
Proof.
  induction a as [|h a IH]; simpl; intros H; [constructor|]. apply StronglySorted_inv in H. destruct H as [H1 H2].
  constructor; [apply IH; exact H1|]. apply Forall_app in H2. tauto.
Qed.

Lemma nodup_app_l {A} (a b : list A) : NoDup (a ++ b) -> NoDup a.
Proof.
  induction a as [|h a IH]; simpl; intros H; [constructor|]. inversion H as [|? ? H1 H2]; subst.
  constructor; [|apply IH; exact H2]. intros Hin. apply H1. apply in_or_app. left. exact Hin.
Qed.

Theorem fgcp_fixed_sorted :
  (forall i, In i (r_fixed R) -> i < length t /\ ltb 0 (tnth t i) = true)
  /\ NoDup (r_fixed R)
  /\ StronglySorted (bp_before t) (r_fixed R).
Proof.
  destruct fgcp_fixed_prefix as (rest & E & _). destruct (sorted_pos_spec t) as (HI & HN & HS). rewrite E in *.
  split; [|split].
  - intros i Hi. apply HI. apply in_or_app. left. exact Hi.
  - eapply nodup_app_l. exact HN.
  - eapply sorted_app_l. exact HS.
Qed.

(* (P1, box form) the Cauchy point is feasible: for all inputs, oracles, shapes *)
Theorem fgcp_feasible : wfb lb ub -> inbox x lb ub -> inbox (r_xcp R) lb ub.
Proof.
  intros Hw HB. rewrite fgcp_full_eq. destruct (sorted_pos t); simpl; [exact HB|].
  apply final_move_inbox; [exact Hw|]. unfold lres. apply loop_inbox; assumption.
Qed.

(* the clamped delta_t_min is never negative (it may be NaN) *)
Theorem fgcp_dtm_not_negative : r_loop R = true -> ltb (r_dtm R) 0 = false.
Proof.
  rewrite fgcp_full_eq. destruct (sorted_pos t); simpl; [intros H; discriminate H|]. intros _.
  destruct (ltb (s_dtm (fst lres)) 0) eqn:E; [reflexivity|exact E].
Qed.

(* ---- component-wise description of x_cp, on well-shaped inputs ---- *)
Section Spec.
Hypothesis Lg : length g = length x.
Hypothesis Ll : length lb = length x.
Hypothesis Lu : length ub = length x.

Lemma t_length : length t = length x.
Proof. rewrite breakpoints_length. lia. Qed.
Lemma d0_length : length d0 = length x.
Proof. unfold dir0. rewrite vmap2_length, t_length. lia. Qed.

Lemma nth_t i : i < length x -> tnth t i = bp (nth i x nan) (nth i g nan) (nth i lb nan) (nth i ub nan).
Proof. intros Hi. unfold tnth. apply nth_breakpoints; lia. Qed.
Lemma nth_d0 i : i < length x -> nth i d0 nan = if eqb (tnth t i) 0 then 0%float else opp (nth i g nan).
Proof. intros Hi. unfold dir0, tnth. rewrite nth_vmap2; [reflexivity|rewrite t_length; lia|lia]. Qed.

(* the value the loop gives to a variable it fixes *)
Definition fixval (i : nat) : float :=
  let dib := nth i d0 nan in
  if ltb 0 dib then nth i ub nan else if ltb dib 0 then nth i lb nan else nth i x nan.

Definition Inv (s : st) : Prop :=
  length (s_xcp s) = length x /\ length (s_d s) = length x
  /\ (forall i, i < length x -> nth i (s_d s) nan = if memb i (s_fixed s) then 0%float else nth i d0 nan)
  /\ (forall i, i < length x -> nth i (s_xcp s) nan = if memb i (s_fixed s) then fixval i else nth i x nan).

Lemma memb_snoc i F j : memb i (F ++ [j]) = memb i F || Nat.eqb i j.
Proof. rewrite memb_app. simpl. rewrite orb_false_r. reflexivity. Qed.

Lemma step_inv f2 ibp tc dt s :
  Inv s -> ibp < length x -> memb ibp (s_fixed s) = false -> Inv (step O x g lb ub theta W uf f2 ibp tc dt s).
Proof.
  intros (L1 & L2 & Hd & Hx) Hi Hm. destruct (step_shapes f2 ibp tc dt s) as (A & _ & _ & D).
  split; [congruence|]. split; [congruence|]. split.
  - intros i Hlt. rewrite step_fixed, memb_snoc. unfold step; simpl. destruct (Nat.eq_dec i ibp) as [->|Hne].
    + rewrite nth_upd_same by lia. rewrite Nat.eqb_refl, orb_true_r. reflexivity.
    + rewrite nth_upd_other by exact Hne. apply Nat.eqb_neq in Hne. rewrite Hne, orb_false_r. apply Hd. exact Hlt.
  - intros i Hlt. rewrite step_fixed, memb_snoc. unfold step; simpl. rewrite (Hd ibp Hi), Hm.
    destruct (Nat.eq_dec i ibp) as [->|Hne].
    + rewrite Nat.eqb_refl, orb_true_r. unfold fixval.
      destruct (ltb 0 (nth ibp d0 nan)); [apply nth_upd_same; lia|].
      destruct (ltb (nth ibp d0 nan) 0); [apply nth_upd_same; lia|]. rewrite (Hx ibp Hi), Hm. reflexivity.
    + assert (E : Nat.eqb i ibp = false) by (apply Nat.eqb_neq; exact Hne). rewrite E, orb_false_r.
      destruct (ltb 0 (nth ibp d0 nan)); [rewrite nth_upd_other by exact Hne; apply Hx; exact Hlt|].
      destruct (ltb (nth ibp d0 nan) 0); [rewrite nth_upd_other by exact Hne; apply Hx; exact Hlt|apply Hx; exact Hlt].
Qed.

Lemma loop_inv f2 idx : forall tc dt s,
  Inv s -> NoDup idx -> (forall i, In i idx -> i < length x /\ memb i (s_fixed s) = false) ->
  Inv (fst (loop O x g lb ub theta W uf t f2 idx tc dt s)).
Proof.
  induction idx as [|ibp rest IH]; intros tc dt s HI HN HF; simpl; [exact HI|].
  destruct (ltb (s_dtm s) dt); simpl; [exact HI|]. inversion HN as [|? ? Hni HN']; subst.
  destruct (HF ibp (or_introl eq_refl)) as [Hb Hm]. apply IH; [apply step_inv; assumption|exact HN'|].
  intros i Hi. destruct (HF i (or_intror Hi)) as [Hlt Hmi]. split; [exact Hlt|].
  rewrite step_fixed, memb_snoc, Hmi. simpl. apply Nat.eqb_neq. intros ->. contradiction.
Qed.

Lemma s0_inv : Inv s0.
Proof.
  unfold Inv, s0; simpl. split; [reflexivity|]. split; [apply d0_length|]. split; intros; reflexivity.
Qed.

Lemma final_inv : Inv (fst lres).
Proof.
  unfold lres. destruct (sorted_pos_spec t) as (HI & HN & _). apply loop_inv; [apply s0_inv|exact HN|].
  intros i Hi. apply HI in Hi. rewrite t_length in Hi. split; [tauto|reflexivity].
Qed.

Lemma fixed_lt i : In i (r_fixed R) -> i < length x.
Proof. intros H. destruct fgcp_fixed_sorted as (HI & _). apply HI in H. rewrite t_length in H. tauto. Qed.

(* (P1) a variable fixed by the loop sits, bit for bit, on the bound its direction points to
   (or stays where it is when its direction is a zero or a NaN) *)
Theorem fgcp_xcp_fixed i : In i (r_fixed R) -> nth i (r_xcp R) nan = fixval i.
Proof.
  intros Hin. pose proof (fixed_lt i Hin) as Hi. revert Hin. rewrite fgcp_full_eq.
  destruct (sorted_pos t) as [|i0 l]; simpl; [tauto|]. intros Hin.
  destruct final_inv as (L1 & L2 & Hd & Hx). apply memb_In in Hin.
  rewrite nth_final_move by lia. rewrite (Hd i Hi), (Hx i Hi), Hin. reflexivity.
Qed.

(* (P1) a variable not fixed by the loop is either untouched (zero direction, or early return) or is, bit for
   bit, the clipped point x_i + t_old * d_i of the final move *)
Theorem fgcp_xcp_free i : i < length x -> ~ In i (r_fixed R) ->
  nth i (r_xcp R) nan =
  if r_loop R && negb (eqb (nth i d0 nan) 0)
  then fclip (add (nth i x nan) (mul (r_told R) (nth i d0 nan))) (nth i lb nan) (nth i ub nan)
  else nth i x nan.
Proof.
  intros Hi. rewrite fgcp_full_eq. destruct (sorted_pos t) as [|i0 l]; simpl; [reflexivity|]. intros Hin.
  destruct final_inv as (L1 & L2 & Hd & Hx). apply memb_false in Hin.
  rewrite nth_final_move by lia. rewrite (Hd i Hi), (Hx i Hi), Hin. destruct (eqb (nth i d0 nan) 0); reflexivity.
Qed.

(* (P1) every component of x_cp is, bit for bit, x_i, lb_i, ub_i or the clipped final move *)
Theorem fgcp_component i : i < length x ->
  let v := nth i (r_xcp R) nan in
  v = nth i x nan \/ v = nth i lb nan \/ v = nth i ub nan
  \/ v = fclip (add (nth i x nan) (mul (r_told R) (nth i d0 nan))) (nth i lb nan) (nth i ub nan).
Proof.
  intros Hi v. subst v. destruct (memb i (r_fixed R)) eqn:E.
  - apply memb_In in E. rewrite (fgcp_xcp_fixed i E). unfold fixval.
    destruct (ltb 0 _); [tauto|]. destruct (ltb _ 0); tauto.
  - apply memb_false in E. rewrite (fgcp_xcp_free i Hi E). destruct (r_loop R && _); tauto.
Qed.

(* (P2) a variable whose initial direction is a zero is never moved: x_cp_i is x_i bit for bit.  This covers
   t_i == 0 (d_i := 0.0) and g_i == +-0 (t_i = inf, d_i = -g_i = -+0): the second kind may well be "fixed" by
   the loop (t_i = inf > 0 is a breakpoint), but then neither d > 0 nor d < 0 holds and x_cp_i is not assigned *)
Theorem fgcp_zero_direction_untouched i : i < length x -> eqb (nth i d0 nan) 0 = true ->
  nth i (r_xcp R) nan = nth i x nan.
Proof.
  intros Hi E. destruct (memb i (r_fixed R)) eqn:M.
  - apply memb_In in M. rewrite (fgcp_xcp_fixed i M). unfold fixval.
    rewrite (eqb_ltb_false' _ _ E), (eqb_ltb_false _ _ E). reflexivity.
  - apply memb_false in M. rewrite (fgcp_xcp_free i Hi M), E. simpl. rewrite andb_false_r. reflexivity.
Qed.

Theorem fgcp_zero_breakpoint_untouched i : i < length x -> eqb (tnth t i) 0 = true ->
  nth i (r_xcp R) nan = nth i x nan /\ ~ In i (r_fixed R) /\ nth i d0 nan = 0%float.
Proof.
  intros Hi E. assert (D : nth i d0 nan = 0%float) by (rewrite (nth_d0 i Hi), E; reflexivity).
  split; [apply fgcp_zero_direction_untouched; [exact Hi|rewrite D; reflexivity]|]. split; [|exact D].
  intros Hin. destruct fgcp_fixed_sorted as (HI & _). apply HI in Hin. destruct Hin as [_ Hp].
  rewrite (eqb_ltb_false' _ _ E) in Hp. discriminate Hp.
Qed.

Theorem fgcp_zero_gradient_untouched i : i < length x -> eqb (nth i g nan) 0 = true ->
  nth i (r_xcp R) nan = nth i x nan /\ tnth t i = infinity.
Proof.
  intros Hi E. assert (T : tnth t i = infinity) by (rewrite (nth_t i Hi); unfold bp; rewrite E; reflexivity).
  split; [|exact T]. apply fgcp_zero_direction_untouched; [exact Hi|]. rewrite (nth_d0 i Hi), T.
  change (eqb infinity 0) with false. cbv iota. apply eqb_opp_zero. exact E.
Qed.
(* (P1, box form, no hypothesis on the bounds) on well-shaped inputs the box of x is kept even when some lb_i > ub_i
   or some bound is NaN: such a component of x can only be in "the box" by being NaN, and then it stays NaN *)
Theorem fgcp_feasible_any_bounds : inbox x lb ub -> inbox (r_xcp R) lb ub.
Proof.
  intros HB. apply nth_inbox; rewrite fgcp_length_xcp; try lia. intros i Hi.
  pose proof (inbox_nth _ _ _ i HB Hi) as Hx.
  assert (Hlu : is_nan (nth i x nan) = false -> leb (nth i lb nan) (nth i ub nan) = true).
  { intros Nx. destruct Hx as [Hx|[H1 H2]]; [congruence|]. eapply leb_trans; eauto. }
  destruct (memb i (r_fixed R)) eqn:M.
  - apply memb_In in M. rewrite (fgcp_xcp_fixed i M). unfold fixval.
    destruct (is_nan (nth i x nan)) eqn:Nx.
    + (* x_i NaN: t_i > 0 forces g_i == 0, hence a zero direction *)
      destruct fgcp_fixed_sorted as (HI & _). destruct (HI i M) as [_ Hp]. rewrite (nth_t i Hi) in Hp.
      rewrite (nth_d0 i Hi), (nth_t i Hi). unfold bp in *. destruct (eqb (nth i g nan) 0) eqn:G.
      * change (eqb infinity 0) with false. cbv iota. assert (Z : eqb (opp (nth i g nan)) 0 = true) by (apply eqb_opp_zero; exact G).
        rewrite (eqb_ltb_false' _ _ Z), (eqb_ltb_false _ _ Z). exact Hx.
      * exfalso. destruct (ltb_not_nan _ _ Hp) as [_ Nt]. revert Nt.
        destruct (ltb (nth i g nan) 0); rewrite is_nan_div_l; try discriminate; apply is_nan_sub_l; exact Nx.
    + specialize (Hlu eq_refl). destruct (ltb 0 _); [apply okc_upper; exact Hlu|].
      destruct (ltb _ 0); [apply okc_lower; exact Hlu|exact Hx].
  - apply memb_false in M. rewrite (fgcp_xcp_free i Hi M). destruct (r_loop R && _); [|exact Hx].
    destruct (is_nan (nth i x nan)) eqn:Nx.
    + left. apply fclip_nan_in. apply is_nan_add_l. exact Nx.
    + apply fclip_okc. apply Hlu. reflexivity.
Qed.
End Spec.
End GCP.

(* ---------------------------------------------------------------------------------------------- *)
(* F. the statements on the pair returned by the Python function                                   *)
(* ---------------------------------------------------------------------------------------------- *)
Corollary fgcp_pair_feasible O x g lb ub theta W uf :
  wfb lb ub -> inbox x lb ub -> inbox (fst (fgcp O x g lb ub theta W uf)) lb ub.
Proof. apply fgcp_feasible. Qed.

Corollary fgcp_pair_lengths O x g lb ub theta W uf :
  length (fst (fgcp O x g lb ub theta W uf)) = length x
  /\ length (snd (fgcp O x g lb ub theta W uf)) = length (o_WTd O (dir0 (breakpoints x g lb ub) g)).
Proof. split; [apply fgcp_length_xcp|apply fgcp_length_c]. Qed.

(* ---------------------------------------------------------------------------------------------- *)
(* G. statements that are FALSE, with witnesses (vm_compute)                                       *)
(* ---------------------------------------------------------------------------------------------- *)
(* an executable instance of the oracles for the no-memory shape W = n x 1 zeros (sequential sums) *)
Definition fdot (a b : vec) : float := fold_left add (vmap2 mul a b) 0%float.
Definition ex_oracles : oracles :=
  mkO (fun d => [fdot (map (fun _ => 0%float) d) d]) (fun d => fdot d d) (fun _ => 0%float) (fun _ _ => 0%float) (fun _ _ => 0%float).

Local Open Scope float_scope.

(* FALSE: "a variable with a zero gradient is never fixed by the loop".  Its breakpoint is t = inf > 0, so it is in
   the list the loop walks through; the loop "fixes" it (log line `Variable 1 is fixed.`) without assigning x_cp,
   because its direction -0.0 is neither > 0 nor < 0.  (True: its x_cp component is x_i -- fgcp_zero_gradient_untouched.)
   Same witness for FALSE: "a variable fixed by the loop ends on one of its bounds". *)
Example zero_gradient_is_fixed :
  let r := fgcp_full ex_oracles [0] [0] [-1] [1] 1 [[0]] false in
  r_fixed r = [0%nat] /\ vbits (r_xcp r) [0] = true /\ r_found r = false.
Proof. vm_compute. auto. Qed.

(* FALSE: "if x is in the box (no NaN) and the bounds are well formed then x_cp has no NaN".  A NaN gradient
   component makes d.dot(d) NaN; the loop then never breaks, fixes the other variables, and the final move writes
   clip(x_0 + t_old * NaN) = NaN.  [okc] allows exactly that. *)
Example nan_gradient_gives_nan_component :
  let r := fgcp_full ex_oracles [0; 0] [nan; -1] [-1; -1] [1; 1] 1 [[0]; [0]] false in
  vbits (r_xcp r) [nan; 1] = true /\ r_fixed r = [1%nat].
Proof. vm_compute. auto. Qed.

(* FALSE: "np.argsort(t) is sorted for the float order <=" (NaN entries), and "... strictly sorted" (ties keep
   the index order).  What holds is argsort_spec / sorted_pos_spec. *)
Example argsort_with_nan_and_ties :
  argsort [1; nan; 0x1p-1; 1; -0; 0; infinity; nan] = [4; 5; 2; 0; 3; 6; 1; 7]%nat
  /\ sorted_pos [1; nan; 0x1p-1; 1; -0; 0; infinity; nan] = [2; 0; 3; 6]%nat.
Proof. vm_compute. auto. Qed.

(* FALSE: "the variables tied with the last fixed breakpoint are fixed by the loop too".  With memory, f' can become
   positive after the first of two tied variables: the loop leaves through `break` on the tied breakpoint
   (delta_t_min < 0 = delta_t) and the second variable is handed to the final move, which clips it onto the same
   bound.  Inputs and oracle answers: the regression case of the (repaired) tied-breakpoint mask defect, recorded from
   the real run (memory built by update_lbfgs_matrices from one pair). *)
Example exit_on_tied_breakpoint :
  let x := [0; 0] in let g := [-1; -0x1p-2] in let lb := [-1; -1] in let ub := [0x1p-3; 0x1p-5] in
  let O := table_oracles
    [([1; 0x1p-2], [0x1.2p+1; -0x1.4p+0])] [([1; 0x1p-2], 0x1.1p+0)] [([0x1.2p+1; -0x1.4p+0], -0x1.0000000000001p+0)]
    [([0x1.8p+0; -0x1.4p+1], [0x1.2p-2; -0x1.4p-3], -0x1.0000000000002p-4)]
    [([0x1.8p+0; -0x1.4p+1], [0x1.8p+1; 0], -1)] in
  let r := fgcp_full O x g lb ub 0x1.4p+1 [[0x1.8p+0; -0x1.4p+1]; [0x1.8p+1; 0x1.4p+2]] true in
  vbits (breakpoints x g lb ub) [0x1p-3; 0x1p-3] = true /\ sorted_pos (breakpoints x g lb ub) = [0; 1]%nat
  /\ r_fixed r = [0%nat] /\ r_found r = true /\ ltb (r_dtm r) 0 = false /\ vbits (r_xcp r) ub = true
  /\ vbits (r_c r) [0x1.2p-2; -0x1.4p-3] = true.
Proof. vm_compute. repeat split; reflexivity. Qed.

Print Assumptions argsort_spec.
Print Assumptions sorted_pos_spec.
Print Assumptions fgcp_length_xcp.
Print Assumptions fgcp_length_c.
Print Assumptions fgcp_fixed_prefix.
Print Assumptions fgcp_fixed_sorted.
Print Assumptions fgcp_feasible.
Print Assumptions fgcp_feasible_any_bounds.
Print Assumptions sorted_pos_unique.
Print Assumptions fgcp_xcp_fixed.
Print Assumptions fgcp_xcp_free.
Print Assumptions fgcp_component.
Print Assumptions fgcp_zero_direction_untouched.
Print Assumptions fgcp_zero_breakpoint_untouched.
Print Assumptions fgcp_zero_gradient_untouched.
Print Assumptions fgcp_dtm_not_negative.
