(* C07 (inert callback) and C13 (identity update function) on the driver model: a callback that always answers False, and an
   update function that returns its inputs unchanged, leave the run as it is - same outcome, same trace once their own events
   are erased.  Simulation argument over the monadic model (Base/Sim.v). *)
From Coq Require Import List ZArith Bool String Lia Floats.PrimFloat.
From LBFGSB Require Import Base.Res Base.Sim Model.SF Model.FloatVec Model.Driver Generated.StopTests
  Proofs.DriverMemory Proofs.DriverShape.
Import ListNotations.
Open Scope Z_scope.

Definition with_cb (cb : option (result -> res bool)) (U : user) : user :=
  mkuser (uf U) (ug U) cb (u_upd U) (u_scaler U) (u_ftarget U) (u_gtol U) (fdmode U) (fd_stencil U) (fd_est U).
Definition with_upd (u : option (vec -> float -> float -> vec -> list vec -> list vec -> res (float * float * vec * list vec))) (U : user) : user :=
  mkuser (uf U) (ug U) (u_cb U) u (u_scaler U) (u_ftarget U) (u_gtol U) (fdmode U) (fd_stencil U) (fd_est U).

Definition not_cb (e : ev) : bool := match e with EvCb _ _ => false | _ => true end.
Definition not_upd (e : ev) : bool := match e with EvUpd _ _ _ _ _ _ _ => false | _ => true end.

(* ---------------------------------------------------------------------------------------------- inert callback *)
Section InertCallback.
  Variable U : user.
  Variable K : kern.
  Variable c : cfg.
  Variable cbf : result -> res bool.
  Hypothesis cb_false : forall s, cbf s = Ok false.
  Hypothesis no_cb : u_cb U = None.

  Notation U1 := (with_cb (Some cbf) U).
  Notation S := (sim not_cb).

  Lemma inert_accept ft s a d t1 : S (accept_step U1 K c ft s a d t1) (accept_step U K c ft s a d t1).
  Proof.
    unfold accept_step. change (sf_fun_and_grad U1) with (sf_fun_and_grad U). change (u_upd U1) with (u_upd U). change (u_cb U1) with (Some cbf).
    rewrite no_cb.
    apply sim_bind; [apply sim_refl|]. intros [[f0 g] t2] _.
    apply sim_bind; [apply sim_refl|]. intros [[[[f1 fo] g1] G1] filt] _.
    destruct (if filt then _ else _) as [X1 G2].
    destruct (is_f0_target_reached _ _); [apply sim_refl|]. destruct (is_f0_min_change_reached _ _ _); [apply sim_refl|].
    destruct (update_mem_f K c _ _ _ _ _ _) as [[X2 G3] m2].
    rewrite cb_false. apply sim_erased_call; [reflexivity|apply sim_refl].
  Qed.

  Lemma inert_body ft s : S (body U1 K c ft s) (body U K c ft s).
  Proof.
    unfold body. change (line_search U1) with (line_search U).
    apply sim_bind; [apply sim_refl|]. intros [stp t1] _. destruct stp as [a|]; [apply inert_accept|apply sim_refl].
  Qed.

  Lemma inert_loop fuel ft gt s : S (loop U1 K c fuel ft gt s) (loop U K c fuel ft gt s).
  Proof.
    revert s. induction fuel as [|k IH]; intros s; cbn [loop]; destruct (guard c gt s); try apply sim_refl.
    apply sim_bind; [apply inert_body|]. intros [cont s1] _. destruct cont; [apply IH|apply sim_refl].
  Qed.

  Theorem inert_run : S (run U1 K c) (run U K c).
  Proof.
    unfold run. destruct (bounds_error c); [apply sim_refl|]. destruct (ck_ok c _); [|apply sim_refl].
    rewrite !run_checked_steps. unfold run_steps.
    change (step_f0 U1) with (step_f0 U). change (step_ft U1) with (step_ft U). change (step_gt U1) with (step_gt U).
    apply sim_bind; [apply sim_refl|]. intros [f0 t1] _.
    apply sim_bind; [apply sim_refl|]. intros ft _.
    apply sim_bind; [apply sim_refl|]. intros gt _.
    destruct (is_f0_target_reached _ _); [apply sim_refl|].
    change (step_g U1) with (step_g U). apply sim_bind; [apply sim_refl|]. intros [g t2] _.
    change (step_sc U1) with (step_sc U). apply sim_bind; [apply sim_refl|]. intros t3 _.
    change (step_upd U1) with (step_upd U). apply sim_bind; [apply sim_refl|]. intros [[f1 g1] G1] _.
    change (first_state U1) with (first_state U).
    apply sim_bind; [apply inert_loop|]. intros s _. apply sim_refl.
  Qed.
End InertCallback.

(* ---------------------------------------------------------------------------------------------- identity update *)
Section IdentityUpdate.
  Variable U : user.
  Variable K : kern.
  Variable c : cfg.
  Hypothesis maxcor_nonneg : 0 <= maxcor c.
  Hypothesis no_upd : u_upd U = None.
  Hypothesis no_checkpoint : checkpoint c = None.
  (* the dot product does not change when both arguments are negated: the curvature test of a pair does not depend on the
     order in which its two points are given (bitwise true of an IEEE sum of products) *)
  Hypothesis curv_sym : forall a ga b gb, curvature_ok K c a ga b gb = curvature_ok K c b gb a ga.

  Definition idu : vec -> float -> float -> vec -> list vec -> list vec -> res (float * float * vec * list vec) :=
    fun x f0 f0o g X G => Ok (f0, f0o, g, G).
  Notation U1 := (with_upd (Some idu) U).
  Notation S := (sim not_upd).

  (* on a history every adjacent pair of which passed the test, the filter keeps everything *)
  Lemma filter_back_id rX rG aX aG : List.length rX = List.length rG ->
    pairs_ok K c (rev rX ++ aX) (rev rG ++ aG) -> aX <> [] -> List.length aX = List.length aG ->
    filter_back K c rX rG aX aG = (rev rX ++ aX, rev rG ++ aG).
  Proof.
    revert rG aX aG. induction rX as [|xk rX IH]; intros [|gk rG] aX aG L P Hn La; cbn in L; try discriminate; [reflexivity|].
    cbn [filter_back rev]. cbn [rev] in P. rewrite <- !app_assoc in P. rewrite <- !app_assoc. cbn [app] in P |- *.
    assert (Hc : curvature_ok K c xk gk (hd [] aX) (hd [] aG) = true).
    { destruct aX as [|x1 aX]; [congruence|]. destruct aG as [|g1 aG]; [discriminate|]. cbn [hd].
      assert (Hlen : List.length (rev rX) = List.length (rev rG)) by (rewrite !rev_length; lia).
      clear - P Hlen curv_sym. revert P Hlen. generalize (rev rX) (rev rG). intros l1.
      induction l1 as [|a l1 IHl]; intros [|b l2] Hp Hlen; cbn in Hlen; try discriminate.
      - cbn in Hp. destruct Hp as [Hp _]. rewrite curv_sym. exact Hp.
      - apply (IHl l2); [|lia]. apply (pairs_ok_tl K c) in Hp. exact Hp. }
    rewrite Hc. apply IH; [lia|exact P|discriminate|cbn; lia].
  Qed.

  Lemma filter_id X G : mem_ok K c X G -> filter_mem K c X G = (X, G).
  Proof.
    intros (L & N & B & P). unfold filter_mem.
    destruct (rev X) as [|xl rX] eqn:EX. { destruct X; [cbn in N; lia|]. apply (f_equal (@List.length vec)) in EX. rewrite rev_length in EX. discriminate. }
    destruct (rev G) as [|gl rG] eqn:EG. { destruct G; [cbn in L; lia|]. apply (f_equal (@List.length vec)) in EG. rewrite rev_length in EG. discriminate. }
    assert (HX : X = rev rX ++ [xl]) by (rewrite <- (rev_involutive X), EX; reflexivity).
    assert (HG : G = rev rG ++ [gl]) by (rewrite <- (rev_involutive G), EG; reflexivity).
    rewrite filter_back_id; [rewrite <- HX, <- HG; reflexivity| | |discriminate|reflexivity].
    - apply (f_equal (@List.length vec)) in EX, EG. rewrite rev_length in EX, EG. cbn in EX, EG. lia.
    - rewrite <- HX, <- HG. exact P.
  Qed.

  (* the matrices describe the current history: none with a single point, built from (X, G) otherwise *)
  Hypothesis maxcor_pos : 1 <= maxcor c.
  Definition mats_fresh (s : lst) : Prop :=
    if (List.length (s_X s) =? 1)%nat then s_mats s = None else s_mats s = Some (s_X s, s_G s).
  Definition MI (s : lst) : Prop := mem_ok K c (s_X s) (s_G s) /\ mats_fresh s.

  Lemma forced_same (x g : vec) (X G : list vec) m : (1 <= List.length X)%nat ->
    (if (List.length X =? 1)%nat then m = None else m = Some (X, G)) ->
    update_mem_f K c (true && (1 <? List.length X)%nat) x g X G (if true && (List.length X =? 1)%nat then None else m) = update_mem K c x g X G m.
  Proof.
    intros N Hm. unfold update_mem_f, update_mem. destruct (curvature_ok K c x g _ _); [reflexivity|]. f_equal. cbn [andb].
    destruct (List.length X =? 1)%nat eqn:E1.
    - apply Nat.eqb_eq in E1. rewrite E1. cbn. congruence.
    - apply Nat.eqb_neq in E1. assert (Hlt : (1 <? List.length X)%nat = true) by (apply Nat.ltb_lt; lia). rewrite Hlt. congruence.
  Qed.

  Lemma ident_accept ft s a d t1 : MI s -> S (accept_step U1 K c ft s a d t1) (accept_step U K c ft s a d t1).
  Proof.
    intros [HM HF]. unfold accept_step. change (sf_fun_and_grad U1) with (sf_fun_and_grad U). change (u_upd U1) with (Some idu). change (u_cb U1) with (u_cb U).
    rewrite no_upd.
    apply sim_bind; [apply sim_refl|]. intros [[f0 g] t2] _.
    rewrite bind_ret_l. rewrite bind_assoc. unfold idu at 1.
    apply sim_erased_call; [reflexivity|]. rewrite bind_ret_l.
    cbn beta iota. rewrite (filter_id _ _ HM).
    rewrite (forced_same _ g (s_X s) (s_G s) (s_mats s)); [|destruct HM as (_ & N & _); exact N|exact HF].
    cbn [andb]. change (update_mem_f K c false) with (update_mem K c). apply sim_refl.
  Qed.

  Lemma update_fresh (x g : vec) (X G : list vec) m : mem_ok K c X G -> (if (List.length X =? 1)%nat then m = None else m = Some (X, G)) ->
    let '(X', G', m') := update_mem K c x g X G m in (if (List.length X' =? 1)%nat then m' = None else m' = Some (X', G')).
  Proof.
    intros (L & N & B & P) Hm. unfold update_mem. destruct (curvature_ok K c x g _ _); [|exact Hm].
    assert (Hl : (2 <= List.length (trim c (X ++ [x])))%nat).
    { unfold trim. rewrite app_length. cbn [List.length]. destruct (_ >? _) eqn:E.
      - apply Z.gtb_lt in E. destruct X as [|x0 X]; [cbn in N; lia|]. cbn [app tl List.length] in *. rewrite app_length. cbn. lia.
      - rewrite app_length. cbn. lia. }
    destruct (List.length (trim c (X ++ [x])) =? 1)%nat eqn:E1; [apply Nat.eqb_eq in E1; lia|reflexivity].
  Qed.

  Lemma mi_accept ft s a d t1 r tr : MI s -> accept_step U K c ft s a d t1 = (Ok r, tr) -> MI (snd r).
  Proof.
    intros [HM HF] H. unfold accept_step in H. rewrite no_upd in H.
    apply bind_ok_inv in H as ([[f0 g] t2] & tr1 & trA & H1 & H & ->). rewrite bind_ret_l in H. cbn beta iota in H. cbn [andb] in H.
    change (update_mem_f K c false) with (update_mem K c) in H.
    destruct (is_f0_target_reached _ _); [unfold ret in H; inversion H; subst; split; [exact HM|exact HF]|].
    destruct (is_f0_min_change_reached _ _ _); [unfold ret in H; inversion H; subst; split; [exact HM|exact HF]|].
    pose proof (mem_update_ok K c (vclip (vaxpy (s_x s) a d) (lb c) (ub c)) g (s_X s) (s_G s) (s_mats s) HM) as HU.
    pose proof (update_fresh (vclip (vaxpy (s_x s) a d) (lb c) (ub c)) g (s_X s) (s_G s) (s_mats s) HM HF) as HV.
    destruct (update_mem K c _ g (s_X s) (s_G s) (s_mats s)) as [[X2 G3] m2]. destruct HU as [HU _].
    destruct (u_cb U) as [cb|]; [|unfold ret in H; inversion H; subst; split; [exact HU|exact HV]].
    apply bind_ok_inv in H as (b' & q1 & q2 & Q1 & Q2 & ->). destruct b'; unfold ret in Q2; inversion Q2; subst; (split; [exact HU|exact HV]).
  Qed.

  Lemma mi_body ft s r tr : MI s -> body U K c ft s = (Ok r, tr) -> MI (snd r).
  Proof.
    intros HM H. unfold body in H. apply bind_ok_inv in H as ([stp t1] & trA & trB & HA & HB & ->).
    destruct stp as [a|]; [eapply mi_accept; eauto|]. unfold ret in HB. inversion HB; subst.
    unfold fail_step. destruct HM as [HM HF]. destruct (List.length (s_X s) =? 1)%nat eqn:E; cbn [snd]; [split; [exact HM|exact HF]|].
    destruct HM as (L & N & B & P). split; [repeat split; cbn; auto; lia|]. unfold mats_fresh. cbn. reflexivity.
  Qed.

  Lemma ident_body ft s : MI s -> S (body U1 K c ft s) (body U K c ft s).
  Proof.
    intros HM. unfold body. change (line_search U1) with (line_search U).
    apply sim_bind; [apply sim_refl|]. intros [stp t1] _. destruct stp as [a|]; [apply ident_accept; exact HM|apply sim_refl].
  Qed.

  Lemma ident_loop fuel ft gt s : MI s -> S (loop U1 K c fuel ft gt s) (loop U K c fuel ft gt s).
  Proof.
    revert s. induction fuel as [|k IH]; intros s HM; cbn [loop]; destruct (guard c gt s); try apply sim_refl.
    pose proof (ident_body ft s HM) as SB.
    apply sim_bind; [exact SB|]. intros [cont s1] H1. destruct cont; [|apply sim_refl].
    apply IH. destruct SB as [SB _]. rewrite H1 in SB. destruct (body U K c ft s) as [r2 t2] eqn:E2. cbn in SB. subst r2.
    exact (mi_body ft s _ _ HM E2).
  Qed.

  Theorem ident_run : S (run U1 K c) (run U K c).
  Proof.
    unfold run. destruct (bounds_error c); [apply sim_refl|]. destruct (ck_ok c _); [|apply sim_refl].
    rewrite !run_checked_steps. unfold run_steps.
    change (step_f0 U1) with (step_f0 U). change (step_ft U1) with (step_ft U). change (step_gt U1) with (step_gt U).
    apply sim_bind; [apply sim_refl|]. intros [f0 t1] _.
    apply sim_bind; [apply sim_refl|]. intros ft _.
    apply sim_bind; [apply sim_refl|]. intros gt _.
    destruct (is_f0_target_reached _ _); [apply sim_refl|].
    change (step_g U1) with (step_g U). apply sim_bind; [apply sim_refl|]. intros [g t2] _.
    change (step_sc U1) with (step_sc U). apply sim_bind; [apply sim_refl|]. intros t3 _.
    assert (ER : restored c = ([], [])) by (unfold restored; rewrite no_checkpoint; reflexivity). rewrite ER. cbn [fst snd].
    unfold step_upd. change (u_upd U1) with (Some idu). rewrite no_upd. rewrite bind_ret_l.
    unfold idu at 1. rewrite bind_assoc. apply sim_erased_call; [reflexivity|]. rewrite !bind_ret_l.
    assert (EF : forall t, first_state U1 K c (vclip (x0 c) (lb c) (ub c)) (mul f0 (SF.scale _ _ _ _ t3)) (vscale g (SF.scale _ _ _ _ t3)) [] t =
                 first_state U K c (vclip (x0 c) (lb c) (ub c)) (mul f0 (SF.scale _ _ _ _ t3)) (vscale g (SF.scale _ _ _ _ t3)) [] t).
    { intros t. unfold first_state. rewrite ER, no_upd. reflexivity. }
    rewrite EF.
    apply sim_bind; [|intros s _; apply sim_refl].
    apply ident_loop. unfold first_state. rewrite ER, no_upd. cbn. split; [repeat split; cbn; auto; lia|reflexivity].
  Qed.
End IdentityUpdate.
