(* C03 / C05 (coherence) / C11 (accepted step) on the driver model, for a fixed objective (no update function):
   the value and gradient carried by the state belong to its point, and the objective never increases from one
   accepted iterate to the next.  For every kernel behaviour, every line-search routine, every budget. *)
From Coq Require Import List ZArith Bool String Lia Floats.PrimFloat.
From LBFGSB Require Import Base.Res Base.Hoare Base.FloatOrd Model.SF Model.FloatVec Model.Driver Generated.StopTests
  Proofs.SFProofs.
Import ListNotations.
Open Scope Z_scope.

Lemma lift_inv {E E' A} (g : E' -> E) (m : M E' A) a tr : lift g m = (Ok a, tr) -> exists tr', m = (Ok a, tr') /\ tr = map g tr'.
Proof. destruct m as [r t]. unfold lift. cbn. intros H. inversion H; subst. eauto. Qed.

Lemma vscale_one v : vscale v fone = v.
Proof. unfold vscale. induction v as [|x v IH]; cbn [map]; [reflexivity|]. rewrite IH. unfold fone. rewrite mul_one_r. reflexivity. Qed.

(* b is a or strictly below a *)
Definition below (a b : float) : Prop := b = a \/ ltb b a = true.
Lemma below_refl a : below a a. Proof. left; reflexivity. Qed.
Lemma below_trans a b c : below a b -> below b c -> below a c.
Proof.
  intros [->|H1] [->|H2]; unfold below; auto. right. eapply ltb_trans; eauto.
Qed.
Fixpoint chain (l : list float) : Prop :=
  match l with
  | a :: ((b :: _) as r) => below a b /\ chain r
  | _ => True
  end.
Lemma last_default_irrelevant (h : float) t d1 d2 : last (h :: t) d1 = last (h :: t) d2.
Proof. revert h. induction t as [|y t IH]; intros h; [reflexivity|]. exact (IH y). Qed.
Lemma last_cons (h : float) t a : last (h :: t) a = last t h.
Proof. destruct t as [|y t]; [reflexivity|]. change (last (h :: y :: t) a) with (last (y :: t) a). apply last_default_irrelevant. Qed.
Lemma chain_app a l1 b l2 : chain (a :: l1) -> below (last l1 a) b -> chain (b :: l2) -> chain (a :: l1 ++ l2).
Proof.
  revert a. induction l1 as [|h t IH]; intros a H1 H2 H3.
  - cbn in *. destruct l2 as [|h2 t2]; [exact I|]. destruct H3 as [H3 H4]. split; [eapply below_trans; eauto|exact H4].
  - destruct H1 as [H1 H1']. cbn [app]. split; [exact H1|]. apply IH; auto. rewrite <- (last_cons h t a). exact H2.
Qed.
Lemma last_app_default (l1 l2 : list float) a : last (l1 ++ l2) a = last l2 (last l1 a).
Proof.
  revert a. induction l1 as [|h t IH]; intros a; [reflexivity|].
  cbn [app]. rewrite !last_cons. apply IH.
Qed.

Lemma chain_last a l : chain (a :: l) -> below a (last l a).
Proof.
  revert a. induction l as [|h t IH]; intros a H; [apply below_refl|].
  destruct H as [H1 H2]. rewrite last_cons. eapply below_trans; [exact H1|apply IH; exact H2].
Qed.

(* objective values carried by the callback states of a trace *)
Definition snaps (tr : list ev) : list float := flat_map (fun e => match e with EvCb s _ => [r_fun s] | _ => [] end) tr.
Lemma snaps_app a b : snaps (a ++ b) = snaps a ++ snaps b.
Proof. unfold snaps. apply flat_map_app. Qed.
Lemma snaps_lift t : snaps (map sfev t) = [].
Proof. induction t as [|e t IH]; [reflexivity|]. destruct e; cbn; exact IH. Qed.

Section Values.
  Variable U : user.
  Variable K : kern.
  Variable c : cfg.
  (* the user's functions do not distinguish points that np.array_equal identifies (+0.0 / -0.0) *)
  Hypothesis user_respects_array_equal : forall p q, veqb p q = true ->
    uf U p = uf U q /\ ug U p = ug U q /\ fd_stencil U p = fd_stencil U q /\ fd_est U p = fd_est U q.
  Hypothesis no_update_function : u_upd U = None.

  Notation sfst := (SF.st vec float vec float).
  Notation scale := (SF.scale vec float vec float).
  Notation InvS := (Inv vec float vec float (uf U) (ug U) (fd_stencil U) (fd_est U) (fdmode U)).
  (* the fresh gradient at p: the user's gradient or the finite-difference estimate from fresh values *)
  Notation gradof := (grad_of vec float vec (uf U) (ug U) (fd_stencil U) (fd_est U) (fdmode U)).

  (* value f and gradient g are those of point x under scaling factor sg *)
  Definition coh (sg : float) (x : vec) (f : float) (g : vec) : Prop :=
    exists fv gv, uf U x = Ok fv /\ gradof x = Ok gv /\ f = mul fv sg /\ g = vscale gv sg.

  Definition ev_coh (sg : float) (e : ev) : Prop :=
    match e with EvCb s _ => coh sg (r_x s) (r_fun s) (r_jac s) | _ => True end.
  Lemma ev_coh_lift sg t : Forall (ev_coh sg) (map sfev t).
  Proof. induction t as [|e t IH]; constructor; auto. destruct e; exact I. Qed.

  Lemma val_sf_fun p t : InvS t -> hoareT (sf_fun U p t) (fun r tr =>
    InvS (snd r) /\ scale (snd r) = scale t /\ (exists fv, uf U p = Ok fv /\ fst r = mul fv (scale t)) /\ snaps tr = [] /\ Forall (ev_coh (scale t)) tr).
  Proof.
    intros HI [v t1] tr H. unfold sf_fun in H. apply lift_inv in H as (tr' & H & ->).
    destruct (sf_fun_spec vec float vec float veqb mul (uf U) (ug U) (fd_stencil U) (fd_est U) (fdmode U) user_respects_array_equal _ _ _ _ _ HI H) as (I1 & V & S1 & _).
    cbn. split; [exact I1|]. split; [exact S1|]. split; [exact V|]. split; [apply snaps_lift|apply ev_coh_lift].
  Qed.
  Lemma val_sf_grad p t : InvS t -> hoareT (sf_grad U p t) (fun r tr =>
    InvS (snd r) /\ scale (snd r) = scale t /\ (exists gv, gradof p = Ok gv /\ fst r = vscale gv (scale t)) /\ snaps tr = [] /\ Forall (ev_coh (scale t)) tr).
  Proof.
    intros HI [g t1] tr H. unfold sf_grad in H. apply lift_inv in H as (tr' & H & ->).
    destruct (sf_grad_spec vec float vec float veqb vscale (uf U) (ug U) (fd_stencil U) (fd_est U) (fdmode U) user_respects_array_equal _ _ _ _ _ HI H) as (I1 & V & S1 & _).
    cbn. split; [exact I1|]. split; [exact S1|]. split; [exact V|]. split; [apply snaps_lift|apply ev_coh_lift].
  Qed.
  Lemma val_sf_fun_and_grad p t : InvS t -> hoareT (sf_fun_and_grad U p t) (fun r tr =>
    InvS (snd r) /\ scale (snd r) = scale t /\ coh (scale t) p (fst (fst r)) (snd (fst r)) /\ snaps tr = [] /\ Forall (ev_coh (scale t)) tr).
  Proof.
    intros HI [[v g] t1] tr H. unfold sf_fun_and_grad in H. apply lift_inv in H as (tr' & H & ->).
    destruct (sf_fun_and_grad_spec vec float vec float veqb mul vscale (uf U) (ug U) (fd_stencil U) (fd_est U) (fdmode U) user_respects_array_equal _ _ _ _ _ _ HI H) as (I1 & (fv & gv & V1 & V2 & V3 & V4) & S1 & _).
    cbn. split; [exact I1|]. split; [exact S1|]. split; [exists fv, gv; auto|]. split; [apply snaps_lift|apply ev_coh_lift].
  Qed.

  (* ---------------------------------------------------------------- line search *)
  Section LS.
    Variables (xk d : vec) (f0 sg : float).
    Definition trial (stp : float) : vec := vclip (vaxpy xk stp d) (lb c) (ub c).
    (* the recorded best trial is a trial of this call, strictly below the starting value *)
    Definition best_ok (s : lss) : Prop :=
      (l_best s = None /\ l_bestf s = f0) \/
      (exists stp fv, l_best s = Some stp /\ uf U (trial stp) = Ok fv /\ l_bestf s = mul fv sg /\ ltb (l_bestf s) f0 = true).
    Definition ls_inv (s : lss) : Prop := InvS (l_sf s) /\ scale (l_sf s) = sg /\ best_ok s.

    Lemma val_ls_loop n par s : ls_inv s ->
      hoareT (ls_loop U K c n xk d par s) (fun s' tr => ls_inv s' /\ snaps tr = [] /\ Forall (ev_coh sg) tr).
    Proof.
      revert s. induction n as [|k IH]; intros s (I0 & S0 & B0); cbn [ls_loop].
      - apply hoareT_ret. split; [split; [exact I0|split; [exact S0|exact B0]]|split; [reflexivity|constructor]].
      - destruct (dcs K par _) as [stp tk].
        destruct tk; try (apply hoareT_ret; split; [split; [exact I0|split; [exact S0|exact B0]]|split; [reflexivity|constructor]]).
        eapply hoareT_bind; [apply val_sf_fun_and_grad; exact I0|]. intros [[f g] t1] tr1 (I1 & S1 & (fv & gv & V1 & V2 & V3 & V4) & N1 & C1).
        cbn in I1, S1, V3, V4. rewrite S0 in *.
        eapply hoareT_weaken; [apply IH|].
        + unfold ls_inv. cbn [l_sf l_best l_bestf]. split; [exact I1|]. split; [exact S1|]. unfold best_ok. cbn [l_best l_bestf].
          destruct (ltb f (l_bestf s)) eqn:Eb; [|exact B0].
          right. exists stp, fv. split; [reflexivity|]. split; [exact V1|]. split; [exact V3|].
          destruct B0 as [[_ B0]|(s0 & f1 & _ & _ & _ & B0)]; [rewrite <- B0; exact Eb|eapply ltb_trans; eauto].
        + cbn. intros s' tr2 (L2 & N2 & C2). split; [exact L2|]. rewrite snaps_app, N1, N2. split; [reflexivity|apply Forall_app; auto].
    Qed.
  End LS.

  Lemma val_line_search xk f0 g0 d nit cap t : InvS t ->
    hoareT (line_search U K c xk f0 g0 d nit cap t) (fun r tr =>
      InvS (snd r) /\ scale (snd r) = scale t /\ snaps tr = [] /\ Forall (ev_coh (scale t)) tr /\
      forall a, fst r = Some a -> exists fv, uf U (trial xk d a) = Ok fv /\ ltb (mul fv (scale t)) f0 = true).
  Proof.
    intros HI. unfold line_search.
    eapply hoareT_bind.
    { apply (val_ls_loop xk d f0 (scale t)). split; [exact HI|]. split; [reflexivity|]. left. split; reflexivity. }
    intros s tr1 ((I1 & S1 & B1) & N1 & C1).
    assert (Hbest : forall a, l_best s = Some a -> exists fv, uf U (trial xk d a) = Ok fv /\ ltb (mul fv (scale t)) f0 = true).
    { intros a Ha. destruct B1 as [[B1 _]|(stp & fv & B1 & B2 & B3 & B4)]; [congruence|]. exists fv. rewrite Ha in B1. inversion B1; subst. rewrite <- B3. auto. }
    assert (Hnone : forall a : float, @None float = Some a -> exists fv, uf U (trial xk d a) = Ok fv /\ ltb (mul fv (scale t)) f0 = true) by (intros; discriminate).
    assert (Hgo : forall o, (forall a, o = Some a -> exists fv, uf U (trial xk d a) = Ok fv /\ ltb (mul fv (scale t)) f0 = true) ->
              hoareT (ret (o, l_sf s)) (fun r tr2 => InvS (snd r) /\ scale (snd r) = scale t /\ snaps (tr1 ++ tr2) = [] /\ Forall (ev_coh (scale t)) (tr1 ++ tr2) /\
                forall a, fst r = Some a -> exists fv, uf U (trial xk d a) = Ok fv /\ ltb (mul fv (scale t)) f0 = true)).
    { intros o Ho. apply hoareT_ret. rewrite app_nil_r. cbn. split; [exact I1|]. split; [exact S1|]. split; [exact N1|]. split; [exact C1|exact Ho]. }
    destruct (negb _ || _); [apply Hgo; exact Hnone|].
    destruct (l_task s); apply Hgo; auto.
  Qed.

  (* ---------------------------------------------------------------- the loop *)
  Definition VI (sg : float) (s : lst) : Prop := InvS (s_sf s) /\ scale (s_sf s) = sg /\ coh sg (s_x s) (s_f s) (s_g s).

  Lemma val_accept_step ft s a d t1 sg : InvS t1 -> scale t1 = sg ->
    (exists fv, uf U (trial (s_x s) d a) = Ok fv /\ ltb (mul fv sg) (s_f s) = true) ->
    hoareT (accept_step U K c ft s a d t1) (fun r tr =>
      VI sg (snd r) /\ Forall (ev_coh sg) tr /\ ltb (s_f (snd r)) (s_f s) = true /\ (snaps tr = [] \/ snaps tr = [s_f (snd r)])).
  Proof.
    intros I1 S1 (fv & V & Hlt). unfold accept_step. rewrite no_update_function.
    eapply hoareT_bind; [apply val_sf_fun_and_grad; exact I1|]. intros [[f0 g] t2] tr1 (I2 & S2 & Hc & N1 & C1). cbn in I2, S2, Hc.
    rewrite S1 in *.
    assert (Hf : ltb f0 (s_f s) = true).
    { destruct Hc as (fv' & gv' & V1 & _ & V3 & _). unfold trial in V. rewrite V in V1. inversion V1; subst. exact Hlt. }
    assert (Hfin : forall (cont : bool) s1 tr, s_x s1 = trial (s_x s) d a -> s_f s1 = f0 -> s_g s1 = g -> s_sf s1 = t2 ->
              Forall (ev_coh sg) tr -> (snaps tr = [] \/ snaps tr = [f0]) ->
              VI sg (snd (cont, s1)) /\ Forall (ev_coh sg) tr /\ ltb (s_f (snd (cont, s1))) (s_f s) = true /\
              (snaps tr = [] \/ snaps tr = [s_f (snd (cont, s1))])).
    { intros cont s1 tr E1 E2 E3 E4 HF HS. cbn [snd]. unfold VI. rewrite E1, E2, E3, E4.
      split; [split; [exact I2|split; [exact S2|exact Hc]]|]. split; [exact HF|]. split; [exact Hf|exact HS]. }
    rewrite bind_ret_l.
    destruct (is_f0_target_reached _ _).
    { apply hoareT_ret. rewrite app_nil_r. apply Hfin; try reflexivity; auto. }
    destruct (is_f0_min_change_reached _ _ _).
    { apply hoareT_ret. rewrite app_nil_r. apply Hfin; try reflexivity; auto. }
    destruct (update_mem_f K c _ _ _ _ _ _) as [[X2 G3] m2].
    destruct (u_cb U) as [cb|].
    - eapply hoareT_bind with (R1 := fun b tr => exists snap, tr = [EvCb snap (cb snap)] /\ r_x snap = trial (s_x s) d a /\ r_fun snap = f0 /\ r_jac snap = g).
      { apply hoareT_call. intros b Hb. eexists. split; [reflexivity|]. cbn. auto. }
      intros b tr3 (snap & -> & X1 & X2' & X3).
      assert (C3 : Forall (ev_coh sg) (tr1 ++ [EvCb snap (cb snap)] ++ [])).
      { apply Forall_app. split; [exact C1|]. constructor; [|constructor]. cbn. rewrite X1, X2', X3. exact Hc. }
      assert (N3 : snaps (tr1 ++ [EvCb snap (cb snap)] ++ []) = [f0]).
      { rewrite snaps_app, N1. cbn. rewrite X2'. reflexivity. }
      destruct b; apply hoareT_ret; apply Hfin; try reflexivity; auto.
    - apply hoareT_ret. rewrite app_nil_r. apply Hfin; try reflexivity; auto.
  Qed.

  Lemma val_body ft s sg : VI sg s ->
    hoareT (body U K c ft s) (fun r tr =>
      VI sg (snd r) /\ Forall (ev_coh sg) tr /\
      ((s_f (snd r) = s_f s /\ snaps tr = []) \/ (ltb (s_f (snd r)) (s_f s) = true /\ (snaps tr = [] \/ snaps tr = [s_f (snd r)])))).
  Proof.
    intros (I0 & S0 & C0). unfold body.
    eapply hoareT_bind; [apply val_line_search; exact I0|]. intros [stp t1] tr1 (I1 & S1 & N1 & C1 & Hs). cbn in I1, S1, Hs.
    rewrite S0 in *.
    destruct stp as [a|].
    - eapply hoareT_weaken; [apply val_accept_step; eauto|].
      cbn. intros [cont s1] tr2 (V2 & C2 & L2 & N2). cbn in *. split; [exact V2|]. split; [apply Forall_app; auto|].
      right. split; [exact L2|]. rewrite snaps_app, N1. exact N2.
    - apply hoareT_ret. rewrite app_nil_r. unfold fail_step. destruct (_ =? _)%nat; cbn [snd s_f s_sf s_x s_g]; unfold VI; cbn [s_f s_sf s_x s_g];
        (split; [split; [exact I1|split; [exact S1|exact C0]]|]); (split; [exact C1|]); left; auto.
  Qed.

  Lemma val_loop fuel ft gt s sg : VI sg s ->
    hoareT (loop U K c fuel ft gt s) (fun s' tr =>
      VI sg s' /\ Forall (ev_coh sg) tr /\ chain (s_f s :: snaps tr) /\ below (last (snaps tr) (s_f s)) (s_f s')).
  Proof.
    revert s. induction fuel as [|k IH]; intros s HV; cbn [loop]; destruct (guard c gt s).
    - apply hoareT_fuel.
    - apply hoareT_ret. cbn [snaps flat_map last]. split; [exact HV|]. split; [constructor|]. split; [exact I|apply below_refl].
    - eapply hoareT_bind; [apply val_body; exact HV|]. intros [cont s1] tr1 (V1 & C1 & D1). cbn in V1, D1.
      assert (Hstep : chain (s_f s :: snaps tr1) /\ below (last (snaps tr1) (s_f s)) (s_f s1)).
      { destruct D1 as [[E N]|[L [N|N]]]; rewrite N; cbn.
        - split; [exact I|]. rewrite E. apply below_refl.
        - split; [exact I|]. right. exact L.
        - split; [split; [right; exact L|exact I]|apply below_refl]. }
      destruct Hstep as [Hc Hb].
      destruct cont.
      + eapply hoareT_weaken; [apply IH; exact V1|]. cbn. intros s' tr2 (V2 & C2 & Ch2 & B2).
        split; [exact V2|]. split; [apply Forall_app; auto|]. rewrite snaps_app. split.
        * eapply chain_app; eauto.
        * rewrite last_app_default. destruct (snaps tr2) as [|h t] eqn:E2.
          -- cbn in *. eapply below_trans; eauto.
          -- rewrite (last_default_irrelevant h t _ (s_f s1)). exact B2.
      + apply hoareT_ret. rewrite app_nil_r. split; [exact V1|]. split; [exact C1|]. split; [exact Hc|exact Hb].
    - apply hoareT_ret. cbn [snaps flat_map last]. split; [exact HV|]. split; [constructor|]. split; [exact I|apply below_refl].
  Qed.
End Values.
