(* BenchProofs.v -- hand-written.
   For each benchmark pair (f, f_grad) of Bench.v (generated from
   lbfgsb/benchmarks.py), for EVERY length of x:
     length (f_grad x) = length x
     forall i < length x, dom_f x ->
       is_derive (fun t => f (upd x i t)) (nth i x 0) (nth i (f_grad x) 0).
   Proof scheme: (1) the translated vector expression under each sum/product
   is shown, coordinate-wise ([vext]), to be [map h x] / [map2 g w x] /
   [map2 phi (removelast x) (tl x)] for an explicit scalar kernel; (2) the
   generic lemma of BenchLib gives the derivative of the sum/product;
   (3) [auto_derive] composes with the scalar outer function; (4) the i-th
   coordinate of the translated gradient is computed with [vnth] and the two
   values are identified by [ring]/[field]. *)
From Coq Require Import Reals Lra Lia List.
From Coquelicot Require Import Coquelicot.
From LBFGSB Require Import Model.BenchLib Generated.Bench.
Import ListNotations.
Open Scope R_scope.

(* the statement proved for every pair *)
Definition grad_correct (dom : list R -> Prop) (f : list R -> R)
           (g : list R -> list R) : Prop :=
  forall x : list R,
    length (g x) = length x /\
    forall i : nat, (i < length x)%nat -> dom x ->
      is_derive (fun t : R => f (upd x i t)) (nth i x 0) (nth i (g x) 0).

(* ================================================================== *)
(** * sphere *)

Definition dom_sphere (x : list R) : Prop := True.

Lemma sphere_grad_length x : length (sphere_grad x) = length x.
Proof. unfold sphere_grad. vlen. Qed.

Lemma sphere_derive x i : (i < length x)%nat ->
  is_derive (fun t => sphere (upd x i t)) (nth i x 0) (nth i (sphere_grad x) 0).
Proof.
  intros Hi. unfold sphere, sphere_grad. vnth.
  apply sep_sum_derive; [exact Hi|].
  unfold Rsqr. auto_derive; [exact I | ring].
Qed.

Theorem sphere_grad_correct : grad_correct dom_sphere sphere sphere_grad.
Proof.
  intros x; split; [apply sphere_grad_length | intros i Hi _; now apply sphere_derive].
Qed.

(* ================================================================== *)
(** * quartic :  sum_j j * x_j^4  (index weights j = 1..n) *)

Definition dom_quartic (x : list R) : Prop := True.

Definition quartic_g (a u : R) : R := a * u ^ 4.

Lemma quartic_canon x :
  quartic x = vsum (map2 quartic_g (arange (length x)) x).
Proof.
  unfold quartic; cbv zeta. f_equal.
  vext j Hj. reflexivity.
Qed.

Lemma quartic_grad_length x : length (quartic_grad x) = length x.
Proof. unfold quartic_grad; cbv zeta. vlen. Qed.

Lemma quartic_derive x i : (i < length x)%nat ->
  is_derive (fun t => quartic (upd x i t)) (nth i x 0) (nth i (quartic_grad x) 0).
Proof.
  intros Hi. unfold quartic_grad; cbv zeta. vnth.
  eapply is_derive_ext.
  { intros t. symmetry. rewrite quartic_canon, upd_length. reflexivity. }
  apply wsep_sum_derive; [exact Hi | vlen |].
  unfold quartic_g. auto_derive; [exact I | ring].
Qed.

Theorem quartic_grad_correct : grad_correct dom_quartic quartic quartic_grad.
Proof.
  intros x; split; [apply quartic_grad_length | intros i Hi _; now apply quartic_derive].
Qed.

(* ================================================================== *)
(** * rastrigin *)

Definition dom_rastrigin (x : list R) : Prop := True.

Definition rastrigin_h (u : R) : R := u * u - 10 * cos (2 * PI * u).

Lemma rastrigin_canon x :
  rastrigin x = 10 * INR (length x) + vsum (map rastrigin_h x).
Proof.
  unfold rastrigin; cbv zeta. do 2 f_equal.
  vext j Hj. unfold rastrigin_h, Rsqr. ring.
Qed.

Lemma rastrigin_grad_length x : length (rastrigin_grad x) = length x.
Proof. unfold rastrigin_grad. vlen. Qed.

Lemma rastrigin_derive x i : (i < length x)%nat ->
  is_derive (fun t => rastrigin (upd x i t)) (nth i x 0) (nth i (rastrigin_grad x) 0).
Proof.
  intros Hi. unfold rastrigin_grad. vnth.
  pose (S := fun t : R => vsum (map rastrigin_h (upd x i t))).
  assert (HS : is_derive S (nth i x 0)
                 (2 * nth i x 0 + 20 * PI * sin (2 * PI * nth i x 0))).
  { apply sep_sum_derive; [exact Hi|].
    unfold rastrigin_h. auto_derive; [exact I | ring]. }
  eapply is_derive_ext.
  { intros t. symmetry. rewrite rastrigin_canon, upd_length.
    change (vsum (map rastrigin_h (upd x i t))) with (S t). reflexivity. }
  clearbody S.
  auto_derive; [derive_ex HS | derive_subst HS; ring].
Qed.

Theorem rastrigin_grad_correct : grad_correct dom_rastrigin rastrigin rastrigin_grad.
Proof.
  intros x; split; [apply rastrigin_grad_length | intros i Hi _; now apply rastrigin_derive].
Qed.

(* ================================================================== *)
(** * styblinski_tang *)

Definition dom_styblinski_tang (x : list R) : Prop := True.

Definition styblinski_tang_h (u : R) : R := u ^ 4 - 16 * (u * u) + 5 * u.

Lemma styblinski_tang_canon x :
  styblinski_tang x
  = 1 / 2 * vsum (map styblinski_tang_h x)
    + 3916599 / 100000 * INR (length x).
Proof.
  unfold styblinski_tang; cbv zeta. do 3 f_equal.
  vext j Hj. unfold styblinski_tang_h, Rsqr. ring.
Qed.

Lemma styblinski_tang_grad_length x : length (styblinski_tang_grad x) = length x.
Proof. unfold styblinski_tang_grad. vlen. Qed.

Lemma styblinski_tang_derive x i : (i < length x)%nat ->
  is_derive (fun t => styblinski_tang (upd x i t)) (nth i x 0)
            (nth i (styblinski_tang_grad x) 0).
Proof.
  intros Hi. unfold styblinski_tang_grad. vnth.
  pose (S := fun t : R => vsum (map styblinski_tang_h (upd x i t))).
  assert (HS : is_derive S (nth i x 0)
                 (4 * nth i x 0 ^ 3 - 32 * nth i x 0 + 5)).
  { apply sep_sum_derive; [exact Hi|].
    unfold styblinski_tang_h. auto_derive; [exact I | ring]. }
  eapply is_derive_ext.
  { intros t. symmetry. rewrite styblinski_tang_canon, upd_length.
    change (vsum (map styblinski_tang_h (upd x i t))) with (S t). reflexivity. }
  clearbody S.
  auto_derive; [derive_ex HS | derive_subst HS; field].
Qed.

Theorem styblinski_tang_grad_correct :
  grad_correct dom_styblinski_tang styblinski_tang styblinski_tang_grad.
Proof.
  intros x; split;
    [apply styblinski_tang_grad_length | intros i Hi _; now apply styblinski_tang_derive].
Qed.

(* ================================================================== *)
(** * rosenbrock :  100 * sum_j (x_{j+1} - x_j^2)^2 + sum_j (1 - x_j)^2,
      j = 0..n-2.  For n < 2 both sums are empty: the function is the
      constant 0 and the gradient code returns zeros(n). *)

Definition dom_rosenbrock (x : list R) : Prop := True.

Definition rosen_A (a b : R) : R := (b - a ^ 2) ^ 2.
Definition rosen_A1 (a b : R) : R := - 4 * a * (b - a ^ 2).
Definition rosen_A2 (a b : R) : R := 2 * (b - a ^ 2).
Definition rosen_B (a b : R) : R := (1 - a) * (1 - a).
Definition rosen_B1 (a b : R) : R := - 2 * (1 - a).
Definition rosen_B2 (a b : R) : R := 0.

Lemma rosenbrock_canon x :
  rosenbrock x = 100 * vsum (map2 rosen_A (removelast x) (tl x))
                 + vsum (map2 rosen_B (removelast x) (tl x)).
Proof.
  unfold rosenbrock; cbv zeta. f_equal; [f_equal|]; f_equal.
  - vext j Hj. unfold rosen_A. ring.
  - vext j Hj. unfold rosen_B, Rsqr. ring.
Qed.

Lemma rosenbrock_grad_length x : length (rosenbrock_grad x) = length x.
Proof. unfold rosenbrock_grad; cbv zeta. vlen. Qed.

Lemma rosenbrock_short x : (length x < 2)%nat ->
  rosenbrock x = 0 /\ rosenbrock_grad x = zeros (length x).
Proof.
  destruct x as [|a [|b xs]]; simpl; intros H; try lia.
  - split; [unfold rosenbrock; simpl; ring | reflexivity].
  - split; [unfold rosenbrock; simpl; ring |].
    unfold rosenbrock_grad, acc_init, acc_tail, zeros; simpl. f_equal. ring.
Qed.

Lemma rosenbrock_derive x i : (i < length x)%nat ->
  is_derive (fun t => rosenbrock (upd x i t)) (nth i x 0) (nth i (rosenbrock_grad x) 0).
Proof.
  intros Hi.
  pose (S1 := fun t : R => vsum (map2 rosen_A (removelast (upd x i t)) (tl (upd x i t)))).
  pose (S2 := fun t : R => vsum (map2 rosen_B (removelast (upd x i t)) (tl (upd x i t)))).
  assert (HS1 := chain_sum_derive rosen_A rosen_A1 rosen_A2).
  assert (HS2 := chain_sum_derive rosen_B rosen_B1 rosen_B2).
  specialize (HS1 ltac:(intros a b; unfold rosen_A, rosen_A1; auto_derive; [exact I | ring])
                  ltac:(intros a b; unfold rosen_A, rosen_A2; auto_derive; [exact I | ring])
                  x i Hi).
  specialize (HS2 ltac:(intros a b; unfold rosen_B, rosen_B1; auto_derive; [exact I | ring])
                  ltac:(intros a b; unfold rosen_B, rosen_B2; auto_derive; [exact I | ring])
                  x i Hi).
  pose proof (HS1 : is_derive S1 _ _) as HS1'. pose proof (HS2 : is_derive S2 _ _) as HS2'.
  clear HS1 HS2.
  eapply is_derive_ext.
  { intros t. symmetry. rewrite rosenbrock_canon.
    change (vsum (map2 rosen_A (removelast (upd x i t)) (tl (upd x i t)))) with (S1 t).
    change (vsum (map2 rosen_B (removelast (upd x i t)) (tl (upd x i t)))) with (S2 t).
    reflexivity. }
  clearbody S1 S2.
  auto_derive; [repeat split; [derive_ex HS1' | derive_ex HS2'] | ].
  derive_subst HS1'. derive_subst HS2'.
  unfold rosenbrock_grad; cbv zeta.
  destruct (lt_dec i (length x - 1)) as [Hin|Hout]; destruct i as [|k]; vnth;
    unfold rosen_A1, rosen_A2, rosen_B1, rosen_B2; ring.
Qed.

Theorem rosenbrock_grad_correct : grad_correct dom_rosenbrock rosenbrock rosenbrock_grad.
Proof.
  intros x; split; [apply rosenbrock_grad_length | intros i Hi _; now apply rosenbrock_derive].
Qed.

(* ================================================================== *)
(** * beale (chained, n-dimensional variant):
      sum_j  (1.5 - a + a b)^2 + (2.25 - a + a b^2)^2 + (2.625 - a + a b^3)^2
      with a = x_j, b = x_{j+1}, j = 0..n-2.  For n < 2 the sum is empty. *)

Definition dom_beale (x : list R) : Prop := True.

Definition beale_f1 (a b : R) : R := 3 / 2 - a + a * b.
Definition beale_f2 (a b : R) : R := 9 / 4 - a + a * b ^ 2.
Definition beale_f3 (a b : R) : R := 21 / 8 - a + a * b ^ 3.
Definition beale_phi (a b : R) : R :=
  beale_f1 a b ^ 2 + beale_f2 a b ^ 2 + beale_f3 a b ^ 2.
Definition beale_phi1 (a b : R) : R :=
  2 * (b - 1) * beale_f1 a b + 2 * (b ^ 2 - 1) * beale_f2 a b
  + 2 * (b ^ 3 - 1) * beale_f3 a b.
Definition beale_phi2 (a b : R) : R :=
  2 * a * beale_f1 a b + 4 * a * b * beale_f2 a b + 6 * a * b ^ 2 * beale_f3 a b.

Lemma beale_canon x :
  beale x = vsum (map2 beale_phi (removelast x) (tl x)).
Proof.
  unfold beale. f_equal.
  vext j Hj. unfold beale_phi, beale_f1, beale_f2, beale_f3. ring.
Qed.

Lemma beale_grad_length x : length (beale_grad x) = length x.
Proof. unfold beale_grad; cbv zeta. vlen. Qed.

Lemma beale_short x : (length x < 2)%nat ->
  beale x = 0 /\ beale_grad x = zeros (length x).
Proof.
  destruct x as [|a [|b xs]]; simpl; intros H; try lia.
  - split; reflexivity.
  - split; [reflexivity|].
    unfold beale_grad, acc_init, acc_tail, zeros; simpl. f_equal. ring.
Qed.

Lemma beale_derive x i : (i < length x)%nat ->
  is_derive (fun t => beale (upd x i t)) (nth i x 0) (nth i (beale_grad x) 0).
Proof.
  intros Hi.
  assert (HS := chain_sum_derive beale_phi beale_phi1 beale_phi2).
  specialize (HS ltac:(intros a b; unfold beale_phi, beale_phi1, beale_f1, beale_f2, beale_f3;
                       auto_derive; [exact I | ring])
                 ltac:(intros a b; unfold beale_phi, beale_phi2, beale_f1, beale_f2, beale_f3;
                       auto_derive; [exact I | ring])
                 x i Hi).
  eapply is_derive_ext.
  { intros t. symmetry. rewrite beale_canon. reflexivity. }
  evar_last; [exact HS|].
  unfold beale_grad; cbv zeta.
  destruct (lt_dec i (length x - 1)) as [Hin|Hout]; destruct i as [|k]; vnth;
    unfold beale_phi1, beale_phi2, beale_f1, beale_f2, beale_f3; ring.
Qed.

Theorem beale_grad_correct : grad_correct dom_beale beale beale_grad.
Proof.
  intros x; split; [apply beale_grad_length | intros i Hi _; now apply beale_derive].
Qed.

(* ================================================================== *)
(** * griewank :  1 + sum_j x_j^2 / 4000 - prod_j cos (x_j / sqrt (j+1)).
      The gradient code computes the partial derivative of the product as
      (full product) / cos (x_i / sqrt (i+1)): it divides by that cosine, so
      the domain excludes the points where one of these cosines vanishes. *)

Definition dom_griewank (x : list R) : Prop :=
  forall j : nat, (j < length x)%nat -> cos (nth j x 0 / sqrt (INR (S j))) <> 0.

Definition griewank_g (a u : R) : R := cos (u / sqrt a).

Lemma griewank_vec_canon x :
  map cos (map2 Rdiv x (map sqrt (arange (length x))))
  = map2 griewank_g (arange (length x)) x.
Proof. vext j Hj. reflexivity. Qed.

Lemma griewank_canon x :
  griewank x = 1 + vsum (map Rsqr x) / 4000
               - vprod (map2 griewank_g (arange (length x)) x).
Proof. unfold griewank; cbv zeta. now rewrite griewank_vec_canon. Qed.

Lemma griewank_grad_length x : length (griewank_grad x) = length x.
Proof. unfold griewank_grad; cbv zeta. vlen. Qed.

Lemma griewank_derive x i : (i < length x)%nat -> dom_griewank x ->
  is_derive (fun t => griewank (upd x i t)) (nth i x 0) (nth i (griewank_grad x) 0).
Proof.
  intros Hi Hdom.
  assert (Hw : nth i (arange (length x)) 0 = INR (S i)) by (apply nth_arange; exact Hi).
  assert (Hsq : sqrt (INR (S i)) <> 0).
  { apply Rgt_not_eq, sqrt_lt_R0, lt_0_INR. lia. }
  assert (Hc : griewank_g (INR (S i)) (nth i x 0) <> 0) by (apply Hdom; exact Hi).
  (* from here on the weight w_i = i+1 is opaque *)
  remember (INR (S i)) as wi eqn:Hwi. clear Hwi.
  pose (Ssq := fun t : R => vsum (map Rsqr (upd x i t))).
  pose (Pcos := fun t : R => vprod (map2 griewank_g (arange (length x)) (upd x i t))).
  assert (HS : is_derive Ssq (nth i x 0) (2 * nth i x 0)).
  { apply sep_sum_derive; [exact Hi|]. unfold Rsqr. auto_derive; [exact I | ring]. }
  assert (HP : is_derive Pcos (nth i x 0)
                 (- sin (nth i x 0 / sqrt wi) / sqrt wi
                  * (vprod (map2 griewank_g (arange (length x)) x)
                     / griewank_g wi (nth i x 0)))).
  { pose proof (wprod_derive griewank_g (arange (length x)) x i
                  (- sin (nth i x 0 / sqrt wi) / sqrt wi) Hi) as H.
    rewrite Hw in H. apply H.
    - vlen.
    - exact Hc.
    - unfold griewank_g. auto_derive; [exact I | unfold Rdiv; ring]. }
  eapply is_derive_ext.
  { intros t. symmetry. rewrite griewank_canon, upd_length.
    change (vsum (map Rsqr (upd x i t))) with (Ssq t).
    change (vprod (map2 griewank_g (arange (length x)) (upd x i t))) with (Pcos t).
    reflexivity. }
  clearbody Ssq Pcos.
  auto_derive; [repeat split; [derive_ex HS | derive_ex HP] | ].
  derive_subst HS. derive_subst HP.
  unfold griewank_grad; cbv zeta. rewrite griewank_vec_canon. vnth.
  rewrite !Hw. unfold griewank_g in *. field. split; [exact Hc | exact Hsq].
Qed.

Theorem griewank_grad_correct : grad_correct dom_griewank griewank griewank_grad.
Proof.
  intros x; split; [apply griewank_grad_length | intros i Hi Hd; now apply griewank_derive].
Qed.

(* ================================================================== *)
(** * ackley :
      20 + e - 20 exp (-0.2 sqrt (S/n)) - exp (C/n),
      S = sum_j x_j^2,  C = sum_j cos (2 pi x_j).
      The code divides by n and by S and takes sqrt (S/n): the domain is
      S <> 0 (which forces n >= 1).

      Remark on literals.  Float literals are read as the decimal rationals
      written in the source (0.2 = 1/5), so 20 * 0.2 = 4 and the gradient
      code's literal 4.0 is exact.  Under the binary64 reading of 0.2
      (= (2^54+1)/(5*2^54)) the identity 20 * 0.2 = 4 fails by 2^-52 and the
      first term of ackley_grad would be off by the relative amount 2^-54;
      that is an artefact of the reading, not of the formula. *)

Definition dom_ackley (x : list R) : Prop := vsum (map Rsqr x) <> 0.

Definition ackley_c02 : R := 1 / 5.   (* 0.2 *)
Definition ackley_e : R := 27182818284590451 / 10000000000000000.
Definition ackley_h (u : R) : R := cos (2 * PI * u).

Lemma ackley_vec_canon x :
  map cos (map (fun u_ => 2 * PI * u_) x) = map ackley_h x.
Proof. rewrite map_map. reflexivity. Qed.

Lemma ackley_canon x :
  ackley x = 20 + ackley_e
             - 20 * exp (- ackley_c02 * sqrt (1 / INR (length x) * vsum (map Rsqr x)))
             - exp (1 / INR (length x) * vsum (map ackley_h x)).
Proof.
  unfold ackley; cbv zeta. rewrite ackley_vec_canon. reflexivity.
Qed.

Lemma ackley_grad_length x : length (ackley_grad x) = length x.
Proof. unfold ackley_grad; cbv zeta. vlen. Qed.

Lemma ackley_derive x i : (i < length x)%nat -> dom_ackley x ->
  is_derive (fun t => ackley (upd x i t)) (nth i x 0) (nth i (ackley_grad x) 0).
Proof.
  intros Hi Hdom. unfold dom_ackley in Hdom.
  assert (HS0 : 0 < vsum (map Rsqr x)).
  { pose proof (vsum_sqr_nonneg x). lra. }
  assert (Hn : 0 < INR (length x)) by (apply lt_0_INR; lia).
  pose (Ssq := fun t : R => vsum (map Rsqr (upd x i t))).
  pose (Ccos := fun t : R => vsum (map ackley_h (upd x i t))).
  assert (HS : is_derive Ssq (nth i x 0) (2 * nth i x 0)).
  { apply sep_sum_derive; [exact Hi|]. unfold Rsqr. auto_derive; [exact I | ring]. }
  assert (HC : is_derive Ccos (nth i x 0) (- (2 * PI * sin (2 * PI * nth i x 0)))).
  { apply sep_sum_derive; [exact Hi|]. unfold ackley_h. auto_derive; [exact I | ring]. }
  assert (ES : Ssq (nth i x 0) = vsum (map Rsqr x)) by (unfold Ssq; now rewrite upd_same).
  assert (EC : Ccos (nth i x 0) = vsum (map ackley_h x)) by (unfold Ccos; now rewrite upd_same).
  eapply is_derive_ext.
  { intros t. symmetry. rewrite ackley_canon, upd_length.
    change (vsum (map Rsqr (upd x i t))) with (Ssq t).
    change (vsum (map ackley_h (upd x i t))) with (Ccos t).
    reflexivity. }
  clearbody Ssq Ccos.
  auto_derive.
  { rewrite ES. repeat split; [derive_ex HS | | derive_ex HC].
    apply Rmult_lt_0_compat; [apply Rdiv_lt_0_compat; lra | exact HS0]. }
  derive_subst HS. derive_subst HC. rewrite ES, EC.
  unfold ackley_grad; cbv zeta. rewrite ackley_vec_canon. vnth.
  fold ackley_c02.
  replace (1 / INR (length x) * vsum (map Rsqr x))
    with (vsum (map Rsqr x) / INR (length x)) by (field; lra).
  assert (Hq : 0 < vsum (map Rsqr x) / INR (length x)) by (apply Rdiv_lt_0_compat; lra).
  pose proof (sqrt_lt_R0 _ Hq) as Hs.
  pose proof (sqrt_sqrt _ (Rlt_le _ _ Hq)) as Hss.
  remember (sqrt (vsum (map Rsqr x) / INR (length x))) as s eqn:Es. clear Es.
  assert (ES0 : vsum (map Rsqr x) = INR (length x) * (s * s)).
  { rewrite Hss. field. lra. }
  rewrite ES0. clear ES0 Hss Hq ES HS0 Hdom.
  remember (INR (length x)) as nR eqn:EnR. clear EnR.
  (* the only place where the value of the literal 0.2 matters: 20 * 0.2 = 4 *)
  remember (exp (- ackley_c02 * s)) as E1 eqn:EE1. clear EE1.
  unfold ackley_c02. field. split; lra.
Qed.

Theorem ackley_grad_correct : grad_correct dom_ackley ackley ackley_grad.
Proof.
  intros x; split; [apply ackley_grad_length | intros i Hi Hd; now apply ackley_derive].
Qed.

(* ================================================================== *)
(** * Non-vacuity of the domain predicates *)

Lemma nonvacuous_separable :
  dom_sphere [1; 2] /\ dom_quartic [1; 2] /\ dom_rastrigin [1; 2]
  /\ dom_styblinski_tang [1; 2] /\ (1 < length [1; 2])%nat.
Proof. repeat split; simpl; lia. Qed.

Lemma nonvacuous_chained :
  dom_rosenbrock [1; 2; 3] /\ dom_beale [1; 2; 3] /\ (2 < length [1; 2; 3])%nat.
Proof. repeat split; simpl; lia. Qed.

Lemma nonvacuous_aggregate :
  dom_ackley [1; 0] /\ dom_griewank [0; 0] /\ (1 < length [1; 0])%nat.
Proof.
  split; [unfold dom_ackley, Rsqr; simpl; lra|]. split; [|simpl; lia].
  intros j Hj. simpl in Hj.
  assert (Hz : nth j [0; 0] 0 = 0) by (destruct j as [|[|j]]; [reflexivity | reflexivity | lia]).
  rewrite Hz. unfold Rdiv. rewrite Rmult_0_l, cos_0. lra.
Qed.
