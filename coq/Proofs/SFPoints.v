(* Where the wrapper calls the user's functions: every event of a request is at a point satisfying Q, provided
   the requested point, the cached point and (finite differences) the stencil of a Q-point satisfy Q.
   Used by C02 / C16 with Q = "inside the box". *)
From Coq Require Import List ZArith Bool.
From LBFGSB Require Import Base.Res Base.Hoare Model.SF.
Import ListNotations.
Open Scope Z_scope.

Section Points.
  Variables (P F G S : Type).
  Variable peqb : P -> P -> bool.
  Variable fmul : F -> S -> F.
  Variable gmul : G -> S -> G.
  Variable uf : P -> res F.
  Variable ug : P -> res G.
  Variable stencil : P -> list P.
  Variable fdest : P -> F -> list F -> res G.
  Variable fdmode : bool.
  Variable Q : P -> Prop.
  Hypothesis stencil_ok : forall p, Q p -> Forall Q (stencil p).

  Notation st := (SF.st P F G S).
  Notation ev := (SF.ev P F G).
  Definition ev_at (e : ev) : Prop := match e with EvF _ _ _ p _ => Q p | EvG _ _ _ p _ => Q p end.
  Definition stQ (t : st) : Prop := Q (sx _ _ _ _ t).

  Lemma update_x_pts p t : Q p -> stQ t -> stQ (SF.update_x P F G S peqb p t).
  Proof. unfold stQ, SF.update_x. intros. destruct (peqb p _); cbn; auto. Qed.

  Lemma update_fun_pts t : stQ t -> hoare ev_at (SF.update_fun P F G S uf t) (fun r => stQ (snd r) /\ sx _ _ _ _ (snd r) = sx _ _ _ _ t).
  Proof.
    intros HQ. unfold SF.update_fun. destruct (sf _ _ _ _ t).
    - apply hoare_ret. cbn. auto.
    - eapply hoare_bind with (R1 := fun _ => True).
      + unfold SF.call_f. apply hoare_call; [exact HQ|auto].
      + intros v _. apply hoare_ret. cbn. auto.
  Qed.

  Lemma eval_stencil_pts ps : Forall Q ps -> hoare ev_at (SF.eval_stencil P F G uf ps) (fun _ => True).
  Proof.
    induction ps as [|p r IH]; intros HQ; cbn [SF.eval_stencil].
    - apply hoare_ret. exact I.
    - inversion HQ; subst. eapply hoare_bind with (R1 := fun _ => True).
      + unfold SF.call_f. apply hoare_call; auto.
      + intros v _. eapply hoare_bind with (R1 := fun _ => True); [auto|]. intros vs _. apply hoare_ret. exact I.
  Qed.

  Lemma update_grad_pts t : stQ t ->
    hoare ev_at (SF.update_grad P F G S uf ug stencil fdest fdmode t) (fun r => stQ (snd r) /\ sx _ _ _ _ (snd r) = sx _ _ _ _ t).
  Proof.
    intros HQ. unfold SF.update_grad. destruct (sg _ _ _ _ t).
    - apply hoare_ret. cbn. auto.
    - destruct fdmode.
      + eapply hoare_bind; [apply update_fun_pts; exact HQ|]. intros [v t1] [H1 H2]. cbn in H1, H2.
        eapply hoare_bind with (R1 := fun _ => True).
        * apply eval_stencil_pts. apply stencil_ok. exact H1.
        * intros vs _. destruct (fdest _ v vs).
          -- apply hoare_ret. cbn. unfold stQ in *. cbn. rewrite H2 in *. auto.
          -- apply hoare_raise.
          -- apply hoare_fuel.
      + eapply hoare_bind with (R1 := fun _ => True).
        * unfold SF.call_g. apply hoare_call; [exact HQ|auto].
        * intros g _. apply hoare_ret. cbn. auto.
  Qed.

  Lemma sf_fun_pts p t : Q p -> stQ t -> hoare ev_at (SF.sf_fun P F G S peqb fmul uf p t) (fun r => stQ (snd r)).
  Proof.
    intros Hp Ht. unfold SF.sf_fun. eapply hoare_bind; [apply update_fun_pts, update_x_pts; auto|].
    intros [v t1] [H1 _]. apply hoare_ret. exact H1.
  Qed.

  Lemma sf_grad_pts p t : Q p -> stQ t ->
    hoare ev_at (SF.sf_grad P F G S peqb gmul uf ug stencil fdest fdmode p t) (fun r => stQ (snd r)).
  Proof.
    intros Hp Ht. unfold SF.sf_grad. eapply hoare_bind; [apply update_grad_pts, update_x_pts; auto|].
    intros [v t1] [H1 _]. apply hoare_ret. exact H1.
  Qed.

  Lemma sf_fun_and_grad_pts p t : Q p -> stQ t ->
    hoare ev_at (SF.sf_fun_and_grad P F G S peqb fmul gmul uf ug stencil fdest fdmode p t) (fun r => stQ (snd r)).
  Proof.
    intros Hp Ht. unfold SF.sf_fun_and_grad. eapply hoare_bind; [apply update_fun_pts, update_x_pts; auto|].
    intros [v t1] [H1 _]. eapply hoare_bind; [apply update_grad_pts; exact H1|].
    intros [g t2] [H2 _]. apply hoare_ret. exact H2.
  Qed.
End Points.
