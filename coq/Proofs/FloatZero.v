(* Signed zeros on primitive binary64 floats:
     - (+-0) * d is a signed zero for every finite d,
     - x + (+-0) compares equal to x for every non-NaN x (infinities included),
     - hence x + a * d == x when a == 0 and d is finite (the "axpy with a zero step" fact),
   plus three order facts on PF.eqb.
   Derived from the FloatAxioms specification through Flocq's IEEE754.PrimFloat bridge.
   No axioms besides those of the standard library / Flocq. *)
From Coq Require Import Reals ZArith Lra Lia Bool.
From Coq Require PrimFloat FloatAxioms.
From Flocq Require Import Core.Core IEEE754.BinarySingleNaN.
From Flocq Require IEEE754.PrimFloat.
From LBFGSB Require Import Base.FloatOrd.

Local Existing Instance FP.Hprec.
Local Existing Instance FP.Hmax.

(* ------------------------------------------------------------------------------------ *)
(* Order facts on eqb (key domain)                                                      *)
(* ------------------------------------------------------------------------------------ *)

Theorem eqb_trans : forall a b c : PF.float,
  PF.eqb a b = true -> PF.eqb b c = true -> PF.eqb a c = true.
Proof. key_tac. Qed.

Theorem eqb_refl_not_nan : forall a : PF.float, PF.is_nan a = false -> PF.eqb a a = true.
Proof. key_tac. Qed.

Theorem eqb_ltb_false : forall a b : PF.float, PF.eqb a b = true -> PF.ltb a b = false.
Proof. key_tac. Qed.

(* ------------------------------------------------------------------------------------ *)
(* Flocq level                                                                          *)
(* ------------------------------------------------------------------------------------ *)

(* comparing equal to +0 means being a signed zero *)
Lemma Beqb_zero_inv (z : bf) : Beqb z (B754_zero false) = true -> exists s, z = B754_zero s.
Proof.
  destruct z as [s|s| |s m e H]; intros Hz.
  - exists s; reflexivity.
  - destruct s; discriminate Hz.
  - discriminate Hz.
  - destruct s; discriminate Hz.
Qed.

Lemma Beqb_zero_zero (s : bool) : Beqb (B754_zero s : bf) (B754_zero false) = true.
Proof. reflexivity. Qed.

(* a signed zero times a finite number is a signed zero (no rounding involved) *)
Lemma Bmult_zero_finite (s : bool) (d : bf) :
  is_finite d = true -> exists s', Bmult mode_NE (B754_zero s) d = B754_zero s'.
Proof.
  destruct d as [sd|sd| |sd md ed Hd]; simpl; intros Hf; try discriminate Hf; eauto.
Qed.

(* adding a signed zero on the right: the result compares equal to the left operand *)
Lemma Bplus_zero_r (x : bf) (s : bool) :
  is_nan x = false -> Beqb (Bplus mode_NE x (B754_zero s)) x = true.
Proof.
  destruct x as [sx|sx| |sx mx ex Hx]; intros Hn; try discriminate Hn.
  - (* zero + zero: a signed zero, whichever the signs *)
    destruct sx, s; reflexivity.
  - (* infinity + zero = the infinity *)
    change (Bplus mode_NE (B754_infinity sx : bf) (B754_zero s)) with (B754_infinity sx : bf).
    rewrite Beqb_refl. reflexivity.
  - (* finite non-zero + zero = the same float, no rounding involved *)
    change (Bplus mode_NE (B754_finite sx mx ex Hx : bf) (B754_zero s))
      with (B754_finite sx mx ex Hx : bf).
    rewrite Beqb_refl. reflexivity.
Qed.

(* ------------------------------------------------------------------------------------ *)
(* Primitive floats                                                                     *)
(* ------------------------------------------------------------------------------------ *)

Lemma Prim2B_zero : FP.Prim2B PF.zero = B754_zero false.
Proof. rewrite FP.zero_equiv. apply FP.Prim2B_B2Prim. Qed.

Section Main.
(* the literal 0%float needs the PrimFloat notations; the import is local to this section *)
Import PF.

Definition is_finite (x : float) : bool := negb (is_nan x) && negb (is_infinity x).

Lemma is_finite_PF (x : float) : is_finite x = PF.is_finite x.
Proof. unfold is_finite, PF.is_finite. rewrite negb_orb. reflexivity. Qed.

Lemma is_finite_Prim2B (x : float) :
  is_finite x = BinarySingleNaN.is_finite (FP.Prim2B x).
Proof. rewrite is_finite_PF. apply FP.is_finite_equiv. Qed.

Lemma eqb_zero_inv (a : float) : eqb a 0 = true -> exists s, FP.Prim2B a = B754_zero s.
Proof.
  change 0%float with PF.zero. rewrite FP.eqb_equiv, Prim2B_zero. apply Beqb_zero_inv.
Qed.

Theorem mul_zero_finite : forall a d : float,
  eqb a 0 = true -> is_finite d = true -> eqb (mul a d) 0 = true.
Proof.
  intros a d Ha Hd.
  destruct (eqb_zero_inv a Ha) as [s Hs].
  rewrite is_finite_Prim2B in Hd.
  change 0%float with PF.zero.
  rewrite FP.eqb_equiv, Prim2B_zero, FP.mul_equiv, Hs.
  destruct (Bmult_zero_finite s _ Hd) as [s' ->].
  apply Beqb_zero_zero.
Qed.

Theorem add_zero_r_eqb : forall x z : float,
  eqb z 0 = true -> is_nan x = false -> eqb (add x z) x = true.
Proof.
  intros x z Hz Hx.
  destruct (eqb_zero_inv z Hz) as [s Hs].
  rewrite FP.is_nan_equiv in Hx.
  rewrite FP.eqb_equiv, FP.add_equiv, Hs.
  apply Bplus_zero_r. exact Hx.
Qed.

Corollary axpy_zero : forall x a d : float,
  eqb a 0 = true -> is_finite d = true -> is_nan x = false ->
  eqb (add x (mul a d)) x = true.
Proof.
  intros x a d Ha Hd Hx.
  apply add_zero_r_eqb; [ apply mul_zero_finite; assumption | exact Hx ].
Qed.

End Main.

Check mul_zero_finite.
Check add_zero_r_eqb.
Check axpy_zero.
Check eqb_trans.
Check eqb_refl_not_nan.
Check eqb_ltb_false.
Print is_finite.
Print Assumptions mul_zero_finite.
Print Assumptions add_zero_r_eqb.
Print Assumptions axpy_zero.
Print Assumptions eqb_trans.
Print Assumptions eqb_refl_not_nan.
Print Assumptions eqb_ltb_false.
