(* The search point of the driver model when its Cauchy + subspace kernel is the composition of the binary64 kernel models
   (Model/DriverKern.v): for ANY linear-algebra answers, any memory, any iteration, the point x_bar handed to the line search
   (d = x_bar - x) lies in the box under exact binary64 comparisons and has the dimension of x. *)
From Coq Require Import List ZArith Bool Lia Floats.PrimFloat.
From LBFGSB Require Import Base.FloatOrd Model.FloatVec Model.Driver Model.FCauchy Model.FSubspace Model.DriverKern
  Proofs.DriverBox Proofs.FCauchyProofs Proofs.FSubspaceProofs.
Import ListNotations.

Section Kern.
  Variable B : blas.
  Variable vdot : vec -> vec -> float.
  Variable c : cfg.

  Theorem search_model_inbox x g m nit : wfb (lb c) (ub c) -> inbox x (lb c) (ub c) ->
    inbox (search_model B vdot c x g m nit) (lb c) (ub c).
  Proof.
    intros Hw Hx. unfold search_model. destruct (mats_params vdot (length x) m) as [[theta W] uf].
    pose proof (fgcp_pair_feasible (b_gcp B nit) x g (lb c) (ub c) theta W uf Hw Hx) as H1.
    destruct (fgcp (b_gcp B nit) x g (lb c) (ub c) theta W uf) as [xcp cc]. cbn [fst] in H1.
    apply fsub_feasible; assumption.
  Qed.

  Theorem search_model_length x g m nit : length (lb c) = length x -> length (ub c) = length x ->
    length (search_model B vdot c x g m nit) = length x.
  Proof.
    intros Ll Lu. unfold search_model. destruct (mats_params vdot (length x) m) as [[theta W] uf].
    pose proof (fgcp_pair_lengths (b_gcp B nit) x g (lb c) (ub c) theta W uf) as [H1 _].
    destruct (fgcp (b_gcp B nit) x g (lb c) (ub c) theta W uf) as [xcp cc]. cbn [fst] in H1.
    rewrite <- H1. apply fsub_length; rewrite H1; assumption.
  Qed.
End Kern.
