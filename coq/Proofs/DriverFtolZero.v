(* A run cannot end with the relative-reduction message when that test can only fire on an INCREASE of the objective
   (which is what ftol = 0 means for the strict test  (f_old - f) / max(|f_old|, |f|, 1) < ftol : Proofs/FtolZero.v):
   every accepted iterate is strictly below the previous one (C03), so the test never fires.  Used by C01: with ftol = 0 a
   run is limited only by the projected-gradient tolerance and the budgets. *)
From Coq Require Import List ZArith Bool String Lia Floats.PrimFloat.
From LBFGSB Require Import Base.Res Base.Hoare Base.FloatOrd Model.SF Model.FloatVec Model.Driver Generated.StopTests
  Proofs.SFProofs Proofs.DriverShape Proofs.DriverReport Proofs.DriverValues.
Import ListNotations.
Open Scope Z_scope.

Section FtolZero.
  Variable U : user.
  Variable K : kern.
  Variable c : cfg.
  Hypothesis user_respects_array_equal : forall p q, veqb p q = true ->
    uf U p = uf U q /\ ug U p = ug U q /\ fd_stencil U p = fd_stencil U q /\ fd_est U p = fd_est U q.
  Hypothesis no_update_function : u_upd U = None.
  Hypothesis no_checkpoint : checkpoint c = None.
  (* the stop test does not fire on a strict decrease *)
  Hypothesis test_silent_on_decrease : forall f fo, ltb f fo = true -> is_f0_min_change_reached f fo (ftol c) = false.

  Notation sfst := (SF.st vec float vec float).
  Notation scale := (SF.scale vec float vec float).
  Notation InvS := (Inv vec float vec float (uf U) (ug U) (fd_stencil U) (fd_est U) (fdmode U)).
  Notation VI := (VI U).

  (* messages that cannot be carried: the relative-reduction one; the callback one without a callback; the target one without a target *)
  Definition okmsg (ft : option float) (m : msg) : Prop :=
    m <> MFtol /\ (u_cb U = None -> m <> MCallback) /\ (ft = None -> m <> MTarget).
  Definition NF (ft : option float) (s : lst) : Prop := okmsg ft (s_msg s).
  Lemma okmsg_other ft m : m <> MFtol -> m <> MCallback -> m <> MTarget -> okmsg ft m.
  Proof. intros H1 H2 H3. split; [exact H1|split; intros _; assumption]. Qed.

  Lemma nf_accept_step ft s a d t1 sg : InvS t1 -> scale t1 = sg ->
    (exists fv, uf U (trial c (s_x s) d a) = Ok fv /\ ltb (mul fv sg) (s_f s) = true) -> NF ft s ->
    hoareT (accept_step U K c ft s a d t1) (fun r _ => NF ft (snd r)).
  Proof.
    intros I1 S1 (fv & V & Hlt) HN. unfold accept_step. rewrite no_update_function.
    eapply hoareT_bind; [apply (val_sf_fun_and_grad U user_respects_array_equal); exact I1|].
    intros [[f0 g] t2] tr1 (I2 & S2 & Hc & N1 & C1). cbn in I2, S2, Hc. rewrite S1 in *.
    assert (Hf : ltb f0 (s_f s) = true).
    { destruct Hc as (fv' & gv' & V1 & _ & V3 & _). unfold trial in V. rewrite V in V1. inversion V1; subst. exact Hlt. }
    rewrite bind_ret_l.
    destruct (is_f0_target_reached _ _) eqn:Et.
    { apply hoareT_ret. unfold NF, okmsg. cbn. split; [discriminate|]. split; [discriminate|]. intros ->. cbn in Et. discriminate. }
    rewrite (test_silent_on_decrease _ _ Hf).
    destruct (update_mem_f K c _ _ _ _ _ _) as [[X2 G3] m2].
    destruct (u_cb U) as [cb|] eqn:Ecb.
    - eapply hoareT_bind with (R1 := fun _ _ => True); [intros ? ? ?; exact I|].
      intros b tr3 _. destruct b; apply hoareT_ret; unfold NF; cbn; [|exact HN].
      split; [discriminate|]. split; [intros H; rewrite Ecb in H; discriminate H|intros _; discriminate].
    - apply hoareT_ret. unfold NF. cbn. exact HN.
  Qed.

  Lemma nf_body ft s sg : VI sg s -> NF ft s -> hoareT (body U K c ft s) (fun r _ => NF ft (snd r)).
  Proof.
    intros (I0 & S0 & C0) HN. unfold body.
    eapply hoareT_bind; [apply (val_line_search U K c user_respects_array_equal); exact I0|].
    intros [stp t1] tr1 (I1 & S1 & N1 & C1 & Hs). cbn in I1, S1, Hs. rewrite S0 in *.
    destruct stp as [a|].
    - eapply hoareT_weaken; [apply (nf_accept_step ft s a _ t1 sg); eauto|]. auto.
    - apply hoareT_ret. unfold fail_step, NF. destruct (_ =? _)%nat; cbn; apply okmsg_other; discriminate.
  Qed.

  Lemma nf_loop fuel ft gt s sg : VI sg s -> NF ft s -> hoareT (loop U K c fuel ft gt s) (fun s' _ => NF ft s').
  Proof.
    revert s. induction fuel as [|k IH]; intros s HV HN; cbn [loop]; destruct (guard c gt s).
    - apply hoareT_fuel.
    - apply hoareT_ret. exact HN.
    - eapply hoareT_bind with (R1 := fun r _ => VI sg (snd r) /\ NF ft (snd r)).
      + intros r tr H. split.
        * exact (proj1 (val_body U K c user_respects_array_equal no_update_function ft s sg HV r tr H)).
        * exact (nf_body ft s sg HV HN r tr H).
      + intros [cont s1] tr1 [V1 N1]. cbn in V1, N1. destruct cont; [eapply hoareT_weaken; [apply IH; assumption|auto]|apply hoareT_ret; exact N1].
    - apply hoareT_ret. exact HN.
  Qed.

  Lemma NF_classify ft gt s : NF ft s -> NF ft (classify c gt s).
  Proof.
    unfold NF, classify. intros H. destruct (leb _ _); [cbn; apply okmsg_other; discriminate|].
    destruct (_ >=? _); [cbn; apply okmsg_other; discriminate|].
    destruct (_ >=? _); [cbn; apply okmsg_other; discriminate|exact H].
  Qed.

  (* the relative-reduction message is never reported; nor the callback message without a callback, nor the target message
     without a target *)
  Theorem ftol_never_reported : forall r tr, run U K c = (Ok r, tr) ->
    r_msg r <> MFtol /\ (u_cb U = None -> r_msg r <> MCallback) /\ (ftarget c = None -> r_msg r <> MTarget).
  Proof.
    intros r tr H. pose proof (run_shape_of U K c _ r tr H eq_refl) as Hs.
    set (x := vclip (x0 c) (lb c) (ub c)) in *.
    destruct Hs as [f0 t1 tr1 ft tr2 gt tr3 H1 H2 H3 Ht -> _
                   |f0 t1 tr1 ft tr2 gt tr3 g t2 tr4 t3 tr5 f1 g1 G1 tr6 s' tr7 H1 H2 H3 Ht H4 H5 H6 H7 -> _].
    - unfold early_result. rewrite no_checkpoint. cbn. split; [discriminate|]. split; [discriminate|].
      intros Hn. unfold step_ft in H2. rewrite Hn in H2. unfold ret in H2. inversion H2; subst ft. cbn in Ht. discriminate.
    - cbn [r_msg snapshot].
      assert (Hft : ftarget c = None -> ft = None).
      { intros Hn. unfold step_ft in H2. rewrite Hn in H2. unfold ret in H2. inversion H2. reflexivity. }
      cut (NF ft (classify c gt s')).
      { intros (N1 & N2 & N3). split; [exact N1|]. split; [exact N2|]. intros Hn. apply N3, Hft, Hn. }
      apply NF_classify.
      unfold step_f0, t_init in H1. rewrite no_checkpoint in H1.
      assert (I0 : InvS (SF.init vec float vec float x fone)) by apply Inv_init.
      destruct (val_sf_fun U user_respects_array_equal x _ I0 _ _ H1) as (I1 & S1 & (fv & V0 & Ef0) & _). cbn in I1, S1, Ef0.
      unfold step_g in H4. rewrite no_checkpoint in H4.
      destruct (val_sf_grad U user_respects_array_equal x _ I1 _ _ H4) as (I2 & S2 & (gv & Vg & Eg) & _). cbn in I2, S2, Eg.
      rewrite S1 in S2, Eg. cbn [SF.init SF.scale] in S1, S2, Ef0, Eg.
      assert (I3 : InvS t3).
      { unfold step_sc in H5. destruct (u_scaler U) as [sc|].
        - apply bind_ok_inv in H5 as (s0 & ta & tb & _ & H5 & _). unfold ret in H5. inversion H5; subst. apply Inv_set_scale. exact I2.
        - unfold ret in H5. inversion H5; subst. exact I2. }
      unfold step_upd in H6. rewrite no_update_function in H6. unfold ret in H6. inversion H6; subst f1 g1 G1 tr6. clear H6.
      eapply (nf_loop _ ft gt _ (scale t3)); [| |exact H7].
      + unfold first_state, restored. rewrite no_checkpoint, no_update_function. cbn [fst snd].
        unfold VI, DriverValues.VI. cbn [s_sf s_x s_f s_g]. split; [exact I3|]. split; [reflexivity|].
        exists fv, gv. split; [exact V0|]. split; [exact Vg|]. rewrite Ef0, Eg, vscale_one. unfold fone. rewrite mul_one_r. auto.
      + unfold first_state, restored. rewrite no_checkpoint, no_update_function. cbn [fst snd]. unfold NF. cbn. apply okmsg_other; discriminate.
  Qed.
End FtolZero.
