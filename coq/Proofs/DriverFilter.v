(* C13: the curvature filter applied to a history rewritten by the update function
   (make_X_and_G_respect_strong_wolfe, model filter_mem), for ARBITRARY rewrites of the gradients. *)
From Coq Require Import List ZArith Bool String Lia Floats.PrimFloat.
From LBFGSB Require Import Base.Res Model.SF Model.FloatVec Model.Driver Generated.StopTests Proofs.DriverMemory.
Import ListNotations.
Open Scope Z_scope.

(* (X', G') is obtained from (X, G) by deleting the same positions of both lists (order kept) *)
Inductive subhist : list vec -> list vec -> list vec -> list vec -> Prop :=
| sh_nil : subhist [] [] [] []
| sh_keep x g X' G' X G : subhist X' G' X G -> subhist (x :: X') (g :: G') (x :: X) (g :: G)
| sh_drop x g X' G' X G : subhist X' G' X G -> subhist X' G' (x :: X) (g :: G).

Lemma subhist_refl X G : List.length X = List.length G -> subhist X G X G.
Proof. revert G. induction X as [|x X IH]; intros [|g G] H; cbn in H; try discriminate; constructor. apply IH. lia. Qed.

Lemma subhist_app_l X' G' X G P Q : List.length P = List.length Q -> subhist X' G' X G -> subhist X' G' (P ++ X) (Q ++ G).
Proof. revert Q. induction P as [|p P IH]; intros [|q Q] H S; cbn in H; try discriminate; cbn; auto. constructor. apply IH; [lia|exact S]. Qed.

Lemma subhist_snoc X' G' X G : subhist X' G' X G -> forall x g, subhist (X' ++ [x]) (G' ++ [g]) (X ++ [x]) (G ++ [g]).
Proof. induction 1; intros; cbn; repeat constructor; auto. Qed.

Section Filter.
  Variable K : kern.
  Variable c : cfg.
  Notation curv := (curvature_ok K c).

  (* adjacent pairs pass the test in the orientation in which the filter performs it: older point first *)
  Fixpoint pairs_rev_ok (X G : list vec) : Prop :=
    match X, G with
    | x0 :: ((x1 :: _) as X'), g0 :: ((g1 :: _) as G') => curv x0 g0 x1 g1 = true /\ pairs_rev_ok X' G'
    | _, _ => True
    end.

  (* the walk from the newest point backwards: rX, rG are the points not yet examined, newest first *)
  Lemma filter_back_spec rX rG : forall aX aG X' G',
    List.length rX = List.length rG -> List.length aX = List.length aG -> aX <> [] -> pairs_rev_ok aX aG ->
    filter_back K c rX rG aX aG = (X', G') ->
    pairs_rev_ok X' G' /\ List.length X' = List.length G' /\ last X' [] = last aX [] /\ last G' [] = last aG [] /\
    exists P Q, X' = P ++ aX /\ G' = Q ++ aG /\ subhist P Q (rev rX) (rev rG).
  Proof.
    revert rG. induction rX as [|xk rX IH]; intros [|gk rG] aX aG X' G' L La Hn HP H; cbn in L; try discriminate.
    - cbn in H. inversion H; subst. repeat split; auto. exists [], []. repeat split; constructor.
    - cbn [filter_back] in H. destruct (curv xk gk (hd [] aX) (hd [] aG)) eqn:Ec.
      + destruct (IH rG (xk :: aX) (gk :: aG) X' G') as (H1 & H2 & H3 & H4 & P & Q & E1 & E2 & HS); auto; try (cbn; lia); try discriminate.
        { destruct aX as [|x1 aX]; [congruence|]. destruct aG as [|g1 aG]; [discriminate|]. cbn in Ec. split; [exact Ec|exact HP]. }
        repeat split; auto.
        * rewrite H3. destruct aX; [congruence|reflexivity].
        * rewrite H4. destruct aG; [destruct aX; [congruence|discriminate]|reflexivity].
        * exists (P ++ [xk]), (Q ++ [gk]). rewrite <- !app_assoc. cbn [app rev]. repeat split; auto. apply subhist_snoc. exact HS.
      + destruct (IH rG aX aG X' G') as (H1 & H2 & H3 & H4 & P & Q & E1 & E2 & HS); auto; try lia.
        repeat split; auto. exists P, Q. repeat split; auto. cbn [rev].
        assert (HL : List.length (rev rX) = List.length (rev rG)) by (rewrite !rev_length; lia).
        clear - HS HL. revert HL. generalize (rev rX) (rev rG) HS. clear. intros A B HS.
        induction HS; intros HL; cbn in *; try (repeat constructor; fail); constructor; apply IHHS; lia.
  Qed.

  (* for arbitrary X, G of equal non-zero length (G arbitrarily rewritten): the retained history is a sub-history of the
     given one in chronological order, it always contains the newest point, and every adjacent retained pair passes the test *)
  Theorem filter_spec (X G X' G' : list vec) : List.length X = List.length G -> X <> [] -> filter_mem K c X G = (X', G') ->
    subhist X' G' X G /\ last X' [] = last X [] /\ last G' [] = last G [] /\ pairs_rev_ok X' G' /\
    List.length X' = List.length G' /\ X' <> [].
  Proof.
    intros L Hn H. unfold filter_mem in H.
    destruct (rev X) as [|xl rX] eqn:EX. { destruct X; [congruence|]. apply (f_equal (@List.length vec)) in EX. rewrite rev_length in EX. discriminate. }
    destruct (rev G) as [|gl rG] eqn:EG. { destruct G; [destruct X; [congruence|discriminate]|]. apply (f_equal (@List.length vec)) in EG. rewrite rev_length in EG. discriminate. }
    assert (HX : X = rev rX ++ [xl]) by (rewrite <- (rev_involutive X), EX; reflexivity).
    assert (HG : G = rev rG ++ [gl]) by (rewrite <- (rev_involutive G), EG; reflexivity).
    assert (Lr : List.length rX = List.length rG).
    { apply (f_equal (@List.length vec)) in EX, EG. rewrite rev_length in EX, EG. cbn in EX, EG. lia. }
    destruct (filter_back_spec rX rG [xl] [gl] X' G' Lr eq_refl) as (H1 & H2 & H3 & H4 & P & Q & E1 & E2 & HS); auto; try discriminate; [exact I|].
    subst X' G'. rewrite HX, HG. repeat split; auto.
    - apply subhist_snoc. exact HS.
    - rewrite !last_last. reflexivity.
    - rewrite !last_last. reflexivity.
    - destruct P; discriminate.
  Qed.
End Filter.

Section UpdateStep.
  Variable U : user.
  Variable K : kern.
  Variable c : cfg.

  (* what an accepted step does to the history when an update function is present: the function is called with the current
     history, the history it returns (same points, rewritten gradients) is filtered, and the new point - with the gradient the
     function returned for it - is offered to the memory; a run that stops at this iteration carries the filtered history *)
  Theorem accept_step_upd_shape u ft s a d t1 cont s1 tr : u_upd U = Some u ->
    accept_step U K c ft s a d t1 = (Ok (cont, s1), tr) ->
    exists f0 g f1 fo g1 G1 X1 G2,
      In (EvUpd (s_x s1) f0 (s_f s) g (s_X s) (s_G s) (Ok (f1, fo, g1, G1))) tr /\
      filter_mem K c (s_X s) G1 = (X1, G2) /\ s_g s1 = g1 /\ s_f s1 = f1 /\
      ((cont = false /\ s_X s1 = X1 /\ s_G s1 = G2) \/
       (cont = true /\ (s_X s1, s_G s1, s_mats s1) =
                       update_mem_f K c (1 <? List.length X1)%nat (s_x s1) g1 X1 G2 (if (List.length X1 =? 1)%nat then None else s_mats s))).
  Proof.
    intros Hu H. unfold accept_step in H. rewrite Hu in H.
    apply bind_ok_inv in H as ([[f0 g] t2] & tr1 & trA & H1 & H & ->).
    apply bind_ok_inv in H as ([[[[f1 fo] g1] G1] filt] & tr2 & trB & H2 & H & ->).
    apply bind_ok_inv in H2 as ([[[a1 a2] a3] a4] & q1 & q2 & Q1 & Q2 & ->). unfold call in Q1. inversion Q1 as [[Hr Hq]]. subst q1.
    unfold ret in Q2. inversion Q2; subst. clear Q2.
    destruct (filter_mem K c (s_X s) G1) as [X1 G2] eqn:EF.
    assert (Hin : forall rest, In (EvUpd (vclip (vaxpy (s_x s) a d) (lb c) (ub c)) f0 (s_f s) g (s_X s) (s_G s) (Ok (f1, fo, g1, G1)))
                               (tr1 ++ ([EvUpd (vclip (vaxpy (s_x s) a d) (lb c) (ub c)) f0 (s_f s) g (s_X s) (s_G s)
                                          (u (vclip (vaxpy (s_x s) a d) (lb c) (ub c)) f0 (s_f s) g (s_X s) (s_G s))] ++ []) ++ rest)).
    { intros rest. rewrite Hr. apply in_or_app. right. apply in_or_app. left. left. reflexivity. }
    destruct (is_f0_target_reached _ _).
    { unfold ret in H. inversion H; subst. exists f0, g, f1, fo, g1, G1, X1, G2. cbn [s_x s_g s_f s_X s_G s_mats set_stop].
      split; [specialize (Hin []); rewrite !app_nil_r in *; exact Hin|]. repeat split; auto. }
    destruct (is_f0_min_change_reached _ _ _).
    { unfold ret in H. inversion H; subst. exists f0, g, f1, fo, g1, G1, X1, G2. cbn [s_x s_g s_f s_X s_G s_mats set_stop].
      split; [specialize (Hin []); rewrite !app_nil_r in *; exact Hin|]. repeat split; auto. }
    cbn [andb] in H. destruct (update_mem_f K c _ _ g1 X1 G2 _) as [[X2 G3] m2] eqn:EU.
    destruct (u_cb U) as [cb|].
    - apply bind_ok_inv in H as (b' & r1 & r2 & R1 & R2 & ->).
      destruct b'; unfold ret in R2; inversion R2; subst; exists f0, g, f1, fo, g1, G1, X1, G2; cbn [s_x s_g s_f s_X s_G s_mats];
        (split; [apply Hin|]); (split; [exact EF|]); (split; [reflexivity|]); (split; [reflexivity|]); right; rewrite EU; auto.
    - unfold ret in H. inversion H; subst. exists f0, g, f1, fo, g1, G1, X1, G2. cbn [s_x s_g s_f s_X s_G s_mats].
      split; [specialize (Hin []); rewrite !app_nil_r in *; exact Hin|]. split; [exact EF|]. split; [reflexivity|]. split; [reflexivity|]. right. rewrite EU. auto.
  Qed.
End UpdateStep.
