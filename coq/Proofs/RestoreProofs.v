(* C06, exact-arithmetic core.  The checkpoint of a run stores only the DIFFERENCES sk = diffs X, yk = diffs G of
   the history of points and gradients; a restart rebuilds the history from the current point and these
   differences (Model/Restore.v = the algorithms of Model/Driver.v, see Proofs/RestoreInst.v).  Over any
   structure (V, vadd, vsub) satisfying the two laws

       vsub_vadd  : a - (b + c) = (a - b) - c
       vsub_vsub  : a - (a - b) = b

   (both hold in every abelian group, Section AbelianGroup) the reconstruction is exact:
     (a) restore_diffs        the history is rebuilt exactly, for every history (every split point);
     (b) restore_diffs_pairs  the pairs of the rebuilt history are exactly the stored pairs;
     (c) push_bounded_lastn / restart_pairs   with a bound maxcor the most recent points / pairs are kept;
     (d) restore_chain        restoring from a restored history changes nothing (chains of restarts).
   Over binary64 the two laws fail (rounding), see [float_vsub_vsub_fails] at the end: there the statements
   hold only up to rounding. *)
From Coq Require Import List ZArith Bool Lia Arith.
From LBFGSB Require Import Model.Restore.
Import ListNotations.
Open Scope Z_scope.

(* the last n elements of l, in order (all of l when n >= length l) *)
Definition lastn {A} (n : nat) (l : list A) : list A := skipn (List.length l - n) l.

(* ------------------------------------------------------------------ list facts, no algebra *)
Section Lists.
  Context {A : Type}.

  Lemma tl_skipn : forall (n : nat) (l : list A), tl (skipn n l) = skipn (S n) l.
  Proof.
    induction n as [|n IH]; intros [|a l]; try reflexivity.
    change (tl (skipn n l) = skipn (S n) l). apply IH.
  Qed.

  Lemma lastn_all : forall (n : nat) (l : list A), (List.length l <= n)%nat -> lastn n l = l.
  Proof.
    intros n l H. unfold lastn. replace (List.length l - n)%nat with 0%nat by lia. reflexivity.
  Qed.

  Lemma lastn_length : forall (n : nat) (l : list A), List.length (lastn n l) = Nat.min n (List.length l).
  Proof. intros n l. unfold lastn. rewrite skipn_length. lia. Qed.

  Lemma lastn_snoc : forall (n : nat) (l : list A) (x : A), lastn n l ++ [x] = lastn (S n) (l ++ [x]).
  Proof.
    intros n l x. unfold lastn. rewrite app_length. simpl List.length.
    replace (List.length l + 1 - S n)%nat with (List.length l - n)%nat by lia.
    rewrite skipn_app.
    replace (List.length l - n - List.length l)%nat with 0%nat by lia. reflexivity.
  Qed.
End Lists.

(* ------------------------------------------------------------------ shape facts: any V, any vadd/vsub *)
Section Shape.
  Variable V : Type.
  Variables vadd vsub : V -> V -> V.

  Notation diffs := (Restore.diffs vsub).
  Notation cumsum := (Restore.cumsum vadd).
  Notation restore_points := (Restore.restore_points vadd vsub).

  Lemma diffs_snoc : forall (l : list V) (a b : V),
    diffs ((l ++ [a]) ++ [b]) = diffs (l ++ [a]) ++ [vsub b a].
  Proof.
    induction l as [|c l IH]; intros a b.
    - reflexivity.
    - destruct l as [|d l].
      + reflexivity.
      + specialize (IH a b). simpl in IH |- *. rewrite IH. reflexivity.
  Qed.

  Lemma diffs_skipn : forall (n : nat) (l : list V), diffs (skipn n l) = skipn n (diffs l).
  Proof.
    induction n as [|n IH]; intros l.
    - reflexivity.
    - destruct l as [|a [|b r]].
      + reflexivity.
      + simpl. destruct n; reflexivity.
      + change (diffs (skipn n (b :: r)) = skipn n (diffs (b :: r))). apply IH.
  Qed.

  Lemma diffs_length : forall l : list V, List.length (diffs l) = (List.length l - 1)%nat.
  Proof.
    induction l as [|a [|b r] IH]; try reflexivity.
    change (S (List.length (diffs (b :: r))) = (List.length (a :: b :: r) - 1)%nat).
    rewrite IH. simpl. lia.
  Qed.

  (* the pairs of the last n + 1 points are the last n pairs *)
  Lemma diffs_lastn : forall (n : nat) (l : list V), diffs (lastn (S n) l) = lastn n (diffs l).
  Proof.
    intros n l. unfold lastn. rewrite diffs_skipn, diffs_length. f_equal. lia.
  Qed.

  Lemma cumsum_length : forall (rs : list V) (acc : option V), List.length (cumsum acc rs) = List.length rs.
  Proof. induction rs as [|s r IH]; intros acc; simpl; [reflexivity | rewrite IH; reflexivity]. Qed.

  Lemma restore_points_length : forall (x : V) (sk : list V),
    List.length (restore_points x sk) = List.length sk.
  Proof.
    intros x sk. unfold Restore.restore_points.
    rewrite rev_length, map_length, cumsum_length, rev_length. reflexivity.
  Qed.

  (* ---------------------------------------------------------------- (c), first half: the bound *)
  Section Bound.
    Variable maxcor : Z.
    Hypothesis maxcor_nonneg : 0 <= maxcor.

    Notation push_bounded := (Restore.push_bounded (V := V) maxcor).
    Notation trim := (Restore.trim (V := V) maxcor).

    Lemma push_bounded_acc : forall (pts acc : list V),
      (List.length acc <= Z.to_nat (maxcor + 1))%nat ->
      push_bounded pts acc = lastn (Z.to_nat (maxcor + 1)) (acc ++ pts).
    Proof.
      induction pts as [|p r IH]; intros acc Hacc.
      - rewrite app_nil_r. symmetry. apply lastn_all. exact Hacc.
      - simpl. destruct (Z.gtb_spec (Z.of_nat (List.length acc)) maxcor) as [Hgt | Hle].
        + destruct acc as [|a acc]; [simpl in Hgt; lia |].
          cbn [List.length] in Hacc, Hgt. change (tl (a :: acc)) with acc.
          rewrite IH by (rewrite app_length; cbn [List.length]; lia).
          unfold lastn. rewrite <- app_assoc.
          change ((a :: acc) ++ p :: r) with (a :: (acc ++ [p] ++ r)).
          set (L := acc ++ [p] ++ r).
          assert (HL : List.length L = (List.length acc + S (List.length r))%nat)
            by (unfold L; rewrite !app_length; reflexivity).
          replace (List.length (a :: L) - Z.to_nat (maxcor + 1))%nat
            with (S (List.length L - Z.to_nat (maxcor + 1)))%nat by (cbn [List.length]; lia).
          reflexivity.
        + rewrite IH by (rewrite app_length; simpl; lia).
          rewrite <- app_assoc. reflexivity.
    Qed.

    (* (c) push_bounded keeps the last min(length pts, maxcor + 1) points, in order *)
    Theorem push_bounded_lastn : forall pts : list V,
      push_bounded pts [] = lastn (Nat.min (List.length pts) (Z.to_nat (maxcor + 1))) pts.
    Proof.
      intros pts. rewrite push_bounded_acc by (simpl; lia). simpl.
      unfold lastn. f_equal. lia.
    Qed.

    (* appending the current point and trimming: the last min(length pts, maxcor) + 1 points of pts ++ [x] *)
    Lemma trim_push_bounded : forall (pts : list V) (x : V),
      trim (push_bounded pts [] ++ [x]) = lastn (S (Nat.min (List.length pts) (Z.to_nat maxcor))) (pts ++ [x]).
    Proof.
      intros pts x. rewrite push_bounded_lastn, lastn_snoc. unfold Restore.trim.
      rewrite lastn_length, app_length. simpl List.length.
      destruct (Z.gtb_spec (Z.of_nat (Nat.min (S (Nat.min (List.length pts) (Z.to_nat (maxcor + 1))))
                                             (List.length pts + 1))) (maxcor + 1)) as [Hgt | Hle].
      - unfold lastn. rewrite tl_skipn. f_equal. rewrite app_length. simpl. lia.
      - unfold lastn. f_equal. rewrite app_length. simpl. lia.
    Qed.
  End Bound.
End Shape.

(* ------------------------------------------------------------------ the exact-arithmetic theorems *)
Section Exact.
  Variable V : Type.
  Variables vadd vsub : V -> V -> V.

  (* the only two laws used *)
  Hypothesis vsub_vadd : forall a b c : V, vsub a (vadd b c) = vsub (vsub a b) c.
  Hypothesis vsub_vsub : forall a b : V, vsub a (vsub a b) = b.

  Notation diffs := (Restore.diffs vsub).
  Notation cumsum := (Restore.cumsum vadd).
  Notation restore_points := (Restore.restore_points vadd vsub).

  (* the restored points, newest first, as a walk backwards from x along the reversed differences *)
  Fixpoint walk (p : V) (rs : list V) : list V :=
    match rs with
    | [] => []
    | r :: rs' => vsub p r :: walk (vsub p r) rs'
    end.

  Lemma map_cumsum_some : forall (rs : list V) (x a : V),
    map (fun cs => vsub x cs) (cumsum (Some a) rs) = walk (vsub x a) rs.
  Proof.
    induction rs as [|r rs IH]; intros x a; simpl.
    - reflexivity.
    - rewrite IH, vsub_vadd. reflexivity.
  Qed.

  Lemma restore_points_walk : forall (x : V) (sk : list V), restore_points x sk = rev (walk x (rev sk)).
  Proof.
    intros x sk. unfold Restore.restore_points. f_equal.
    destruct (rev sk) as [|r rs]; simpl.
    - reflexivity.
    - rewrite map_cumsum_some. reflexivity.
  Qed.

  Lemma diffs_walk : forall (rs : list V) (x : V), diffs (rev (walk x rs) ++ [x]) = rev rs.
  Proof.
    induction rs as [|r rs IH]; intros x; simpl.
    - reflexivity.
    - rewrite diffs_snoc, IH, vsub_vsub. reflexivity.
  Qed.

  (* (b) the pairs of the restored history (current point re-inserted) are exactly the stored pairs *)
  Theorem restore_diffs_pairs : forall (x : V) (sk : list V),
    diffs (restore_points x sk ++ [x]) = sk.
  Proof.
    intros x sk. rewrite restore_points_walk, diffs_walk. apply rev_involutive.
  Qed.

  (* (a) exact reconstruction of an arbitrary non-empty history X0 ++ [x] from its last point and its differences *)
  Theorem restore_diffs_snoc : forall (X0 : list V) (x : V),
    restore_points x (diffs (X0 ++ [x])) ++ [x] = X0 ++ [x].
  Proof.
    induction X0 as [|a X1 IH] using rev_ind; intros x.
    - reflexivity.
    - f_equal. specialize (IH a).
      rewrite restore_points_walk in IH |- *.
      rewrite diffs_snoc, rev_unit. simpl. rewrite vsub_vsub. exact IH.
  Qed.

  Theorem restore_diffs : forall (X : list V) (x d : V),
    X <> [] -> last X d = x -> restore_points x (diffs X) ++ [x] = X.
  Proof.
    intros X x d HX Hlast.
    rewrite (app_removelast_last d HX), Hlast. apply restore_diffs_snoc.
  Qed.

  (* (d) chains of restarts: restoring from the differences of a restored history gives the same history
     (no hypothesis on X: by (b) the restored history has the pairs it was restored from) *)
  Theorem restore_chain_pairs : forall (x : V) (sk : list V),
    let X' := restore_points x sk ++ [x] in
    restore_points x (diffs X') ++ [x] = X'.
  Proof. intros x sk X'. unfold X'. rewrite restore_diffs_pairs. reflexivity. Qed.

  Theorem restore_chain : forall (X : list V) (x : V),
    let X' := restore_points x (diffs X) ++ [x] in
    restore_points x (diffs X') ++ [x] = X'.
  Proof. intros X x. apply restore_chain_pairs. Qed.

  (* ---------------------------------------------------------------- (c), second half: the pairs kept *)
  Section Bound.
    Variable maxcor : Z.
    Hypothesis maxcor_nonneg : 0 <= maxcor.

    Notation push_bounded := (Restore.push_bounded (V := V) maxcor).
    Notation trim := (Restore.trim (V := V) maxcor).
    Notation restore := (Restore.restore vadd vsub maxcor).

    (* a restart that re-inserts the current point x (update_X_and_G: append, drop the oldest when more than
       maxcor + 1 points are stored) holds exactly the last min(m, maxcor) stored pairs *)
    Theorem restart_pairs : forall (x : V) (sk : list V),
      diffs (trim (push_bounded (restore_points x sk) [] ++ [x]))
      = lastn (Nat.min (List.length sk) (Z.to_nat maxcor)) sk.
    Proof.
      intros x sk.
      rewrite (trim_push_bounded V maxcor maxcor_nonneg), diffs_lastn.
      rewrite restore_diffs_pairs, restore_points_length. reflexivity.
    Qed.

    (* same maxcor (or larger) than the number of stored pairs: all the pairs, unchanged *)
    Corollary restart_pairs_all : forall (x : V) (sk : list V),
      (List.length sk <= Z.to_nat maxcor)%nat ->
      diffs (trim (push_bounded (restore_points x sk) [] ++ [x])) = sk.
    Proof. intros x sk H. rewrite restart_pairs. apply lastn_all. lia. Qed.

    (* the points themselves: the last min(m, maxcor) + 1 points of the exact history *)
    Theorem restart_points : forall (X0 : list V) (x : V),
      trim (push_bounded (restore_points x (diffs (X0 ++ [x]))) [] ++ [x])
      = lastn (S (Nat.min (List.length X0) (Z.to_nat maxcor))) (X0 ++ [x]).
    Proof.
      intros X0 x. rewrite (trim_push_bounded V maxcor maxcor_nonneg), restore_diffs_snoc.
      rewrite restore_points_length, diffs_length, app_length. simpl.
      replace (List.length X0 + 1 - 1)%nat with (List.length X0) by lia. reflexivity.
    Qed.

    (* [restore] on both histories *)
    Theorem restore_spec : forall (x jac : V) (sk yk : list V), sk <> [] ->
      restore x jac sk yk =
      (lastn (Nat.min (List.length sk) (Z.to_nat (maxcor + 1))) (restore_points x sk),
       lastn (Nat.min (List.length yk) (Z.to_nat (maxcor + 1))) (restore_points jac yk)).
    Proof.
      intros x jac sk yk Hsk. unfold Restore.restore.
      destruct sk as [|s sk]; [contradiction |].
      rewrite !(push_bounded_lastn V maxcor maxcor_nonneg), !restore_points_length. reflexivity.
    Qed.
  End Bound.
End Exact.

(* ------------------------------------------------------------------ the two laws hold in every abelian group *)
Section AbelianGroup.
  Variable V : Type.
  Variable vzero : V.
  Variable vopp : V -> V.
  Variables vadd vsub : V -> V -> V.

  Hypothesis vadd_assoc : forall a b c : V, vadd a (vadd b c) = vadd (vadd a b) c.
  Hypothesis vadd_comm : forall a b : V, vadd a b = vadd b a.
  Hypothesis vadd_zero_r : forall a : V, vadd a vzero = a.
  Hypothesis vadd_opp_r : forall a : V, vadd a (vopp a) = vzero.
  Hypothesis vsub_def : forall a b : V, vsub a b = vadd a (vopp b).

  Lemma vopp_unique : forall a b : V, vadd a b = vzero -> b = vopp a.
  Proof.
    intros a b H.
    rewrite <- (vadd_zero_r b), <- (vadd_opp_r a), vadd_assoc, (vadd_comm b a), H.
    rewrite vadd_comm. apply vadd_zero_r.
  Qed.

  Lemma vopp_vadd : forall a b : V, vopp (vadd a b) = vadd (vopp a) (vopp b).
  Proof.
    intros a b. symmetry. apply vopp_unique.
    rewrite vadd_assoc, (vadd_comm (vadd a b)), vadd_assoc, (vadd_comm (vopp a)), vadd_opp_r.
    rewrite (vadd_comm vzero), vadd_zero_r. apply vadd_opp_r.
  Qed.

  Lemma vopp_vopp : forall a : V, vopp (vopp a) = a.
  Proof. intros a. symmetry. apply vopp_unique. rewrite vadd_comm. apply vadd_opp_r. Qed.

  Lemma group_vsub_vadd : forall a b c : V, vsub a (vadd b c) = vsub (vsub a b) c.
  Proof. intros a b c. rewrite !vsub_def, vopp_vadd. apply vadd_assoc. Qed.

  Lemma group_vsub_vsub : forall a b : V, vsub a (vsub a b) = b.
  Proof.
    intros a b. rewrite !vsub_def, vopp_vadd, vopp_vopp, vadd_assoc, vadd_opp_r.
    rewrite vadd_comm. apply vadd_zero_r.
  Qed.

  Notation diffs := (Restore.diffs vsub).
  Notation restore_points := (Restore.restore_points vadd vsub).

  Theorem group_restore_diffs : forall (X : list V) (x d : V),
    X <> [] -> last X d = x -> restore_points x (diffs X) ++ [x] = X.
  Proof. exact (restore_diffs V vadd vsub group_vsub_vadd group_vsub_vsub). Qed.

  Theorem group_restore_diffs_pairs : forall (x : V) (sk : list V), diffs (restore_points x sk ++ [x]) = sk.
  Proof. exact (restore_diffs_pairs V vadd vsub group_vsub_vadd group_vsub_vsub). Qed.

  Theorem group_restart_pairs : forall (maxcor : Z), 0 <= maxcor -> forall (x : V) (sk : list V),
    diffs (Restore.trim maxcor (Restore.push_bounded maxcor (restore_points x sk) [] ++ [x]))
    = lastn (Nat.min (List.length sk) (Z.to_nat maxcor)) sk.
  Proof. exact (restart_pairs V vadd vsub group_vsub_vadd group_vsub_vsub). Qed.

  Theorem group_restore_chain : forall (X : list V) (x : V),
    let X' := restore_points x (diffs X) ++ [x] in
    restore_points x (diffs X') ++ [x] = X'.
  Proof. exact (restore_chain V vadd vsub group_vsub_vadd group_vsub_vsub). Qed.
End AbelianGroup.

(* ------------------------------------------------------------------ the hypotheses are satisfiable: V := Z *)
Module ZInst.
  Lemma Z_vsub_vadd : forall a b c : Z, a - (b + c) = a - b - c.
  Proof. intros; lia. Qed.
  Lemma Z_vsub_vsub : forall a b : Z, a - (a - b) = b.
  Proof. intros; lia. Qed.

  Notation diffs := (Restore.diffs Z.sub).
  Notation restore_points := (Restore.restore_points Z.add Z.sub).

  Definition Z_restore_diffs := restore_diffs Z Z.add Z.sub Z_vsub_vadd Z_vsub_vsub.
  Definition Z_restore_diffs_pairs := restore_diffs_pairs Z Z.add Z.sub Z_vsub_vadd Z_vsub_vsub.
  Definition Z_restart_pairs := restart_pairs Z Z.add Z.sub Z_vsub_vadd Z_vsub_vsub.
  Definition Z_restore_chain := restore_chain Z Z.add Z.sub Z_vsub_vadd Z_vsub_vsub.

  (* ... and through the abelian-group presentation *)
  Definition Z_group_restart_pairs :=
    group_restart_pairs Z 0 Z.opp Z.add Z.sub Z.add_assoc Z.add_comm Z.add_0_r Z.add_opp_diag_r (fun a b => eq_sym (Z.add_opp_r a b)).

  (* a history of 4 points: 3 pairs in the checkpoint, 3 pairs after a restart with the same maxcor *)
  Example history : list Z := [10; 7; 12; 5].
  Example pairs_of_history : diffs history = [-3; 5; -7].
  Proof. vm_compute. reflexivity. Qed.

  Example restored_points : restore_points 5 [-3; 5; -7] = [10; 7; 12].
  Proof. vm_compute. reflexivity. Qed.

  Example three_pairs_in_three_pairs_out :
    diffs (Restore.trim 3 (Restore.push_bounded 3 (restore_points 5 [-3; 5; -7]) [] ++ [5])) = [-3; 5; -7].
  Proof. vm_compute. reflexivity. Qed.

  (* maxcor reduced from 3 to 1: the newest pair is kept *)
  Example maxcor_reduced_keeps_newest :
    diffs (Restore.trim 1 (Restore.push_bounded 1 (restore_points 5 [-3; 5; -7]) [] ++ [5])) = [-7].
  Proof. vm_compute. reflexivity. Qed.

  (* the off-by-one of initialize_X_and_G: maxcor + 1 restored points survive the loop (here 2), the oldest of
     them is dropped only when the current point is re-inserted *)
  Example maxcor_reduced_points :
    Restore.push_bounded 1 (restore_points 5 [-3; 5; -7]) [] = [7; 12]
    /\ Restore.trim 1 ([7; 12] ++ [5]) = [12; 5].
  Proof. vm_compute. split; reflexivity. Qed.

  Example restore_both :
    Restore.restore Z.add Z.sub 1 5 100 [-3; 5; -7] [1; 1; 1] = ([7; 12], [98; 99]).
  Proof. vm_compute. reflexivity. Qed.
End ZInst.

(* ------------------------------------------------------------------ REMARK: binary64 is not such a structure
   Over floats (V := list float, FloatVec.vadd / FloatVec.vsub, the instance used by Model/Driver.v) neither law
   holds: subtraction rounds, so x - (x - s) is in general only close to s.  Hence (a), (b), (d) hold for the
   Python code only up to rounding: the pairs returned by a restart that performs no iteration can differ from
   the stored pairs in the last bits (and a tiny s can even be absorbed completely, giving the pair 0).
   Below: x = 1.0, s = 0.1: x - s = 0.9, x - 0.9 = 0.09999999999999998 <> 0.1;
          x = 1.0, s = 2^-60: x - s = 1.0, x - 1.0 = 0 <> s.
   (Proofs/RestoreInst.v replays the first one through Driver.restore_points itself.) *)
From Coq Require Floats.PrimFloat.
Module FloatRemark.
  Import Coq.Floats.PrimFloat.
  Local Open Scope float_scope.
  Definition fsub := PrimFloat.sub.

  Example float_vsub_vsub_fails :
    let x := 0x1p+0 in let s := 0x1.999999999999ap-4 in          (* 1.0, 0.1 *)
    PrimFloat.eqb (fsub x (fsub x s)) s = false
    /\ PrimFloat.eqb (fsub x (fsub x s)) 0x1.9999999999998p-4 = true.   (* 0.09999999999999998 *)
  Proof. vm_compute. split; reflexivity. Qed.

  Example float_vsub_vsub_absorbs :
    let x := 0x1p+0 in let s := 0x1p-60 in
    PrimFloat.eqb (fsub x (fsub x s)) s = false /\ PrimFloat.eqb (fsub x (fsub x s)) 0 = true.
  Proof. vm_compute. split; reflexivity. Qed.

  (* the first law fails too: 1 - (2^-54 + 2^-54) = 1 - 2^-53 is representable, while 1 - 2^-54 rounds to 1
     at each of the two steps of (1 - 2^-54) - 2^-54 *)
  Example float_vsub_vadd_fails :
    let a := 0x1p+0 in let b := 0x1p-54 in
    PrimFloat.eqb (fsub a (PrimFloat.add b b)) (fsub (fsub a b) b) = false.
  Proof. vm_compute. reflexivity. Qed.
End FloatRemark.

Print Assumptions restore_diffs.
Print Assumptions restore_diffs_snoc.
Print Assumptions restore_diffs_pairs.
Print Assumptions push_bounded_lastn.
Print Assumptions restart_pairs.
Print Assumptions restore_chain.
Print Assumptions group_restart_pairs.
Print Assumptions ZInst.Z_restart_pairs.
