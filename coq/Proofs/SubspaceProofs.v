(* C09 — proofs about the executable model Subspace.v (all n, all partitions). *)
From Coq Require Import List QArith Bool Arith Lia Lqa Setoid Morphisms.
From LBFGSB Require Import Model.Subspace.
Import ListNotations.
Open Scope Q_scope.
(* Qred only keeps the numbers small for vm_compute; the proofs use Qred_correct : Qred q == q *)
Local Opaque Qred.

(* ================= scalars ================= *)
Lemma Qltb_true a b : Qltb a b = true <-> a < b.
Proof.
  unfold Qltb. rewrite negb_true_iff. split; intro H.
  - apply Qnot_le_lt. intro Hle. apply Qle_bool_iff in Hle. congruence.
  - destruct (Qle_bool b a) eqn:E; [|reflexivity]. apply Qle_bool_iff in E. lra.
Qed.
Lemma Qltb_false a b : Qltb a b = false <-> b <= a.
Proof.
  unfold Qltb. rewrite negb_false_iff. apply Qle_bool_iff.
Qed.
Lemma Qle_bool_false a b : Qle_bool a b = false <-> b < a.
Proof.
  split; intro H.
  - apply Qnot_le_lt. intro Hle. apply Qle_bool_iff in Hle. congruence.
  - destruct (Qle_bool a b) eqn:E; [|reflexivity]. apply Qle_bool_iff in E. lra.
Qed.
Lemma Qeq_bool_false a b : Qeq_bool a b = false <-> ~ a == b.
Proof.
  split; intro H.
  - now apply Qeq_bool_neq.
  - destruct (Qeq_bool a b) eqn:E; [|reflexivity]. apply Qeq_bool_iff in E. contradiction.
Qed.

(* ================= bounds, feasibility ================= *)
Definition lb_ok (l : bound) (x : Q) : Prop := match l with Some l' => l' <= x | None => True end.
Definition ub_ok (x : Q) (u : bound) : Prop := match u with Some u' => x <= u' | None => True end.
Definition lb_lt (l : bound) (x : Q) : Prop := match l with Some l' => l' < x | None => True end.
Definition ub_lt (x : Q) (u : bound) : Prop := match u with Some u' => x < u' | None => True end.
(* the point x (length n) lies in the box *)
Definition feasible (x : list Q) (lb ub : list bound) : Prop :=
  forall i, (i < length x)%nat -> lb_ok (nth i lb None) (nth i x 0) /\ ub_ok (nth i x 0) (nth i ub None).

Lemma is_free_strict x l u :
  lb_ok l x -> ub_ok x u -> (is_free x l u = true <-> lb_lt l x /\ ub_lt x u).
Proof.
  intros Hl Hu. unfold is_free. rewrite andb_true_iff, !negb_true_iff.
  destruct l as [l|], u as [u|]; simpl in *; rewrite ?Qeq_bool_false; split; intros [H1 H2]; try (split; auto; lra).
Qed.

Lemma clip_id x l u : lb_ok l x -> ub_ok x u -> clip x l u = x.
Proof.
  intros Hl Hu. unfold clip.
  assert (E1 : match l with Some l' => if Qltb x l' then l' else x | None => x end = x).
  { destruct l as [l|]; [|reflexivity]. simpl in Hl. destruct (Qltb x l) eqn:E; [|reflexivity].
    apply Qltb_true in E. lra. }
  rewrite E1. destruct u as [u|]; [|reflexivity]. simpl in Hu.
  destruct (Qltb u x) eqn:E; [|reflexivity]. apply Qltb_true in E. lra.
Qed.

(* ================= lists ================= *)
Lemma map2_length {A B C} (f : A -> B -> C) u w n : length u = n -> length w = n -> length (map2 f u w) = n.
Proof.
  revert w n. induction u as [|a u IH]; intros [|b w] n Hu Hw; simpl in *; try congruence.
  destruct n; [discriminate|]. f_equal. apply IH; congruence.
Qed.
Lemma nth_map2 {A B C} (f : A -> B -> C) u w n k da db dc :
  length u = n -> length w = n -> (k < n)%nat -> nth k (map2 f u w) dc = f (nth k u da) (nth k w db).
Proof.
  revert w n k. induction u as [|a u IH]; intros [|b w] n k Hu Hw Hk; simpl in *; try (subst; lia).
  destruct k; [reflexivity|]. destruct n; [lia|]. apply (IH w n); lia.
Qed.
Lemma free_mask_length xc lb ub n :
  length xc = n -> length lb = n -> length ub = n -> length (free_mask xc lb ub) = n.
Proof.
  revert lb ub n. induction xc as [|x xc IH]; intros [|l lb] [|u ub] n H1 H2 H3; simpl in *; try congruence.
  destruct n; [discriminate|]. f_equal. apply IH; congruence.
Qed.
Lemma nth_free_mask xc lb ub i :
  (i < length xc)%nat -> length lb = length xc -> length ub = length xc ->
  nth i (free_mask xc lb ub) false = is_free (nth i xc 0) (nth i lb None) (nth i ub None).
Proof.
  revert lb ub i. induction xc as [|x xc IH]; intros [|l lb] [|u ub] i Hi H2 H3; simpl in *; try lia; try discriminate.
  destruct i; [reflexivity|]. apply IH; lia.
Qed.
Lemma scatter_length mask d : length (scatter mask d) = length mask.
Proof.
  revert d. induction mask as [|[|] m IH]; intros d; simpl; [reflexivity| |].
  - destruct d; simpl; f_equal; apply IH.
  - f_equal. apply IH.
Qed.
Lemma nth_scatter_nonfree mask d i : nth i mask false = false -> nth i (scatter mask d) 0 = 0.
Proof.
  revert d i. induction mask as [|[|] m IH]; intros d i H; simpl.
  - destruct i; reflexivity.
  - destruct i; [discriminate|]. destruct d; simpl; apply IH; exact H.
  - destruct i; [reflexivity|]. simpl. apply IH. exact H.
Qed.
Lemma scatter_nil_zero mask i : nth i (scatter mask []) 0 = 0.
Proof.
  revert i. induction mask as [|[|] m IH]; intros [|i]; simpl; auto.
Qed.
Lemma existsb_id_false mask : existsb (fun b : bool => b) mask = false -> forall i, nth i mask false = false.
Proof.
  induction mask as [|b m IH]; intros H [|i]; simpl in *; auto.
  - destruct b; [discriminate|reflexivity].
  - destruct b; [discriminate|]. apply IH. exact H.
Qed.

Definition dcoord : coord := mkCoord false 0 0 None None.
Lemma coords_length mask d xc lb ub n :
  length mask = n -> length d = n -> length xc = n -> length lb = n -> length ub = n ->
  length (coords mask d xc lb ub) = n.
Proof.
  revert d xc lb ub n. induction mask as [|b m IH]; intros [|a d] [|x xc] [|l lb] [|u ub] n H1 H2 H3 H4 H5;
    simpl in *; try congruence.
  destruct n; [discriminate|]. f_equal. apply IH; congruence.
Qed.
Lemma nth_coords mask d xc lb ub n i :
  length mask = n -> length d = n -> length xc = n -> length lb = n -> length ub = n -> (i < n)%nat ->
  nth i (coords mask d xc lb ub) dcoord
  = mkCoord (nth i mask false) (nth i d 0) (nth i xc 0) (nth i lb None) (nth i ub None).
Proof.
  revert d xc lb ub n i. induction mask as [|b m IH]; intros [|a d] [|x xc] [|l lb] [|u ub] n i H1 H2 H3 H4 H5 Hi;
    simpl in *; try (subst; lia); try congruence.
  destruct i; [reflexivity|]. destruct n; [lia|]. apply (IH d xc lb ub n); try congruence; lia.
Qed.

(* ================= argmin ================= *)
Lemma argmin_none cs : argmin cs = None -> forall i, nth i cs None = None.
Proof.
  induction cs as [|c cs IH]; intros H i; simpl in *.
  - destruct i; reflexivity.
  - destruct (argmin cs) as [[b k]|] eqn:E.
    + destruct c as [a|]; [destruct (Qle_bool a b)|]; discriminate.
    + destruct c as [a|]; [discriminate|]. destruct i; [reflexivity|]. apply IH. reflexivity.
Qed.
Lemma argmin_some cs a k :
  argmin cs = Some (a, k) ->
  nth k cs None = Some a /\ (forall i b, nth i cs None = Some b -> a <= b).
Proof.
  revert a k. induction cs as [|c cs IH]; intros a k H; simpl in *; [discriminate|].
  destruct (argmin cs) as [[b0 k0]|] eqn:E.
  - destruct (IH b0 k0 eq_refl) as [IH1 IH2].
    destruct c as [a0|].
    + destruct (Qle_bool a0 b0) eqn:L; inversion H; subst; clear H.
      * apply Qle_bool_iff in L. split; [reflexivity|]. intros [|i] b Hb; simpl in Hb.
        -- inversion Hb; subst. lra.
        -- specialize (IH2 i b Hb). lra.
      * apply Qle_bool_false in L. split; [exact IH1|]. intros [|i] b Hb; simpl in Hb.
        -- inversion Hb; subst. lra.
        -- exact (IH2 i b Hb).
    + inversion H; subst; clear H. split; [exact IH1|]. intros [|i] b Hb; simpl in Hb; [discriminate|].
      exact (IH2 i b Hb).
  - destruct c as [a0|]; [|discriminate]. inversion H; subst; clear H. split; [reflexivity|].
    intros [|i] b Hb; simpl in Hb.
    + inversion Hb; subst. lra.
    + rewrite (argmin_none cs E i) in Hb. discriminate.
Qed.

(* ================= the step-length / projection stage, for an ARBITRARY reduced direction ================= *)
Section Finish.
  Variables (mask : list bool) (dhat xc : list Q) (lb ub : list bound) (n : nat).
  Hypothesis Hlen_mask : length mask = n.
  Hypothesis Hlen_xc : length xc = n.
  Hypothesis Hlen_lb : length lb = n.
  Hypothesis Hlen_ub : length ub = n.
  Hypothesis Hfeas : feasible xc lb ub.
  (* a free coordinate is strictly inside its bounds *)
  Hypothesis Hstrict : forall i, (i < n)%nat -> nth i mask false = true ->
                                 lb_lt (nth i lb None) (nth i xc 0) /\ ub_lt (nth i xc 0) (nth i ub None).

  Let dfull := scatter mask dhat.
  Let cs := coords mask dfull xc lb ub.
  Let cds := map cand cs.
  Let alpha := fst (alpha_hit cds).
  Let hit := snd (alpha_hit cds).
  Let xbar := map (step alpha) cs.

  Lemma finish_eq : finish mask dhat xc lb ub = (cds, alpha, hit, xbar).
  Proof. reflexivity. Qed.

  Lemma dfull_length : length dfull = n.
  Proof. unfold dfull. rewrite scatter_length. exact Hlen_mask. Qed.
  Lemma cs_length : length cs = n.
  Proof. apply coords_length; auto using dfull_length. Qed.
  Lemma xbar_length : length xbar = n.
  Proof. unfold xbar. rewrite map_length. apply cs_length. Qed.
  Lemma nth_cs i : (i < n)%nat ->
    nth i cs dcoord = mkCoord (nth i mask false) (nth i dfull 0) (nth i xc 0) (nth i lb None) (nth i ub None).
  Proof. intro Hi. apply (nth_coords _ _ _ _ _ n); auto using dfull_length. Qed.
  Lemma nth_cds i : nth i cds None = cand (nth i cs dcoord).
  Proof. unfold cds. change None with (cand dcoord). apply map_nth. Qed.
  Lemma nth_cds_lt i a : nth i cds None = Some a -> (i < n)%nat.
  Proof.
    intro H. destruct (Nat.lt_ge_cases i n) as [Hi|Hi]; [exact Hi|].
    rewrite nth_overflow in H; [discriminate|]. unfold cds. rewrite map_length, cs_length. exact Hi.
  Qed.
  Lemma nth_xbar i : (i < n)%nat ->
    nth i xbar 0 = clip (nth i xc 0 + alpha * nth i dfull 0) (nth i lb None) (nth i ub None).
  Proof.
    intro Hi. unfold xbar. rewrite (nth_indep _ 0 (step alpha dcoord)) by (rewrite map_length, cs_length; exact Hi).
    rewrite map_nth, (nth_cs i Hi). reflexivity.
  Qed.

  (* what a candidate means *)
  Lemma cand_inv i a : nth i cds None = Some a ->
    (i < n)%nat /\ nth i mask false = true /\ ~ nth i dfull 0 == 0 /\
    ((0 < nth i dfull 0 /\ exists u, nth i ub None = Some u /\ a == (u - nth i xc 0) / nth i dfull 0) \/
     (nth i dfull 0 < 0 /\ exists l, nth i lb None = Some l /\ a == (l - nth i xc 0) / nth i dfull 0)).
  Proof.
    intro H. pose proof (nth_cds_lt i a H) as Hi. split; [exact Hi|].
    rewrite nth_cds, (nth_cs i Hi) in H. unfold cand in H; cbn [c_free c_d c_xc c_lb c_ub] in H.
    destruct (nth i mask false); cbn [negb] in H; [|discriminate]. split; [reflexivity|].
    destruct (Qeq_bool (nth i dfull 0) 0) eqn:E0; [discriminate|]. apply Qeq_bool_false in E0. split; [exact E0|].
    destruct (Qltb 0 (nth i dfull 0)) eqn:Ep.
    - apply Qltb_true in Ep. left. split; [exact Ep|].
      destruct (nth i ub None) as [u|]; [|discriminate]. exists u. split; [reflexivity|].
      injection H as <-. apply Qred_correct.
    - apply Qltb_false in Ep. right. split; [lra|].
      destruct (nth i lb None) as [l|]; [|discriminate]. exists l. split; [reflexivity|].
      injection H as <-. apply Qred_correct.
  Qed.

  Lemma cand_pos i a : nth i cds None = Some a -> 0 < a.
  Proof.
    intro H. destruct (cand_inv i a H) as (Hi & Hf & Hd & Hc).
    destruct (Hstrict i Hi Hf) as [Hl Hu].
    destruct Hc as [(Hp & u & Eu & Ea)|(Hp & l & El & Ea)].
    - rewrite Eu in Hu; simpl in Hu. rewrite Ea. apply Qlt_shift_div_l; [exact Hp|]. lra.
    - rewrite El in Hl; simpl in Hl. rewrite Ea.
      setoid_replace ((l - nth i xc 0) / nth i dfull 0) with ((nth i xc 0 - l) / (- nth i dfull 0))
        by (field; lra).
      apply Qlt_shift_div_l; lra.
  Qed.

  (* alpha* is in (0,1] *)
  Lemma alpha_range : 0 < alpha /\ alpha <= 1.
  Proof.
    unfold alpha, alpha_hit. destruct (argmin cds) as [[a k]|] eqn:E; simpl; [|lra].
    destruct (argmin_some cds a k E) as [Hk _]. pose proof (cand_pos k a Hk) as Hpos.
    destruct (Qltb a 1) eqn:L; [apply Qltb_true in L|]; lra.
  Qed.

  (* alpha* is below every candidate ratio *)
  Lemma alpha_le_cand i b : nth i cds None = Some b -> alpha <= b.
  Proof.
    intro H. unfold alpha, alpha_hit. destruct (argmin cds) as [[a k]|] eqn:E; simpl.
    - destruct (argmin_some cds a k E) as [_ Hmin]. specialize (Hmin i b H).
      destruct (Qltb a 1) eqn:L; [lra|]. apply Qltb_false in L. lra.
    - rewrite (argmin_none cds E i) in H. discriminate.
  Qed.

  (* the un-clipped point already lies in the box *)
  Lemma unclipped_in_box i : (i < n)%nat ->
    lb_ok (nth i lb None) (nth i xc 0 + alpha * nth i dfull 0) /\
    ub_ok (nth i xc 0 + alpha * nth i dfull 0) (nth i ub None).
  Proof.
    intro Hi. destruct alpha_range as [Ha0 Ha1].
    assert (Hf : lb_ok (nth i lb None) (nth i xc 0) /\ ub_ok (nth i xc 0) (nth i ub None))
      by (apply Hfeas; rewrite Hlen_xc; exact Hi).
    destruct Hf as [Hl Hu].
    pose proof (nth_cds i) as Hc. rewrite (nth_cs i Hi) in Hc. unfold cand in Hc; cbn [c_free c_d c_xc c_lb c_ub] in Hc.
    destruct (nth i mask false) eqn:Em; cbn [negb] in Hc.
    2:{ unfold dfull. rewrite (nth_scatter_nonfree mask dhat i Em).
        split; [destruct (nth i lb None)|destruct (nth i ub None)]; simpl in *; auto; lra. }
    destruct (Qeq_bool (nth i dfull 0) 0) eqn:E0.
    { apply Qeq_bool_iff in E0. assert (Hz : alpha * nth i dfull 0 == 0) by (rewrite E0; ring).
      split; [destruct (nth i lb None)|destruct (nth i ub None)]; simpl in *; auto; lra. }
    apply Qeq_bool_false in E0.
    destruct (Qltb 0 (nth i dfull 0)) eqn:Ep.
    - apply Qltb_true in Ep. split.
      + destruct (nth i lb None) as [l|]; simpl in *; auto. nra.
      + destruct (nth i ub None) as [u|] eqn:Eu; simpl in *; auto.
        pose proof (alpha_le_cand i _ Hc) as Hle. rewrite Qred_correct in Hle.
        assert (alpha * nth i dfull 0 <= u - nth i xc 0); [|lra].
        apply (Qmult_le_r _ _ (nth i dfull 0)) in Hle; [|exact Ep].
        setoid_replace ((u - nth i xc 0) / nth i dfull 0 * nth i dfull 0) with (u - nth i xc 0) in Hle
          by (field; exact E0).
        exact Hle.
    - apply Qltb_false in Ep. assert (Hn : nth i dfull 0 < 0) by lra. split.
      + destruct (nth i lb None) as [l|] eqn:El; simpl in *; auto.
        pose proof (alpha_le_cand i _ Hc) as Hle. rewrite Qred_correct in Hle.
        assert (l - nth i xc 0 <= alpha * nth i dfull 0); [|lra].
        apply (Qmult_le_r _ _ (- nth i dfull 0)) in Hle; [|lra].
        setoid_replace ((l - nth i xc 0) / nth i dfull 0 * - nth i dfull 0) with (- (l - nth i xc 0)) in Hle
          by (field; exact E0).
        lra.
      + destruct (nth i ub None) as [u|]; simpl in *; auto. nra.
  Qed.

  (* the final np.clip is the identity in exact arithmetic *)
  Lemma finish_clip_noop i : (i < n)%nat -> nth i xbar 0 == nth i xc 0 + alpha * nth i dfull 0.
  Proof.
    intro Hi. rewrite (nth_xbar i Hi). destruct (unclipped_in_box i Hi) as [Hl Hu].
    rewrite clip_id; [reflexivity|exact Hl|exact Hu].
  Qed.

  Lemma finish_fixed i : (i < n)%nat -> nth i mask false = false -> nth i xbar 0 == nth i xc 0.
  Proof.
    intros Hi Em. rewrite (finish_clip_noop i Hi). unfold dfull. rewrite (nth_scatter_nonfree mask dhat i Em). lra.
  Qed.

  Lemma finish_feasible : feasible xbar lb ub.
  Proof.
    intros i Hi. rewrite xbar_length in Hi. destruct (unclipped_in_box i Hi) as [Hl Hu].
    pose proof (finish_clip_noop i Hi) as E.
    split; [destruct (nth i lb None)|destruct (nth i ub None)]; simpl in *; auto; rewrite E; assumption.
  Qed.

  (* the coordinate that stops the step sits exactly on its bound *)
  Lemma finish_hit :
    (hit = None /\ alpha = 1 /\ forall i b, nth i cds None = Some b -> 1 < b) \/
    (exists k, hit = Some k /\ (k < n)%nat /\ nth k mask false = true /\
       ((exists u, 0 < nth k dfull 0 /\ nth k ub None = Some u /\ nth k xc 0 + alpha * nth k dfull 0 == u) \/
        (exists l, nth k dfull 0 < 0 /\ nth k lb None = Some l /\ nth k xc 0 + alpha * nth k dfull 0 == l))).
  Proof.
    unfold hit, alpha, alpha_hit. destruct (argmin cds) as [[a k]|] eqn:E; simpl.
    2:{ left. split; [reflexivity|]. split; [reflexivity|]. intros i b Hb.
        rewrite (argmin_none cds E i) in Hb. discriminate. }
    destruct (argmin_some cds a k E) as [Hk Hmin].
    destruct (Qle_bool a 1) eqn:L1.
    - apply Qle_bool_iff in L1. right. exists k. split; [reflexivity|].
      destruct (cand_inv k a Hk) as (Hi & Hf & Hd & Hc). split; [exact Hi|]. split; [exact Hf|].
      assert (Ea : (if Qltb a 1 then a else 1) == a).
      { destruct (Qltb a 1) eqn:L; [reflexivity|]. apply Qltb_false in L. lra. }
      destruct Hc as [(Hp & u & Eu & Eq)|(Hp & l & El & Eq)].
      + left. exists u. split; [exact Hp|]. split; [exact Eu|]. rewrite Ea, Eq. field. exact Hd.
      + right. exists l. split; [exact Hp|]. split; [exact El|]. rewrite Ea, Eq. field. exact Hd.
    - apply Qle_bool_false in L1. left. split; [reflexivity|].
      assert (L : Qltb a 1 = false) by (apply Qltb_false; lra). rewrite L. split; [reflexivity|].
      intros i b Hb. specialize (Hmin i b Hb). lra.
  Qed.

  (* alpha* is the largest factor <= 1 keeping the point in the box *)
  Lemma finish_maximal beta : alpha < beta -> beta <= 1 ->
    ~ feasible (map2 (fun x d => x + beta * d) xc dfull) lb ub.
  Proof.
    intros Hab Hb1 Hfe. destruct finish_hit as [(_ & Ha & _)|(k & _ & Hk & _ & Hc)].
    - rewrite Ha in Hab. lra.
    - assert (Hlen : length (map2 (fun x d => x + beta * d) xc dfull) = n)
        by (apply map2_length; auto using dfull_length).
      specialize (Hfe k). rewrite Hlen in Hfe. specialize (Hfe Hk).
      assert (En : nth k (map2 (fun x d => x + beta * d) xc dfull) 0 = nth k xc 0 + beta * nth k dfull 0).
      { apply (nth_map2 (fun x d => x + beta * d) xc dfull n k 0 0 0); auto using dfull_length. }
      rewrite En in Hfe. destruct Hfe as [Hl Hu].
      destruct Hc as [(u & Hp & Eu & Eq)|(l & Hp & El & Eq)].
      + rewrite Eu in Hu; simpl in Hu. nra.
      + rewrite El in Hl; simpl in Hl. nra.
  Qed.
End Finish.

(* ================= vector algebra on lists, up to Qeq ================= *)
Definition veq (u w : list Q) : Prop := Forall2 Qeq u w.
Lemma veq_refl u : veq u u.
Proof. induction u; constructor; auto. reflexivity. Qed.
Lemma veq_sym u w : veq u w -> veq w u.
Proof. induction 1; constructor; auto. symmetry; assumption. Qed.
Lemma veq_trans u w z : veq u w -> veq w z -> veq u z.
Proof.
  intros H. revert z. induction H as [|x y u w Hxy H IH]; intros z Hz; inversion Hz; subst; constructor.
  - etransitivity; eassumption.
  - apply IH. assumption.
Qed.
Lemma veq_length u w : veq u w -> length u = length w.
Proof. induction 1; simpl; congruence. Qed.
Lemma veq_nth u w : veq u w -> forall i, nth i u 0 == nth i w 0.
Proof. induction 1; intros [|i]; simpl; auto; reflexivity. Qed.
Lemma veq_intro u w :
  length u = length w -> (forall i, (i < length u)%nat -> nth i u 0 == nth i w 0) -> veq u w.
Proof.
  revert w. induction u as [|a u IH]; intros [|b w] Hl Hn; simpl in *; try discriminate; constructor.
  - apply (Hn O). lia.
  - apply IH; [congruence|]. intros i Hi. apply (Hn (S i)). lia.
Qed.
Lemma veq_bool_sound u w : veq_bool u w = true -> veq u w.
Proof.
  unfold veq_bool. rewrite andb_true_iff, Nat.eqb_eq. intros [Hl Hf]. revert w Hl Hf.
  induction u as [|a u IH]; intros [|b w] Hl Hf; simpl in *; try discriminate; constructor.
  - apply andb_true_iff in Hf. apply Qeq_bool_iff. apply Hf.
  - apply andb_true_iff in Hf. apply IH; [congruence|apply Hf].
Qed.

Lemma qadd_same_den (na nb : Z) (d : positive) : (na + nb) # d == (na # d) + (nb # d).
Proof. unfold Qeq, Qplus. simpl. rewrite Pos2Z.inj_mul. ring. Qed.
Lemma qadd_correct a b : qadd a b == a + b.
Proof.
  assert (Hz : forall c : Q, Qnum c = 0%Z -> c == 0) by (intros c Hc; unfold Qeq; rewrite Hc; reflexivity).
  unfold qadd. destruct (Qnum a) eqn:Ea.
  - rewrite (Hz a Ea). ring.
  - destruct (Qnum b) eqn:Eb.
    + rewrite (Hz b Eb). ring.
    + destruct (Pos.eqb (Qden a) (Qden b)) eqn:E; [|apply Qred_correct]. apply Pos.eqb_eq in E.
      destruct a as [na da], b as [nb db]; cbn [Qnum Qden] in *. subst. apply qadd_same_den.
    + destruct (Pos.eqb (Qden a) (Qden b)) eqn:E; [|apply Qred_correct]. apply Pos.eqb_eq in E.
      destruct a as [na da], b as [nb db]; cbn [Qnum Qden] in *. subst. apply qadd_same_den.
  - destruct (Qnum b) eqn:Eb.
    + rewrite (Hz b Eb). ring.
    + destruct (Pos.eqb (Qden a) (Qden b)) eqn:E; [|apply Qred_correct]. apply Pos.eqb_eq in E.
      destruct a as [na da], b as [nb db]; cbn [Qnum Qden] in *. subst. apply qadd_same_den.
    + destruct (Pos.eqb (Qden a) (Qden b)) eqn:E; [|apply Qred_correct]. apply Pos.eqb_eq in E.
      destruct a as [na da], b as [nb db]; cbn [Qnum Qden] in *. subst. apply qadd_same_den.
Qed.
Lemma qaddv_correct a b : qaddv a b == a + b.
Proof.
  unfold qaddv. destruct (Pos.eqb (Qden a) (Qden b)) eqn:E; [|reflexivity]. apply Pos.eqb_eq in E.
  destruct a as [na da], b as [nb db]; cbn [Qnum Qden] in *. subst. apply qadd_same_den.
Qed.
Lemma dot_raw_cons a u b w : dot_raw (a :: u) (b :: w) == a * b + dot_raw u w.
Proof. simpl. apply qadd_correct. Qed.
Local Opaque qadd qaddv.
Lemma vadd_length u w n : length u = n -> length w = n -> length (vadd u w) = n.
Proof. apply map2_length. Qed.
Lemma vscale_length c u : length (vscale c u) = length u.
Proof. apply map_length. Qed.
Lemma mv_length R u : length (mv R u) = length R.
Proof. apply map_length. Qed.
Lemma nth_vadd u w i : length u = length w -> nth i (vadd u w) 0 == nth i u 0 + nth i w 0.
Proof.
  revert w i. induction u as [|a u IH]; intros [|b w] i Hl; simpl in *; try discriminate.
  - destruct i; simpl; lra.
  - destruct i; simpl; [apply qaddv_correct|]. apply IH. congruence.
Qed.
Lemma nth_vscale c u i : nth i (vscale c u) 0 == c * nth i u 0.
Proof.
  revert i. induction u as [|a u IH]; intros [|i]; simpl; try lra. apply IH.
Qed.
Lemma nth_mv R u i : nth i (mv R u) 0 == dot_raw (nth i R []) u.
Proof.
  revert i. induction R as [|row R IH]; intros [|i]; simpl; try reflexivity. apply IH.
Qed.

Lemma dot_raw_compat_r a u w : veq u w -> dot_raw a u == dot_raw a w.
Proof.
  intro H. revert a. induction H as [|x y u w Hxy H IH]; intros [|a0 a]; simpl; try reflexivity.
  rewrite !qadd_correct, Hxy, (IH a). reflexivity.
Qed.
Lemma dot_raw_compat_l u w a : veq u w -> dot_raw u a == dot_raw w a.
Proof.
  intro H. revert a. induction H as [|x y u w Hxy H IH]; intros [|a0 a]; simpl; try reflexivity.
  rewrite !qadd_correct, Hxy, (IH a). reflexivity.
Qed.
Lemma dot_raw_vadd_r a u w : length u = length w -> dot_raw a (vadd u w) == dot_raw a u + dot_raw a w.
Proof.
  revert u w. induction a as [|a0 a IH]; intros [|x u] [|y w] Hl; simpl in *; try discriminate; try lra.
  rewrite !qadd_correct, qaddv_correct. fold (vadd u w). rewrite (IH u w) by congruence. ring.
Qed.
Lemma dot_raw_vscale_r a c u : dot_raw a (vscale c u) == c * dot_raw a u.
Proof.
  revert u. induction a as [|a0 a IH]; intros [|x u]; simpl; try lra.
  rewrite !qadd_correct, (IH u). ring.
Qed.
Lemma dot_raw_vscale_l c u a : dot_raw (vscale c u) a == c * dot_raw u a.
Proof.
  revert a. induction u as [|x u IH]; intros [|a0 a]; simpl; try lra.
  rewrite !qadd_correct, (IH a). ring.
Qed.
Lemma mv_compat R u w : veq u w -> veq (mv R u) (mv R w).
Proof.
  intro H. induction R as [|row R IH]; simpl; constructor; [|exact IH].
  unfold dot. apply dot_raw_compat_r. exact H.
Qed.
Lemma vscale_compat c u w : veq u w -> veq (vscale c u) (vscale c w).
Proof.
  induction 1 as [|x y u w Hxy H IH]; simpl; constructor; [|exact IH].
  rewrite Hxy. reflexivity.
Qed.
(* linearity of the matrix-vector product in the shape used by the source *)
Lemma mv_lin R c e u w : length u = length w ->
  veq (mv R (vscale c (vadd u (vscale e w)))) (vscale c (vadd (mv R u) (vscale e (mv R w)))).
Proof.
  intro Hl. apply veq_intro.
  - rewrite mv_length, vscale_length. symmetry. apply vadd_length; rewrite ?vscale_length, ?mv_length; reflexivity.
  - intros i _. rewrite nth_mv, nth_vscale, nth_vadd by (rewrite vscale_length, !mv_length; reflexivity).
    rewrite nth_vscale, !nth_mv, dot_raw_vscale_r, dot_raw_vadd_r by (rewrite vscale_length; exact Hl).
    rewrite dot_raw_vscale_r. reflexivity.
Qed.

(* ================= the checked certificate gives the exact reduced Newton direction ================= *)
(* P = Z^T W (t x 2m), A = (2m x t); nothing about P = A^T is needed for the identity *)
Lemma newton_from_cert th M A P rhat v :
  ~ th == 0 -> length rhat = length P ->
  cert th M A P rhat v = true ->
  veq (Hmul th M A P (dhat_of th P rhat v)) (vscale (-(1)) rhat).
Proof.
  intros Hth Hlen Hc. unfold cert in Hc. apply andb_true_iff in Hc. destruct Hc as [Hlv Hc].
  apply Nat.eqb_eq in Hlv. apply veq_bool_sound in Hc.
  set (a := 1 / th) in *. set (pv := mv P v) in *.
  set (w1 := mv M (mv A rhat)) in *. set (w2 := mv M (mv A pv)) in *.
  assert (Lw1 : length w1 = length M) by apply mv_length.
  assert (Lw2 : length w2 = length M) by apply mv_length.
  (* from the certificate: w1 + a w2 == v *)
  assert (Ev : veq (vadd w1 (vscale a w2)) v).
  { apply veq_intro.
    - rewrite (vadd_length w1 (vscale a w2) (length M)); rewrite ?vscale_length; auto.
    - intros i _. rewrite nth_vadd, nth_vscale by (rewrite vscale_length; congruence).
      pose proof (veq_nth _ _ Hc i) as Hi. rewrite nth_vadd, nth_vscale in Hi by (rewrite vscale_length; congruence).
      lra. }
  assert (Emq : veq (mv M (mv A (dhat_of th P rhat v))) (vscale (- a) v)).
  { unfold dhat_of. fold a. fold pv.
    eapply veq_trans; [apply mv_compat; apply mv_lin; unfold pv; rewrite mv_length; exact Hlen|].
    eapply veq_trans; [apply mv_lin; rewrite !mv_length; reflexivity|].
    apply vscale_compat. exact Ev. }
  assert (Ldh : length (dhat_of th P rhat v) = length P).
  { unfold dhat_of. rewrite vscale_length. apply vadd_length; [exact Hlen|]. rewrite vscale_length. apply mv_length. }
  unfold Hmul. apply veq_intro.
  - rewrite vscale_length. rewrite (vadd_length _ _ (length P)); rewrite ?vscale_length, ?mv_length; auto.
  - intros i _. rewrite nth_vadd by (rewrite !vscale_length, mv_length; exact Ldh).
    rewrite !nth_vscale, nth_mv. rewrite (dot_raw_compat_r _ _ _ Emq), dot_raw_vscale_r.
    unfold dhat_of. fold a. rewrite nth_vscale, nth_vadd by (rewrite vscale_length, mv_length; exact Hlen).
    rewrite nth_vscale. unfold pv. rewrite nth_mv. unfold a. field. exact Hth.
Qed.

(* ================= the model as a whole ================= *)
(* all n-vectors of the input have length n (W has n rows) *)
Definition wf (inp : input) (n : nat) : Prop :=
  length (i_x inp) = n /\ length (i_xc inp) = n /\ length (i_g inp) = n /\
  length (i_lb inp) = n /\ length (i_ub inp) = n /\ length (i_W inp) = n.
(* Z d of the output: the reduced direction placed on the free coordinates *)
Definition o_dfull (o : output) : list Q := scatter (o_free o) (o_dhat o).

Lemma existsb_id_true mask : existsb (fun b : bool => b) mask = true -> exists i, nth i mask false = true.
Proof.
  induction mask as [|b m IH]; simpl; [discriminate|]. destruct b; simpl.
  - intros _. exists O. reflexivity.
  - intro H. destruct (IH H) as [i Hi]. exists (S i). exact Hi.
Qed.
Lemma gather_length_eq {A B} mask (u : list A) (w : list B) :
  length u = length mask -> length w = length mask -> length (gather mask u) = length (gather mask w).
Proof.
  revert u w. induction mask as [|b m IH]; intros [|a u] [|c w] Hu Hw; simpl in *; try discriminate; auto.
  destruct b; simpl; [f_equal|]; apply IH; congruence.
Qed.
Lemma gather_none_free {A} mask (u : list A) : existsb (fun b : bool => b) mask = false -> gather mask u = [].
Proof.
  revert u. induction mask as [|b m IH]; intros [|a u] H; simpl in *; auto.
  destruct b; [discriminate|]. apply IH. exact H.
Qed.
Lemma rvec_length inp n : wf inp n -> length (rvec inp) = n.
Proof.
  intros (Hx & Hxc & Hg & _ & _ & HW). unfold rvec.
  apply map2_length; [apply map2_length; [exact Hg|apply map2_length; assumption]|].
  rewrite mv_length. exact HW.
Qed.

(* inversion of a successful run *)
Lemma subspace_ok_inv hint inp o : subspace_gen hint inp = SOk o ->
  let mask := free_mask (i_xc inp) (i_lb inp) (i_ub inp) in
  (existsb (fun b => b) mask = false /\ o = mkOutput mask [] [] [] [] 1 None (i_xc inp)) \/
  (existsb (fun b => b) mask = true /\
   exists v,
     let th := i_theta inp in
     let ZtW := gather mask (i_W inp) in
     let A := transpose (length (i_M inp)) ZtW in
     let rhat := gather mask (rvec inp) in
     let dhat := dhat_of th ZtW rhat v in
     let cs := coords mask (scatter mask dhat) (i_xc inp) (i_lb inp) (i_ub inp) in
     cert th (i_M inp) A ZtW rhat v = true /\
     o = mkOutput mask rhat v dhat (map cand cs) (fst (alpha_hit (map cand cs))) (snd (alpha_hit (map cand cs)))
                  (map (step (fst (alpha_hit (map cand cs)))) cs)).
Proof.
  intros H mask. unfold subspace_gen in H. fold mask in H.
  destruct (existsb (fun b => b) mask) eqn:E; simpl in H.
  - right. split; [reflexivity|].
    match type of H with match ?s with _ => _ end = _ => destruct s as [v|] eqn:Es end; [|discriminate].
    match type of H with (if ?c then _ else _) = _ => destruct c eqn:Ec end; [|discriminate].
    exists v. split; [exact Ec|]. unfold finish in H. inversion H. reflexivity.
  - left. split; [reflexivity|]. inversion H. reflexivity.
Qed.

Section Model.
  Variables (hint : option (list Q)) (inp : input) (o : output) (n : nat).
  Hypothesis Hrun : subspace_gen hint inp = SOk o.
  Hypothesis Hwf : wf inp n.
  Hypothesis Hfeas : feasible (i_xc inp) (i_lb inp) (i_ub inp).
  Let xc := i_xc inp.
  Let lb := i_lb inp.
  Let ub := i_ub inp.

  Lemma o_free_eq : o_free o = free_mask xc lb ub.
  Proof.
    destruct (subspace_ok_inv hint inp o Hrun) as [(_ & ->)|(_ & v & _ & ->)]; reflexivity.
  Qed.
  Lemma o_free_length : length (o_free o) = n.
  Proof. rewrite o_free_eq. destruct Hwf as (_ & ? & _ & ? & ? & _). apply free_mask_length; assumption. Qed.

  (* the free set of get_freev is {i | lb_i < x_cp[i] < ub_i} on a feasible Cauchy point *)
  Theorem sub_free_set i : (i < n)%nat ->
    (nth i (o_free o) false = true <-> lb_lt (nth i lb None) (nth i xc 0) /\ ub_lt (nth i xc 0) (nth i ub None)).
  Proof.
    intro Hi. destruct Hwf as (_ & Hxc & _ & Hlb & Hub & _). rewrite o_free_eq.
    unfold xc, lb, ub. rewrite nth_free_mask by congruence.
    apply is_free_strict; apply Hfeas; rewrite Hxc; exact Hi.
  Qed.

  (* everything the later statements need, in one place *)
  Lemma model_spec :
    length (o_xbar o) = n /\
    (0 < o_alpha o /\ o_alpha o <= 1) /\
    (forall i, (i < n)%nat -> nth i (o_xbar o) 0 == nth i xc 0 + o_alpha o * nth i (o_dfull o) 0) /\
    (forall i, (i < n)%nat -> nth i (o_free o) false = false -> nth i (o_dfull o) 0 = 0) /\
    feasible (o_xbar o) lb ub /\
    ((o_hit o = None /\ o_alpha o = 1 /\ forall i b, nth i (o_cands o) None = Some b -> 1 < b) \/
     (exists k, o_hit o = Some k /\ (k < n)%nat /\ nth k (o_free o) false = true /\
        ((exists u, 0 < nth k (o_dfull o) 0 /\ nth k ub None = Some u /\
                    nth k xc 0 + o_alpha o * nth k (o_dfull o) 0 == u) \/
         (exists l, nth k (o_dfull o) 0 < 0 /\ nth k lb None = Some l /\
                    nth k xc 0 + o_alpha o * nth k (o_dfull o) 0 == l)))) /\
    (forall beta, o_alpha o < beta -> beta <= 1 ->
                  ~ feasible (map2 (fun x d => x + beta * d) xc (o_dfull o)) lb ub).
  Proof.
    pose proof o_free_length as Hml. pose proof sub_free_set as Hfs.
    destruct Hwf as (_ & Hxc & _ & Hlb & Hub & _).
    destruct (subspace_ok_inv hint inp o Hrun) as [(Hex & Ho)|(Hex & v & Hcert & Ho)].
    - (* no free variable: early return *)
      rewrite Ho in *. unfold o_dfull. cbn [o_free o_dhat o_xbar o_alpha o_hit o_cands] in *.
      split; [exact Hxc|]. split; [lra|]. split.
      { intros i _. rewrite scatter_nil_zero. fold xc. ring. }
      split. { intros i _ _. apply scatter_nil_zero. }
      split; [exact Hfeas|]. split.
      { left. split; [reflexivity|]. split; [reflexivity|]. intros [|i] b Hb; discriminate. }
      intros beta H1 H2. lra.
    - rewrite Ho in *. unfold o_dfull. cbn [o_free o_dhat o_xbar o_alpha o_hit o_cands] in *.
      set (mask := free_mask (i_xc inp) (i_lb inp) (i_ub inp)) in *.
      set (dhat := dhat_of _ _ _ v) in *.
      assert (Hstrict : forall i, (i < n)%nat -> nth i mask false = true ->
                lb_lt (nth i lb None) (nth i xc 0) /\ ub_lt (nth i xc 0) (nth i ub None)).
      { intros i Hi Hm. apply Hfs; assumption. }
      split; [apply (xbar_length mask dhat xc lb ub n); assumption|].
      split; [apply (alpha_range mask dhat xc lb ub n); assumption|].
      split; [intros i Hi; apply (finish_clip_noop mask dhat xc lb ub n); assumption|].
      split; [intros i _ Hm; apply nth_scatter_nonfree; exact Hm|].
      split; [apply (finish_feasible mask dhat xc lb ub n); assumption|].
      split; [apply (finish_hit mask dhat xc lb ub n); assumption|].
      intros beta. apply (finish_maximal mask dhat xc lb ub n); assumption.
  Qed.

  (* ---- sub_fixed ---- *)
  Theorem sub_fixed i : (i < n)%nat -> nth i (o_free o) false = false -> nth i (o_xbar o) 0 == nth i xc 0.
  Proof.
    intros Hi Hm. destruct model_spec as (_ & _ & Hx & Hd & _). rewrite (Hx i Hi), (Hd i Hi Hm). ring.
  Qed.

  (* ---- sub_feasible_maximal ---- *)
  Theorem sub_feasible_maximal :
    feasible (o_xbar o) lb ub /\
    (0 < o_alpha o /\ o_alpha o <= 1) /\
    (* the final clip does nothing: x_bar = x_cp + alpha* Z d_hat *)
    (forall i, (i < n)%nat -> nth i (o_xbar o) 0 == nth i xc 0 + o_alpha o * nth i (o_dfull o) 0) /\
    (* alpha* = 1, or the reported free coordinate sits exactly on the bound it moves towards *)
    ((o_hit o = None /\ o_alpha o = 1) \/
     (exists k, o_hit o = Some k /\ (k < n)%nat /\ nth k (o_free o) false = true /\
        ((exists u, 0 < nth k (o_dfull o) 0 /\ nth k ub None = Some u /\ nth k (o_xbar o) 0 == u) \/
         (exists l, nth k (o_dfull o) 0 < 0 /\ nth k lb None = Some l /\ nth k (o_xbar o) 0 == l)))) /\
    (* alpha* is the largest factor <= 1 that keeps the point in the box *)
    (forall beta, o_alpha o < beta -> beta <= 1 ->
                  ~ feasible (map2 (fun x d => x + beta * d) xc (o_dfull o)) lb ub).
  Proof.
    destruct model_spec as (_ & Ha & Hx & _ & Hf & Hh & Hm).
    split; [exact Hf|]. split; [exact Ha|]. split; [exact Hx|]. split; [|exact Hm].
    destruct Hh as [(H1 & H2 & _)|(k & H1 & Hk & Hfk & Hc)].
    - left. split; assumption.
    - right. exists k. split; [exact H1|]. split; [exact Hk|]. split; [exact Hfk|].
      destruct Hc as [(u & Hp & Eu & Eq)|(l & Hp & El & Eq)].
      + left. exists u. split; [exact Hp|]. split; [exact Eu|]. rewrite (Hx k Hk). exact Eq.
      + right. exists l. split; [exact Hp|]. split; [exact El|]. rewrite (Hx k Hk). exact Eq.
  Qed.
End Model.

(* no free variable: the subspace step returns the Cauchy point itself (Leibniz equality, no hypothesis) *)
Theorem sub_fixed_all hint inp o :
  subspace_gen hint inp = SOk o -> (forall i, nth i (o_free o) false = false) -> o_xbar o = i_xc inp.
Proof.
  intros Hrun Hall. destruct (subspace_ok_inv hint inp o Hrun) as [(_ & ->)|(Hex & v & _ & Ho)]; [reflexivity|].
  destruct (existsb_id_true _ Hex) as [i Hi]. rewrite Ho in Hall. cbn [o_free] in Hall. rewrite Hall in Hi. discriminate.
Qed.

(* ---- the direction of a successful run is the exact reduced Newton direction: H d_hat == - r_hat ---- *)
Theorem sub_newton_exact hint inp o n :
  subspace_gen hint inp = SOk o -> wf inp n -> ~ i_theta inp == 0 ->
  let ZtW := gather (o_free o) (i_W inp) in
  let A := transpose (length (i_M inp)) ZtW in
  o_rhat o = gather (o_free o) (rvec inp) /\
  veq (Hmul (i_theta inp) (i_M inp) A ZtW (o_dhat o)) (vscale (-(1)) (o_rhat o)).
Proof.
  intros Hrun Hwf Hth. pose proof (rvec_length inp n Hwf) as Hr.
  destruct (subspace_ok_inv hint inp o Hrun) as [(Hex & ->)|(Hex & v & Hcert & ->)]; cbn [o_free o_rhat o_dhat].
  - split.
    + symmetry. apply gather_none_free. exact Hex.
    + unfold Hmul. simpl. constructor.
  - split; [reflexivity|].
    apply newton_from_cert; [exact Hth| |exact Hcert].
    destruct Hwf as (_ & Hxc & _ & Hlb & Hub & HW).
    apply gather_length_eq; rewrite (free_mask_length _ _ _ n); congruence.
Qed.

(* ================= the model value does not increase ================= *)
(* abstract: a space V with a bilinear pairing into Q; only what the argument uses is assumed.
   (H symmetric is not needed for this statement.) *)
Section DecreaseAbstract.
  Variables (V : Type) (veqV : V -> V -> Prop) (dotV : V -> V -> Q) (HV : V -> V) (oppV : V -> V).
  Hypothesis dot_compat_l : forall a b c, veqV a b -> dotV a c == dotV b c.
  Hypothesis dot_opp_l : forall a c, dotV (oppV a) c == - dotV a c.
  Variables r d : V.
  Hypothesis newton : veqV (HV d) (oppV r).           (* H d = - r *)
  Hypothesis psd : 0 <= dotV (HV d) d.                (* d^T H d >= 0 *)
  (* q(alpha) = m(x_cp + alpha Z d) - m(x_cp) = alpha r.d + alpha^2/2 d^T H d *)
  Definition qmodel (alpha : Q) : Q := alpha * dotV r d + alpha * alpha / 2 * dotV (HV d) d.

  Lemma decrease_rd : dotV r d == - dotV (HV d) d /\ dotV r d <= 0.
  Proof.
    pose proof (dot_compat_l _ _ d newton) as E. rewrite dot_opp_l in E. split; lra.
  Qed.
  Theorem sub_decrease_cond alpha : 0 <= alpha -> alpha <= 2 -> qmodel alpha <= 0.
  Proof.
    intros H0 H2. unfold qmodel. destruct decrease_rd as [E _]. rewrite E.
    set (kappa := dotV (HV d) d) in *. clearbody kappa.
    assert (alpha * - kappa + alpha * alpha / 2 * kappa == - ((1#2) * (kappa * (alpha * (2 - alpha))))) as -> by field.
    assert (0 <= kappa * (alpha * (2 - alpha))) by (apply Qmult_le_0_compat; [exact psd|apply Qmult_le_0_compat; lra]).
    set (p := kappa * (alpha * (2 - alpha))) in *. clearbody p. lra.
  Qed.
  Theorem sub_decrease_strict alpha : 0 < dotV (HV d) d -> 0 < alpha -> alpha < 2 -> qmodel alpha < 0.
  Proof.
    intros Hk H0 H2. unfold qmodel. destruct decrease_rd as [E _]. rewrite E.
    set (kappa := dotV (HV d) d) in *. clearbody kappa.
    assert (alpha * - kappa + alpha * alpha / 2 * kappa == - ((1#2) * (kappa * (alpha * (2 - alpha))))) as -> by field.
    assert (0 < kappa * (alpha * (2 - alpha))) by (apply Qmult_lt_0_compat; [exact Hk|apply Qmult_lt_0_compat; lra]).
    set (p := kappa * (alpha * (2 - alpha))) in *. clearbody p. lra.
  Qed.
End DecreaseAbstract.

(* on the model: with kappa = d_hat . (H d_hat) >= 0 (H = Z^T B Z positive semi-definite, which is what the
   positive-curvature updates of C10 provide), the quadratic model does not increase along the step actually taken *)
Theorem sub_model_decrease hint inp o n :
  subspace_gen hint inp = SOk o -> wf inp n -> feasible (i_xc inp) (i_lb inp) (i_ub inp) -> ~ i_theta inp == 0 ->
  let ZtW := gather (o_free o) (i_W inp) in
  let A := transpose (length (i_M inp)) ZtW in
  let Hd := Hmul (i_theta inp) (i_M inp) A ZtW (o_dhat o) in
  let kappa := dot_raw Hd (o_dhat o) in
  let rd := dot_raw (o_rhat o) (o_dhat o) in
  0 <= kappa ->
  rd == - kappa /\ rd <= 0 /\ o_alpha o * rd + o_alpha o * o_alpha o / 2 * kappa <= 0.
Proof.
  intros Hrun Hwf Hfeas Hth ZtW A Hd kappa rd Hk.
  destruct (sub_newton_exact hint inp o n Hrun Hwf Hth) as [_ Hn]. fold ZtW A in Hn.
  destruct (model_spec hint inp o n Hrun Hwf Hfeas) as (_ & [Ha0 Ha1] & _).
  pose (HV := Hmul (i_theta inp) (i_M inp) A ZtW).
  assert (Hopp : forall a c, dot_raw (vscale (-(1)) a) c == - dot_raw a c)
    by (intros a c; rewrite dot_raw_vscale_l; ring).
  destruct (decrease_rd (list Q) veq dot_raw HV (vscale (-(1))) dot_raw_compat_l Hopp (o_rhat o) (o_dhat o) Hn Hk)
    as [E1 E2].
  split; [exact E1|]. split; [exact E2|].
  apply (sub_decrease_cond (list Q) veq dot_raw HV (vscale (-(1))) dot_raw_compat_l Hopp (o_rhat o) (o_dhat o) Hn Hk);
    lra.
Qed.

(* ================= descent ================= *)
(* FULL STATEMENT (NOT PROVED HERE, see descent_partial):
     for the model's x_bar, B = theta I - W M W^T positive definite, c = W^T (x_cp - x), M symmetric,
     projected gradient at x non-zero  ->  g . (x_bar - x) < 0.
   Missing: (a) m(x_cp) < m(x) = 0 when the projected gradient is non-zero: this is the Cauchy-point property (C08);
            (b) the list-level expansion m(x_cp + alpha Z d) - m(x_cp) = qmodel alpha, which needs M symmetric and
                c = W^T (x_cp - x) exactly (in the code c is accumulated in floating point by the Cauchy routine);
            (c) positive definiteness of B (C10).
   What is proved: the scalar argument that combines them. *)
Section DescentAbstract.
  (* gd = g.(x_bar - x) ; dBd = (x_bar - x)^T B (x_bar - x) ; m_cp = m(x_cp) ; q = m(x_bar) - m(x_cp) *)
  Variables gd dBd m_cp q : Q.
  Hypothesis B_psd : 0 <= dBd.
  Hypothesis cauchy_decrease : m_cp < 0.
  Hypothesis sub_decrease : q <= 0.
  Hypothesis model_value : gd + (1#2) * dBd == m_cp + q.     (* m(x_bar) written both ways *)
  Theorem descent_partial : gd < 0.
  Proof. lra. Qed.
End DescentAbstract.

(* ================= non-vacuity: the theorems applied to concrete inputs (vm_compute) ================= *)
Fixpoint feasible_b (x : list Q) (lb ub : list bound) : bool :=
  match x, lb, ub with
  | [], _, _ => true
  | a :: x', l :: lb', u :: ub' =>
      match l with Some l' => Qle_bool l' a | None => true end &&
      match u with Some u' => Qle_bool a u' | None => true end && feasible_b x' lb' ub'
  | _, _, _ => false
  end.
Lemma feasible_b_sound x lb ub : feasible_b x lb ub = true -> feasible x lb ub.
Proof.
  revert lb ub. induction x as [|a x IH]; intros lb ub H i Hi; simpl in *; [lia|].
  destruct lb as [|l lb], ub as [|u ub]; try discriminate.
  apply andb_true_iff in H. destruct H as [H H3]. apply andb_true_iff in H. destruct H as [H1 H2].
  destruct i; simpl.
  - split; [destruct l|destruct u]; simpl; auto; apply Qle_bool_iff; assumption.
  - apply IH; [exact H3|lia].
Qed.

Module Ex.
  (* one correction pair s = (1,0,1), y = (2,0,1): theta = 5/3, W = [Y, theta S], M = inverse of [[-3,0],[0,10/3]] *)
  Definition W1 : list (list Q) := [[2; 5#3]; [0; 0]; [1; 5#3]].
  Definition M1 : list (list Q) := [[-(1#3); 0]; [0; 3#10]].
  (* x = 0, x_cp = (0, 1/2, 1), c = W^T (x_cp - x); coordinate 0 is on its lower bound *)
  Definition inp_a := mkInput [0;0;0] [0;1#2;1] [1;-(1);-(2)] [Some 0; Some (-(1)); Some (-(4))] [Some 1; None; Some 4]
                              (5#3) W1 M1 [1; 5#3].
  (* same with tight upper bounds: the step is truncated *)
  Definition inp_b := mkInput [0;0;0] [0;1#2;1] [1;-(1);-(2)] [Some 0; Some (-(1)); Some (-(4))] [Some 1; Some (3#4); Some (5#4)]
                              (5#3) W1 M1 [1; 5#3].
  (* every coordinate on a bound *)
  Definition inp_c := mkInput [0;0;0] [0;1;1] [1;-(1);-(2)] [Some 0; Some (-(1)); Some (-(4))] [Some 1; Some 1; Some 1]
                              (5#3) W1 M1 [1; 10#3].
  Definition dummy := mkOutput [] [] [] [] [] 0 None [].
  Definition out_of (inp : input) : output := match subspace inp with SOk o => o | _ => dummy end.
  Definition out_a := out_of inp_a.
  Definition out_b := out_of inp_b.
  Definition out_c := out_of inp_c.
  Lemma run_a : subspace inp_a = SOk out_a. Proof. vm_compute. reflexivity. Qed.
  Lemma run_b : subspace inp_b = SOk out_b. Proof. vm_compute. reflexivity. Qed.
  Lemma run_c : subspace inp_c = SOk out_c. Proof. vm_compute. reflexivity. Qed.
  Lemma wf_a : wf inp_a 3. Proof. repeat split. Qed.
  Lemma wf_b : wf inp_b 3. Proof. repeat split. Qed.
  Lemma wf_c : wf inp_c 3. Proof. repeat split. Qed.
  Lemma feas_a : feasible (i_xc inp_a) (i_lb inp_a) (i_ub inp_a). Proof. apply feasible_b_sound. vm_compute. reflexivity. Qed.
  Lemma feas_b : feasible (i_xc inp_b) (i_lb inp_b) (i_ub inp_b). Proof. apply feasible_b_sound. vm_compute. reflexivity. Qed.
  Lemma feas_c : feasible (i_xc inp_c) (i_lb inp_c) (i_ub inp_c). Proof. apply feasible_b_sound. vm_compute. reflexivity. Qed.
  Lemma theta_a : ~ i_theta inp_a == 0. Proof. vm_compute. discriminate. Qed.

  (* the values *)
  Example values_a : (o_free out_a, o_hit out_a, o_alpha out_a, map Qred (o_xbar out_a)) = ([false; true; true], None, 1, [0; 3#5; 12#7]).
  Proof. vm_compute. reflexivity. Qed.
  Example values_b : (o_free out_b, o_hit out_b, o_alpha out_b, map Qred (o_xbar out_b)) = ([false; true; true], Some 2%nat, 7#20, [0; 107#200; 5#4]).
  Proof. vm_compute. reflexivity. Qed.
  Example values_c : (o_free out_c, o_hit out_c, o_alpha out_c, o_xbar out_c) = ([false; false; false], None, 1, [0; 1; 1]).
  Proof. vm_compute. reflexivity. Qed.

  Example sub_free_set_ex : nth 1 (o_free out_b) false = true /\ nth 0 (o_free out_b) false <> true.
  Proof.
    split.
    - apply (sub_free_set None inp_b out_b 3 run_b wf_b feas_b 1%nat); [lia|]. vm_compute. split; reflexivity.
    - intro H. apply (sub_free_set None inp_b out_b 3 run_b wf_b feas_b 0%nat) in H; [|lia].
      destruct H as [H _]. vm_compute in H. discriminate.
  Qed.
  Example sub_fixed_ex : nth 0 (o_xbar out_b) 0 == 0.
  Proof. apply (sub_fixed None inp_b out_b 3 run_b wf_b feas_b 0%nat); [lia|vm_compute; reflexivity]. Qed.
  Example sub_fixed_all_ex : o_xbar out_c = [0; 1; 1].
  Proof. apply (sub_fixed_all None inp_c out_c run_c). intros [|[|[|[|i]]]]; vm_compute; reflexivity. Qed.
  Example sub_feasible_maximal_ex :
    feasible (o_xbar out_b) (i_lb inp_b) (i_ub inp_b) /\ o_alpha out_b == 7#20 /\
    ~ feasible (map2 (fun x d => x + (1#2) * d) (i_xc inp_b) (o_dfull out_b)) (i_lb inp_b) (i_ub inp_b).
  Proof.
    destruct (sub_feasible_maximal None inp_b out_b 3 run_b wf_b feas_b) as (Hf & _ & _ & _ & Hm).
    split; [exact Hf|]. split; [vm_compute; reflexivity|]. apply Hm; vm_compute; [reflexivity|discriminate].
  Qed.
  Example sub_newton_exact_ex :
    let ZtW := gather (o_free out_a) (i_W inp_a) in
    veq (Hmul (i_theta inp_a) (i_M inp_a) (transpose 2 ZtW) ZtW (o_dhat out_a)) (vscale (-(1)) (o_rhat out_a)).
  Proof. apply (sub_newton_exact None inp_a out_a 3 run_a wf_a theta_a). Qed.
  Example sub_decrease_ex :
    let rd := dot_raw (o_rhat out_b) (o_dhat out_b) in
    let ZtW := gather (o_free out_b) (i_W inp_b) in
    let kappa := dot_raw (Hmul (i_theta inp_b) (i_M inp_b) (transpose 2 ZtW) ZtW (o_dhat out_b)) (o_dhat out_b) in
    0 < kappa /\ o_alpha out_b * rd + o_alpha out_b * o_alpha out_b / 2 * kappa <= 0.
  Proof.
    intros rd ZtW kappa. split; [vm_compute; reflexivity|].
    apply (sub_model_decrease None inp_b out_b 3 run_b wf_b feas_b theta_a). vm_compute. discriminate.
  Qed.
  (* a run with an externally supplied solution gives the same output; a wrong one is rejected *)
  Example hint_accepted_ex : match subspace_gen (Some [25#63; -(25#42)]) inp_b with SOk o => o_xbar o | _ => [] end = o_xbar out_b.
  Proof. vm_compute. reflexivity. Qed.
  Example hint_rejected_ex : subspace_gen (Some [25#63; 25#42]) inp_b = SCertFail.
  Proof. vm_compute. reflexivity. Qed.
  Example descent_partial_ex : (-(1)) < 0.
  Proof. apply (descent_partial (-(1)) 1 (-(1#4)) (-(1#4))); vm_compute; try reflexivity; discriminate. Qed.
End Ex.
