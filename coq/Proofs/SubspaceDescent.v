(* C09 — model decrease of the subspace step and descent direction, on the executable model Subspace.v.

   Quadratic model of L-BFGS-B at x, for a displacement v from x:
       m(v) = g.v + 1/2 v^T B v,     B = theta I - W M W^T          (mval / qform below)
   The subspace step starts at the Cauchy point x_cp (s = x_cp - x, c = W^T s an INPUT of the model) and returns
       x_bar = x_cp + alpha Z d_hat,   0 < alpha <= 1,   H d_hat == - r_hat        (SubspaceProofs.v)
   Proved here, for all n, memory sizes and boxes:
     sub_step_model_identity : m(x_bar - x) == m(x_cp - x) + (alpha^2/2 - alpha) * d_hat^T H d_hat
     sub_step_model_decrease : 0 <= d_hat^T H d_hat -> m(x_bar - x) <= m(x_cp - x)        (D1)
     sub_step_model_strict   : 0 <  d_hat^T H d_hat -> m(x_bar - x) <  m(x_cp - x)
     descent_of_model        : m(d) < 0 -> 0 <= d^T B d -> g.d < 0                         (D2, pure algebra)
     sub_descent_direction   : ... -> m(x_cp - x) < 0 -> 0 <= d^T B d -> g.(x_bar - x) < 0
   Hypotheses: c == W^T (x_cp - x) (c_ok), M symmetric on its k x k block (Msym), theta <> 0.
   No hypothesis on the lengths of the rows of W or M: nth _ _ 0 / dot_raw read a missing entry as 0 on both sides. *)
From Coq Require Import List QArith Bool Arith Lia Lqa Setoid Morphisms.
From LBFGSB Require Import Model.Subspace Proofs.SubspaceProofs.
Import ListNotations.
Open Scope Q_scope.
Local Opaque Qred qadd qaddv.

(* ================= finite sums ================= *)
Fixpoint sumn (n : nat) (f : nat -> Q) : Q :=
  match n with O => 0 | S n' => f O + sumn n' (fun i => f (S i)) end.

Lemma sumn_ext_lt n f g : (forall i, (i < n)%nat -> f i == g i) -> sumn n f == sumn n g.
Proof.
  revert f g. induction n as [|n IH]; intros f g H; simpl; [reflexivity|].
  rewrite (H O) by lia. rewrite (IH (fun i => f (S i)) (fun i => g (S i))); [reflexivity|].
  intros i Hi. apply H. lia.
Qed.
Lemma sumn_zero n f : (forall i, (i < n)%nat -> f i == 0) -> sumn n f == 0.
Proof.
  revert f. induction n as [|n IH]; intros f H; simpl; [reflexivity|].
  rewrite (H O) by lia. rewrite IH; [ring|]. intros i Hi. apply H. lia.
Qed.
Lemma sumn_add n f g : sumn n (fun i => f i + g i) == sumn n f + sumn n g.
Proof.
  revert f g. induction n as [|n IH]; intros f g; simpl; [ring|].
  rewrite (IH (fun i => f (S i)) (fun i => g (S i))). ring.
Qed.
Lemma sumn_scale n c f : sumn n (fun i => c * f i) == c * sumn n f.
Proof.
  revert f. induction n as [|n IH]; intros f; simpl; [ring|]. rewrite (IH (fun i => f (S i))). ring.
Qed.
Lemma sumn_exchange n m (f : nat -> nat -> Q) :
  sumn n (fun i => sumn m (fun j => f i j)) == sumn m (fun j => sumn n (fun i => f i j)).
Proof.
  revert f. induction n as [|n IH]; intros f; simpl.
  - symmetry. apply sumn_zero. intros; reflexivity.
  - rewrite (sumn_add m (fun j => f O j) (fun j => sumn n (fun i => f (S i) j))).
    rewrite (IH (fun i j => f (S i) j)). reflexivity.
Qed.

(* ================= dot products as sums ================= *)
Lemma dot_raw_nil_r u : dot_raw u [] = 0.
Proof. destruct u; reflexivity. Qed.
Lemma nth_nil_Q i : nth i (@nil Q) 0 = 0.
Proof. destruct i; reflexivity. Qed.

Lemma dot_raw_sum u w N : (Nat.min (length u) (length w) <= N)%nat ->
  dot_raw u w == sumn N (fun i => nth i u 0 * nth i w 0).
Proof.
  revert w N. induction u as [|a u IH]; intros w N HN.
  - simpl dot_raw. symmetry. apply sumn_zero. intros i _. rewrite nth_nil_Q. ring.
  - destruct w as [|b w].
    + simpl dot_raw. symmetry. apply sumn_zero. intros i _. rewrite nth_nil_Q. ring.
    + destruct N as [|N]; [simpl in HN; lia|]. simpl. rewrite qadd_correct.
      rewrite (IH w N) by (simpl in HN; lia). reflexivity.
Qed.

Lemma dot_raw_comm u w : dot_raw u w == dot_raw w u.
Proof.
  revert w. induction u as [|a u IH]; intros [|b w]; simpl; try reflexivity.
  rewrite !qadd_correct, (IH w). ring.
Qed.
Lemma dot_raw_vadd_l u w a : length u = length w -> dot_raw (vadd u w) a == dot_raw u a + dot_raw w a.
Proof.
  intro Hl. rewrite dot_raw_comm, dot_raw_vadd_r by exact Hl.
  rewrite (dot_raw_comm a u), (dot_raw_comm a w). reflexivity.
Qed.

Lemma nth_map_seq {A} (F : nat -> A) k j d : (j < k)%nat -> nth j (map F (seq 0 k)) d = F j.
Proof.
  intro Hj. rewrite (nth_indep _ d (F O)) by (rewrite map_length, seq_length; exact Hj).
  rewrite map_nth, seq_nth by exact Hj. reflexivity.
Qed.
Lemma nth_map_Q {A} (f : A -> Q) (R : list A) i d : (i < length R)%nat -> nth i (map f R) 0 = f (nth i R d).
Proof.
  intro Hi. rewrite (nth_indep _ 0 (f d)) by (rewrite map_length; exact Hi). apply map_nth.
Qed.
Lemma transpose_length k R : length (transpose k R) = k.
Proof. unfold transpose. rewrite map_length. apply seq_length. Qed.
Lemma nth_transpose k R j : (j < k)%nat -> nth j (transpose k R) [] = map (fun row => nth j row 0) R.
Proof. intro Hj. unfold transpose. exact (nth_map_seq (fun j => map (fun row => nth j row 0) R) k j [] Hj). Qed.

(* (R u) . d == u . (R^T d)   (R any list of rows, k = |u| columns read) *)
Lemma dot_mv_adjoint R u d : dot_raw (mv R u) d == dot_raw u (mv (transpose (length u) R) d).
Proof.
  set (k := length u).
  rewrite (dot_raw_sum (mv R u) d (length R)) by (rewrite mv_length; lia).
  rewrite (dot_raw_sum u (mv (transpose k R) d) k) by (unfold k; lia).
  transitivity (sumn (length R) (fun i => sumn k (fun j => nth j u 0 * (nth j (nth i R []) 0 * nth i d 0)))).
  { apply sumn_ext_lt. intros i Hi. rewrite nth_mv, (dot_raw_sum (nth i R []) u k) by (unfold k; lia).
    rewrite Qmult_comm, <- sumn_scale. apply sumn_ext_lt. intros j _. ring. }
  rewrite sumn_exchange. apply sumn_ext_lt. intros j Hj.
  rewrite nth_mv, nth_transpose by exact Hj.
  rewrite (dot_raw_sum _ d (length R)) by (rewrite map_length; lia).
  rewrite <- sumn_scale. apply sumn_ext_lt. intros i Hi.
  rewrite (nth_map_Q (fun row => nth j row 0) R i []) by exact Hi. reflexivity.
Qed.

(* M symmetric on its k x k block, k = number of rows *)
Definition Msym (M : list (list Q)) : Prop :=
  forall i j, (i < length M)%nat -> (j < length M)%nat -> nth j (nth i M []) 0 == nth i (nth j M []) 0.

Lemma dot_mv_sym M u w : Msym M -> length u = length M -> length w = length M ->
  dot_raw u (mv M w) == dot_raw w (mv M u).
Proof.
  intros Hs Hu Hw. set (k := length M) in *.
  assert (E : forall a b, length b = k ->
            dot_raw a (mv M b) == sumn k (fun i => sumn k (fun j => nth i a 0 * (nth j (nth i M []) 0 * nth j b 0)))).
  { intros a b Hb. rewrite (dot_raw_sum a (mv M b) k) by (rewrite mv_length; fold k; lia).
    apply sumn_ext_lt. intros i _. rewrite nth_mv, (dot_raw_sum _ b k) by lia.
    rewrite <- sumn_scale. reflexivity. }
  rewrite (E u w Hw), (E w u Hu), sumn_exchange.
  apply sumn_ext_lt. intros j Hj. apply sumn_ext_lt. intros i Hi.
  rewrite (Hs i j Hi Hj). ring.
Qed.

(* ================= gather / scatter ================= *)
(* (Z^T R) . d == R . (Z d), entrywise through any f *)
Lemma dot_gather_scatter {A} (f : A -> Q) mask (R : list A) d :
  dot_raw (map f (gather mask R)) d == dot_raw (map f R) (scatter mask d).
Proof.
  revert R d. induction mask as [|b m IH]; intros R d.
  - simpl. rewrite dot_raw_nil_r. reflexivity.
  - destruct R as [|r R]; [reflexivity|]. destruct b.
    + destruct d as [|a d]; simpl.
      * rewrite qadd_correct, <- IH, dot_raw_nil_r. ring.
      * rewrite !qadd_correct, IH. reflexivity.
    + simpl. rewrite qadd_correct, <- IH. ring.
Qed.
Lemma dot_gather_scatter_Q mask r d : dot_raw (gather mask r) d == dot_raw r (scatter mask d).
Proof. pose proof (dot_gather_scatter (fun a : Q => a) mask r d) as H. rewrite !map_id in H. exact H. Qed.
Lemma gather_scatter mask d : length d = length (gather mask mask) -> gather mask (scatter mask d) = d.
Proof.
  revert d. induction mask as [|[|] m IH]; intros d H; simpl in *.
  - destruct d; [reflexivity|discriminate].
  - destruct d as [|a d]; [discriminate|]. simpl. f_equal. apply IH. simpl in H. congruence.
  - apply IH. exact H.
Qed.
(* A d_hat == W^T (Z d_hat)  with  A = (Z^T W)^T *)
Lemma mv_transpose_gather k mask W d :
  veq (mv (transpose k (gather mask W)) d) (mv (transpose k W) (scatter mask d)).
Proof.
  apply veq_intro.
  - rewrite !mv_length, !transpose_length. reflexivity.
  - intros j Hj. rewrite mv_length, transpose_length in Hj.
    rewrite !nth_mv, !nth_transpose by exact Hj. apply dot_gather_scatter.
Qed.

(* ================= linearity ================= *)
Lemma mv_vadd R u w : length u = length w -> veq (mv R (vadd u w)) (vadd (mv R u) (mv R w)).
Proof.
  intro Hl. apply veq_intro.
  - rewrite mv_length. symmetry. apply vadd_length; apply mv_length.
  - intros i _. rewrite nth_vadd by (rewrite !mv_length; reflexivity).
    rewrite !nth_mv. apply dot_raw_vadd_r. exact Hl.
Qed.
Lemma mv_vscale R c u : veq (mv R (vscale c u)) (vscale c (mv R u)).
Proof.
  apply veq_intro.
  - rewrite vscale_length, !mv_length. reflexivity.
  - intros i _. rewrite nth_vscale, !nth_mv. apply dot_raw_vscale_r.
Qed.
Lemma veq_length_n u w n : veq u w -> length w = n -> length u = n.
Proof. intros H <-. apply veq_length. exact H. Qed.

(* ================= the quadratic model ================= *)
Definition vsub (u w : list Q) : list Q := vadd u (vscale (-(1)) w).
(* W^T v  (2m-vector) *)
Definition Wt (inp : input) (v : list Q) : list Q := mv (transpose (length (i_M inp)) (i_W inp)) v.
(* v^T B w,  B = theta I - W M W^T *)
Definition qform (inp : input) (v w : list Q) : Q :=
  i_theta inp * dot v w - dot (Wt inp v) (mv (i_M inp) (Wt inp w)).
(* m(v) = g.v + 1/2 v^T B v *)
Definition mval (inp : input) (v : list Q) : Q := dot (i_g inp) v + (1#2) * qform inp v v.
(* the input c is W^T (x_cp - x) *)
Definition c_ok (inp : input) : Prop := veq (i_c inp) (Wt inp (vsub (i_xc inp) (i_x inp))).

Lemma Wt_length inp v : length (Wt inp v) = length (i_M inp).
Proof. unfold Wt. rewrite mv_length. apply transpose_length. Qed.
Lemma nth_vsub u w i : length u = length w -> nth i (vsub u w) 0 == nth i u 0 - nth i w 0.
Proof. intro Hl. unfold vsub. rewrite nth_vadd, nth_vscale by (rewrite vscale_length; exact Hl). ring. Qed.
Lemma vsub_length u w n : length u = n -> length w = n -> length (vsub u w) = n.
Proof. intros Hu Hw. unfold vsub. apply vadd_length; [exact Hu|]. rewrite vscale_length. exact Hw. Qed.

Section Form.
  Variable inp : input.
  Let M := i_M inp.
  Let th := i_theta inp.

  Lemma qform_compat v v' w w' : veq v v' -> veq w w' -> qform inp v w == qform inp v' w'.
  Proof.
    intros Hv Hw. unfold qform, dot, Wt.
    rewrite (dot_raw_compat_l v v' w Hv), (dot_raw_compat_r v' w w' Hw).
    rewrite (dot_raw_compat_l _ _ _ (mv_compat _ v v' Hv)).
    rewrite (dot_raw_compat_r _ _ _ (mv_compat (i_M inp) _ _ (mv_compat _ w w' Hw))). reflexivity.
  Qed.
  Lemma qform_add_r v w1 w2 : length w1 = length w2 ->
    qform inp v (vadd w1 w2) == qform inp v w1 + qform inp v w2.
  Proof.
    intro Hl. unfold qform, dot, Wt. set (T := transpose _ _).
    rewrite dot_raw_vadd_r by exact Hl.
    rewrite (dot_raw_compat_r _ _ _ (mv_compat (i_M inp) _ _ (mv_vadd T w1 w2 Hl))).
    rewrite (dot_raw_compat_r _ _ _ (mv_vadd (i_M inp) (mv T w1) (mv T w2) ltac:(rewrite !mv_length; reflexivity))).
    rewrite dot_raw_vadd_r by (rewrite !mv_length; reflexivity). ring.
  Qed.
  Lemma qform_scale_r v c w : qform inp v (vscale c w) == c * qform inp v w.
  Proof.
    unfold qform, dot, Wt. set (T := transpose _ _).
    rewrite dot_raw_vscale_r.
    rewrite (dot_raw_compat_r _ _ _ (mv_compat (i_M inp) _ _ (mv_vscale T c w))).
    rewrite (dot_raw_compat_r _ _ _ (mv_vscale (i_M inp) c (mv T w))).
    rewrite dot_raw_vscale_r. ring.
  Qed.
  Lemma qform_add_l v1 v2 w : length v1 = length v2 ->
    qform inp (vadd v1 v2) w == qform inp v1 w + qform inp v2 w.
  Proof.
    intro Hl. unfold qform, dot, Wt. set (T := transpose _ _).
    rewrite dot_raw_vadd_l by exact Hl.
    rewrite (dot_raw_compat_l _ _ _ (mv_vadd T v1 v2 Hl)).
    rewrite dot_raw_vadd_l by (rewrite !mv_length; reflexivity). ring.
  Qed.
  Lemma qform_scale_l c v w : qform inp (vscale c v) w == c * qform inp v w.
  Proof.
    unfold qform, dot, Wt. set (T := transpose _ _).
    rewrite dot_raw_vscale_l.
    rewrite (dot_raw_compat_l _ _ _ (mv_vscale T c v)).
    rewrite dot_raw_vscale_l. ring.
  Qed.
  Lemma qform_sym v w : Msym (i_M inp) -> qform inp v w == qform inp w v.
  Proof.
    intro Hs. unfold qform, dot.
    rewrite (dot_raw_comm v w).
    rewrite (dot_mv_sym (i_M inp) (Wt inp v) (Wt inp w) Hs (Wt_length inp v) (Wt_length inp w)). reflexivity.
  Qed.
  Lemma mval_compat v v' : veq v v' -> mval inp v == mval inp v'.
  Proof.
    intro Hv. unfold mval, dot. rewrite (dot_raw_compat_r _ v v' Hv), (qform_compat v v' v v' Hv Hv). reflexivity.
  Qed.

  (* m(s + a z) = m(s) + a (g.z + z^T B s) + a^2/2 z^T B z *)
  Lemma mval_expand s z a : length s = length z -> Msym (i_M inp) ->
    mval inp (vadd s (vscale a z)) ==
    mval inp s + a * (dot (i_g inp) z + qform inp z s) + a * a / 2 * qform inp z z.
  Proof.
    intros Hl Hs. unfold mval.
    assert (Hl' : length s = length (vscale a z)) by (rewrite vscale_length; exact Hl).
    rewrite (qform_add_l s (vscale a z) _ Hl'), !(qform_add_r _ s (vscale a z) Hl').
    rewrite !qform_scale_l, !qform_scale_r, (qform_sym s z Hs).
    unfold dot. rewrite dot_raw_vadd_r, dot_raw_vscale_r by exact Hl'. field.
  Qed.
End Form.

(* ================= D2: descent from a negative model value (pure algebra) ================= *)
Theorem descent_of_model inp d : mval inp d < 0 -> 0 <= qform inp d d -> dot (i_g inp) d < 0.
Proof. unfold mval. intros H1 H2. lra. Qed.

(* ================= D1: the subspace step decreases the model ================= *)
Lemma o_dhat_length hint inp o n : subspace_gen hint inp = SOk o -> wf inp n ->
  length (o_dhat o) = length (gather (o_free o) (i_W inp)).
Proof.
  intros Hrun Hwf. pose proof (rvec_length inp n Hwf) as Hr.
  destruct Hwf as (_ & Hxc & _ & Hlb & Hub & HW).
  pose proof (free_mask_length _ _ _ n Hxc Hlb Hub) as Hm.
  destruct (subspace_ok_inv hint inp o Hrun) as [(Hex & ->)|(Hex & v & _ & ->)]; cbn [o_free o_dhat].
  - rewrite gather_none_free by exact Hex. reflexivity.
  - unfold dhat_of. rewrite vscale_length. apply vadd_length.
    + apply gather_length_eq; congruence.
    + rewrite vscale_length. apply mv_length.
Qed.

(* the model gradient at the Cauchy point, as a linear combination *)
Lemma rvec_veq inp n : wf inp n ->
  veq (rvec inp)
      (vadd (vadd (i_g inp) (vscale (i_theta inp) (vsub (i_xc inp) (i_x inp))))
            (vscale (-(1)) (mv (i_W inp) (mv (i_M inp) (i_c inp))))).
Proof.
  intros Hwf. pose proof (rvec_length inp n Hwf) as Hr. destruct Hwf as (Hx & Hxc & Hg & _ & _ & HW).
  assert (Ls : length (vsub (i_xc inp) (i_x inp)) = n) by (apply vsub_length; assumption).
  assert (L1 : length (vadd (i_g inp) (vscale (i_theta inp) (vsub (i_xc inp) (i_x inp)))) = n)
    by (apply vadd_length; [exact Hg|rewrite vscale_length; exact Ls]).
  apply veq_intro.
  - rewrite Hr. symmetry. apply vadd_length; [exact L1|]. rewrite vscale_length, mv_length. exact HW.
  - rewrite Hr. intros i Hi.
    rewrite nth_vadd by (rewrite L1, vscale_length, mv_length; congruence).
    rewrite nth_vadd by (rewrite vscale_length; congruence).
    rewrite !nth_vscale, nth_vsub by congruence.
    unfold rvec.
    rewrite (nth_map2 _ _ _ n i 0 0 0); [| |rewrite mv_length; exact HW|exact Hi].
    2:{ apply map2_length; [exact Hg|]. apply map2_length; assumption. }
    rewrite (nth_map2 _ _ _ n i 0 0 0); [|exact Hg| |exact Hi].
    2:{ apply map2_length; assumption. }
    rewrite (nth_map2 _ _ _ n i 0 0 0) by assumption.
    rewrite qaddv_correct. ring.
Qed.

Section Descent.
  Variables (hint : option (list Q)) (inp : input) (o : output) (n : nat).
  Hypothesis Hrun : subspace_gen hint inp = SOk o.
  Hypothesis Hwf : wf inp n.
  Hypothesis Hfeas : feasible (i_xc inp) (i_lb inp) (i_ub inp).
  Hypothesis Hth : ~ i_theta inp == 0.
  Hypothesis Hc : c_ok inp.
  Hypothesis Hsym : Msym (i_M inp).

  Let ZtW := gather (o_free o) (i_W inp).
  Let A := transpose (length (i_M inp)) ZtW.
  (* d_hat^T H d_hat,  H = theta I - (Z^T W) M (W^T Z) *)
  Definition kappa_of : Q := dot_raw (Hmul (i_theta inp) (i_M inp) A ZtW (o_dhat o)) (o_dhat o).
  Let s := vsub (i_xc inp) (i_x inp).
  Let d := vsub (o_xbar o) (i_x inp).
  Let z := o_dfull o.

  Lemma z_length : length z = n.
  Proof. unfold z, o_dfull. rewrite scatter_length. apply (o_free_length hint inp o n Hrun Hwf). Qed.
  Lemma s_length : length s = n.
  Proof. destruct Hwf as (Hx & Hxc & _). apply vsub_length; assumption. Qed.

  (* x_bar - x == (x_cp - x) + alpha Z d_hat *)
  Lemma d_veq : veq d (vadd s (vscale (o_alpha o) z)).
  Proof.
    destruct (model_spec hint inp o n Hrun Hwf Hfeas) as (Lx & _ & Hx & _).
    pose proof z_length as Lz. pose proof s_length as Ls.
    destruct Hwf as (Hx0 & Hxc & _).
    assert (Ld : length d = n) by (apply vsub_length; assumption).
    apply veq_intro.
    - rewrite Ld. symmetry. apply vadd_length; [exact Ls|]. rewrite vscale_length. exact Lz.
    - rewrite Ld. intros i Hi. unfold d, s.
      rewrite nth_vadd by (rewrite vscale_length; fold s; congruence).
      rewrite nth_vscale, !nth_vsub by congruence. rewrite (Hx i Hi). fold z. ring.
  Qed.

  (* the reduced curvature is the curvature of B along Z d_hat *)
  Lemma kappa_qform : kappa_of == qform inp z z.
  Proof.
    pose proof (o_dhat_length hint inp o n Hrun Hwf) as Ldh. fold ZtW in Ldh.
    unfold kappa_of, Hmul.
    rewrite dot_raw_vadd_l by (rewrite !vscale_length, mv_length; exact Ldh).
    rewrite !dot_raw_vscale_l.
    rewrite (dot_mv_adjoint ZtW (mv (i_M inp) (mv A (o_dhat o))) (o_dhat o)).
    rewrite mv_length. fold A.
    unfold qform, dot.
    assert (EA : veq (mv A (o_dhat o)) (Wt inp z)) by apply mv_transpose_gather.
    rewrite (dot_raw_comm (mv (i_M inp) (mv A (o_dhat o))) (mv A (o_dhat o))).
    rewrite (dot_raw_compat_l _ _ _ EA), (dot_raw_compat_r _ _ _ (mv_compat (i_M inp) _ _ EA)).
    assert (Ezz : dot_raw z z == dot_raw (o_dhat o) (o_dhat o)).
    { unfold z at 2. unfold o_dfull. rewrite <- dot_gather_scatter_Q.
      unfold z, o_dfull. rewrite gather_scatter; [reflexivity|].
      rewrite Ldh. unfold ZtW. destruct Hwf as (_ & _ & _ & _ & _ & HW).
      pose proof (o_free_length hint inp o n Hrun Hwf) as Lm.
      apply gather_length_eq; congruence. }
    rewrite Ezz. ring.
  Qed.

  (* r . Z d_hat == g . Z d_hat + (Z d_hat)^T B (x_cp - x) : r is the gradient of m at the Cauchy point *)
  Lemma rvec_dot : dot_raw (rvec inp) z == dot (i_g inp) z + qform inp z s.
  Proof.
    pose proof z_length as Lz. pose proof s_length as Ls. fold s in Ls.
    destruct Hwf as (Hx & Hxc & Hg & _ & _ & HW).
    rewrite (dot_raw_compat_l _ _ z (rvec_veq inp n Hwf)). fold s.
    rewrite dot_raw_vadd_l.
    2:{ rewrite vscale_length, mv_length, HW. apply vadd_length; [exact Hg|]. rewrite vscale_length. exact Ls. }
    rewrite dot_raw_vadd_l by (rewrite vscale_length; congruence).
    rewrite !dot_raw_vscale_l, dot_mv_adjoint, mv_length.
    unfold qform, dot. fold (Wt inp z).
    rewrite (dot_raw_comm (mv (i_M inp) (i_c inp)) (Wt inp z)).
    rewrite (dot_raw_compat_r _ _ _ (mv_compat (i_M inp) _ _ Hc)). fold s.
    rewrite (dot_raw_comm z s). ring.
  Qed.
  Lemma rhat_dot : dot_raw (o_rhat o) (o_dhat o) == dot_raw (rvec inp) z.
  Proof.
    destruct (sub_newton_exact hint inp o n Hrun Hwf Hth) as [-> _].
    unfold z, o_dfull. apply dot_gather_scatter_Q.
  Qed.

  (* exact change of the model value along the subspace step *)
  Theorem sub_step_model_identity :
    mval inp d == mval inp s + (o_alpha o * o_alpha o / 2 - o_alpha o) * kappa_of.
  Proof.
    rewrite (mval_compat inp _ _ d_veq).
    rewrite (mval_expand inp s z (o_alpha o)) by (rewrite ?s_length, ?z_length; auto).
    rewrite <- rvec_dot, <- rhat_dot, <- kappa_qform.
    destruct (sub_newton_exact hint inp o n Hrun Hwf Hth) as [_ Hn]. fold ZtW A in Hn.
    pose proof (dot_raw_compat_l _ _ (o_dhat o) Hn) as E. fold kappa_of in E.
    rewrite dot_raw_vscale_l in E. rewrite E. field.
  Qed.

  Theorem sub_step_model_decrease : 0 <= kappa_of -> mval inp d <= mval inp s.
  Proof.
    intro Hk. rewrite sub_step_model_identity.
    destruct (model_spec hint inp o n Hrun Hwf Hfeas) as (_ & [Ha0 Ha1] & _).
    set (a := o_alpha o) in *. set (kp := kappa_of) in *.
    assert (0 <= a * (1 - (1#2) * a) * kp)
      by (apply Qmult_le_0_compat; [apply Qmult_le_0_compat; lra|exact Hk]).
    setoid_replace ((a * a / 2 - a) * kp) with (- (a * (1 - (1#2) * a) * kp)) by field.
    set (p := a * (1 - (1#2) * a) * kp) in *. clearbody p. lra.
  Qed.
  Theorem sub_step_model_strict : 0 < kappa_of -> mval inp d < mval inp s.
  Proof.
    intro Hk. rewrite sub_step_model_identity.
    destruct (model_spec hint inp o n Hrun Hwf Hfeas) as (_ & [Ha0 Ha1] & _).
    set (a := o_alpha o) in *. set (kp := kappa_of) in *.
    assert (0 < a * (1 - (1#2) * a) * kp)
      by (apply Qmult_lt_0_compat; [apply Qmult_lt_0_compat; lra|exact Hk]).
    setoid_replace ((a * a / 2 - a) * kp) with (- (a * (1 - (1#2) * a) * kp)) by field.
    set (p := a * (1 - (1#2) * a) * kp) in *. clearbody p. lra.
  Qed.

  (* the direction handed to the line search is a descent direction *)
  Theorem sub_descent_direction :
    0 <= kappa_of -> mval inp s < 0 -> 0 <= qform inp d d -> dot (i_g inp) d < 0.
  Proof.
    intros Hk Hcp Hpsd. apply descent_of_model; [|exact Hpsd].
    pose proof (sub_step_model_decrease Hk). lra.
  Qed.

  (* the same under the stronger, more familiar hypotheses *)
  (* (i) H = Z^T B Z positive semi-definite on the free subspace *)
  Corollary sub_step_model_decrease_Hpsd :
    (forall e, length e = length (o_dhat o) -> 0 <= dot_raw (Hmul (i_theta inp) (i_M inp) A ZtW e) e) ->
    mval inp d <= mval inp s.
  Proof. intro Hp. apply sub_step_model_decrease. unfold kappa_of. apply Hp. reflexivity. Qed.
  (* (ii) B positive semi-definite on n-vectors: no separate curvature hypothesis is left *)
  Corollary sub_descent_direction_Bpsd :
    (forall v, length v = n -> 0 <= qform inp v v) ->
    mval inp d <= mval inp s /\ (mval inp s < 0 -> dot (i_g inp) d < 0).
  Proof.
    intro Hp.
    assert (Hk : 0 <= kappa_of) by (rewrite kappa_qform; apply Hp; apply z_length).
    split; [apply sub_step_model_decrease; exact Hk|].
    intro Hcp. apply sub_descent_direction; [exact Hk|exact Hcp|]. apply Hp.
    destruct (model_spec hint inp o n Hrun Hwf Hfeas) as (Lx & _). destruct Hwf as (Hx & _).
    apply vsub_length; assumption.
  Qed.
End Descent.

(* no free variable (early return of the source): x_bar is x_cp itself and the model value is unchanged, with no
   hypothesis at all (the general theorems above also cover this case: d_hat = [], kappa = 0) *)
Theorem sub_step_model_nofree hint inp o :
  subspace_gen hint inp = SOk o -> (forall i, nth i (o_free o) false = false) ->
  mval inp (vsub (o_xbar o) (i_x inp)) = mval inp (vsub (i_xc inp) (i_x inp)).
Proof. intros Hrun Hall. rewrite (sub_fixed_all hint inp o Hrun Hall). reflexivity. Qed.

(* ================= D3: concrete instances (vm_compute) ================= *)
Module ExDescent.
  Import Ex.
  (* Ex.inp_a / Ex.inp_b of SubspaceProofs.v: n = 3, one correction pair s = (1,0,1), y = (2,0,1), theta = 5/3,
     x = 0, x_cp = (0,1/2,1), g = (1,-1,-2), c = W^T (x_cp - x) = (1, 5/3); coordinate 0 sits on its lower bound.
     inp_a: wide box, alpha* = 1;  inp_b: upper bounds (1, 3/4, 5/4), the step is truncated at alpha* = 7/20;
     inp_c': x_cp = (0,1,1) with every coordinate on a bound, early return.  (Ex.inp_c has c = (1, 10/3), which is
     NOT W^T (x_cp - x) = (1, 5/3) because row 1 of W is zero; inp_c' is the same input with the consistent c.) *)
  Definition inp_c' := mkInput [0;0;0] [0;1;1] [1;-(1);-(2)] [Some 0; Some (-(1)); Some (-(4))] [Some 1; Some 1; Some 1]
                               (5#3) W1 M1 [1; 5#3].
  Definition out_c' := out_of inp_c'.
  Lemma run_c' : subspace inp_c' = SOk out_c'. Proof. vm_compute. reflexivity. Qed.
  Lemma wf_c' : wf inp_c' 3. Proof. repeat split. Qed.
  Lemma feas_c' : feasible (i_xc inp_c') (i_lb inp_c') (i_ub inp_c'). Proof. apply feasible_b_sound. vm_compute. reflexivity. Qed.
  Example c_not_ok_c : veq_bool (i_c inp_c) (Wt inp_c (vsub (i_xc inp_c) (i_x inp_c))) = false.
  Proof. vm_compute. reflexivity. Qed.
  Lemma c_ok_a : c_ok inp_a. Proof. apply veq_bool_sound. vm_compute. reflexivity. Qed.
  Lemma c_ok_b : c_ok inp_b. Proof. apply veq_bool_sound. vm_compute. reflexivity. Qed.
  Lemma c_ok_c : c_ok inp_c'. Proof. apply veq_bool_sound. vm_compute. reflexivity. Qed.
  Lemma Msym_M1 : Msym M1.
  Proof. intros i j Hi Hj. simpl in Hi, Hj. destruct i as [|[|i]], j as [|[|j]]; try lia; vm_compute; reflexivity. Qed.
  Lemma theta_b : ~ i_theta inp_b == 0. Proof. vm_compute. discriminate. Qed.
  Lemma theta_c : ~ i_theta inp_c' == 0. Proof. vm_compute. discriminate. Qed.

  Definition m_cp (inp : input) : Q := mval inp (vsub (i_xc inp) (i_x inp)).
  Definition m_bar (inp : input) (o : output) : Q := mval inp (vsub (o_xbar o) (i_x inp)).
  Definition g_d (inp : input) (o : output) : Q := dot (i_g inp) (vsub (o_xbar o) (i_x inp)).
  Definition dBd (inp : input) (o : output) : Q :=
    qform inp (vsub (o_xbar o) (i_x inp)) (vsub (o_xbar o) (i_x inp)).

  (* the numbers: alpha*, m(x_cp - x), m(x_bar - x), d_hat^T H d_hat, g.(x_bar - x), (x_bar - x)^T B (x_bar - x) *)
  Example numbers_a :
    (o_alpha out_a, Qred (m_cp inp_a), Qred (m_bar inp_a out_a), Qred (kappa_of inp_a out_a),
     Qred (g_d inp_a out_a), Qred (dBd inp_a out_a))
    = (1, -(41#24), -(141#70), 257#420, -(141#35), 141#35).
  Proof. vm_compute. reflexivity. Qed.
  Example numbers_b :
    (o_alpha out_b, Qred (m_cp inp_b), Qred (m_bar inp_b out_b), Qred (kappa_of inp_b out_b),
     Qred (g_d inp_b out_b), Qred (dBd inp_b out_b))
    = (7#20, -(41#24), -(90481#48000), 257#420, -(607#200), 55199#24000).
  Proof. vm_compute. reflexivity. Qed.
  Example numbers_c :
    (o_alpha out_c', o_dhat out_c', Qred (m_cp inp_c'), Qred (m_bar inp_c' out_c'), Qred (kappa_of inp_c' out_c'))
    = (1, [], -(19#12), -(19#12), 0).
  Proof. vm_compute. reflexivity. Qed.

  (* the theorems applied: every hypothesis is discharged on the instance *)
  Example identity_a : m_bar inp_a out_a == m_cp inp_a + (1 * 1 / 2 - 1) * (257#420).
  Proof.
    pose proof (sub_step_model_identity None inp_a out_a 3 run_a wf_a feas_a theta_a c_ok_a Msym_M1) as H.
    unfold m_bar, m_cp. rewrite H. vm_compute. reflexivity.
  Qed.
  Example strict_a : m_bar inp_a out_a < m_cp inp_a.
  Proof.
    apply (sub_step_model_strict None inp_a out_a 3 run_a wf_a feas_a theta_a c_ok_a Msym_M1).
    vm_compute. reflexivity.
  Qed.
  Example strict_b : m_bar inp_b out_b < m_cp inp_b /\ o_alpha out_b < 1.
  Proof.
    split; [|vm_compute; reflexivity].
    apply (sub_step_model_strict None inp_b out_b 3 run_b wf_b feas_b theta_b c_ok_b Msym_M1).
    vm_compute. reflexivity.
  Qed.
  Example decrease_c : m_bar inp_c' out_c' <= m_cp inp_c'.
  Proof.
    apply (sub_step_model_decrease None inp_c' out_c' 3 run_c' wf_c' feas_c' theta_c c_ok_c Msym_M1).
    vm_compute. discriminate.
  Qed.
  Example descent_a : g_d inp_a out_a < 0.
  Proof.
    apply (sub_descent_direction None inp_a out_a 3 run_a wf_a feas_a theta_a c_ok_a Msym_M1);
      vm_compute; (reflexivity || discriminate).
  Qed.
  Example descent_b : g_d inp_b out_b < 0.
  Proof.
    apply (sub_descent_direction None inp_b out_b 3 run_b wf_b feas_b theta_b c_ok_b Msym_M1);
      vm_compute; (reflexivity || discriminate).
  Qed.
End ExDescent.

Print Assumptions sub_step_model_identity.
Print Assumptions sub_step_model_decrease.
Print Assumptions sub_step_model_strict.
Print Assumptions sub_step_model_decrease_Hpsd.
Print Assumptions descent_of_model.
Print Assumptions sub_descent_direction.
Print Assumptions sub_descent_direction_Bpsd.
Print Assumptions sub_step_model_nofree.
Print Assumptions ExDescent.strict_b.
Print Assumptions ExDescent.descent_b.

(* kappa_of is exactly the kappa of SubspaceProofs.sub_model_decrease / C09_sub_model_decrease *)
Lemma kappa_of_eq inp o :
  kappa_of inp o =
  let ZtW := gather (o_free o) (i_W inp) in
  let A := transpose (length (i_M inp)) ZtW in
  dot_raw (Hmul (i_theta inp) (i_M inp) A ZtW (o_dhat o)) (o_dhat o).
Proof. reflexivity. Qed.
(* and it is the curvature of B along Z d_hat *)
Check kappa_qform.
