(* The translation of subspace_minimization (Generated/SubspaceTail.v: NumPy idioms read element-wise over lists) computes
   the hand-written binary64 model Model/FSubspace.v.  List lemmas only; the statement is in Properties/C09_float.v. *)
From Coq Require Import List Bool Arith Lia Floats.PrimFloat.
From LBFGSB Require Import Model.FloatVec Model.NumpyOps Model.FCauchy Model.FSubspace.
From LBFGSB Require Generated.SubspaceTail.
Import ListNotations.
Local Open Scope float_scope.

Fixpoint count (m : list bool) : nat := match m with [] => 0%nat | b :: m' => (if b then 1 else 0) + count m' end.

Lemma vmap2_length : forall f a b, length (vmap2 f a b) = Nat.min (length a) (length b).
Proof. induction a as [|x a IH]; intros [|y b]; cbn; auto. Qed.

Lemma vip_length : forall f a b, length (vip f a b) = length a.
Proof. induction a as [|x a IH]; intros [|y b]; cbn; auto. Qed.

Lemma vinplace_vip : forall f a b, vinplace f a b = vip f a b.
Proof. induction a as [|x a IH]; intros [|y b]; cbn; auto. Qed.

Lemma ffree_length : forall xc lb ub, length lb = length xc -> length ub = length xc -> length (ffree xc lb ub) = length xc.
Proof. induction xc as [|x xc IH]; intros [|l lb] [|u ub] Hl Hu; try discriminate; cbn; auto. Qed.

Lemma gather_length : forall m v, (length m <= length v)%nat -> length (gather m v) = count m.
Proof. induction m as [|b m IH]; intros [|x v] H; cbn in *; try lia; auto. destruct b; cbn; rewrite IH; lia. Qed.

Lemma indices_length : forall m k, length (indices_from k m) = count m.
Proof. induction m as [|b m IH]; intros k; cbn; auto. destruct b; cbn; rewrite IH; auto. Qed.

Lemma indices_ge : forall m k i, In i (indices_from k m) -> (k <= i)%nat.
Proof.
  induction m as [|b m IH]; intros k i H; cbn in H; [contradiction|].
  destruct b; [destruct H as [H|H]; [lia|]|]; apply IH in H; lia.
Qed.

(* [a[i] for i in nonzero(mask)] = a[mask] *)
Lemma gather_nth_from : forall m pre v, (length m <= length v)%nat ->
  map (fun i => nth i (pre ++ v) nan) (indices_from (length pre) m) = gather m v.
Proof.
  induction m as [|b m IH]; intros pre [|x v] H; cbn in *; try lia; auto.
  assert (E : forall l, indices_from (S (length pre)) l = indices_from (length (pre ++ [x])) l) by (intros; rewrite app_length; cbn; now rewrite Nat.add_1_r).
  assert (E2 : forall i, nth i (pre ++ x :: v) nan = nth i ((pre ++ [x]) ++ v) nan) by (intros; now rewrite <- app_assoc).
  destruct b; cbn.
  - f_equal; [rewrite app_nth2, Nat.sub_diag; auto|]. rewrite E. erewrite map_ext; [apply IH; lia|]. intros; apply E2.
  - rewrite E. erewrite map_ext; [apply IH; lia|]. intros; apply E2.
Qed.
Lemma gather_nth : forall m v, (length m <= length v)%nat -> map (fun i => nth i v nan) (indices_from 0 m) = gather m v.
Proof. intros m v H. exact (gather_nth_from m [] v H). Qed.

Lemma has_free_indices : forall m k, has_free m = false <-> indices_from k m = [].
Proof.
  induction m as [|b m IH]; intros k; cbn; [tauto|]. destruct b; cbn; [split; discriminate|apply IH].
Qed.

(* r = grad + theta * (xc - x) *)
Lemma r0_eq : forall theta g d, vadd g (map (fun e => mul theta e) d) = vmap2 (fun gi di => add gi (mul theta di)) g d.
Proof. induction g as [|a g IH]; intros [|b d]; cbn; auto. unfold vadd in IH. now rewrite IH. Qed.

(* dHat = -invThet * (rHat + invThet * corr) *)
Lemma dhat_eq : forall it rh co, length co = length rh ->
  map (fun e => mul (opp it) e) (vadd rh (map (fun e => mul it e) co)) = vip (fun r o => mul (opp it) (add r (mul it o))) rh co.
Proof. induction rh as [|a rh IH]; intros [|b co] H; try discriminate; cbn; auto. unfold vadd in IH. rewrite IH; auto. Qed.

(* the quotients handed to np.nanmin *)
Lemma cands_eq : forall d ux lx, length ux = length d -> length lx = length d ->
  let mask := map (fun e => negb (eqb e 0)) d in
  vmap2 div (bwhere (map (fun e => ltb 0 e) (bgather mask d)) (bgather mask ux) (bgather mask lx)) (bgather mask d) = cands d ux lx
  /\ length (cands d ux lx) = length (bgather mask d).
Proof.
  induction d as [|a d IH]; intros [|u ux] [|l lx] Hu Hl; try discriminate; cbn; auto.
  destruct (IH ux lx) as [E1 E2]; [cbn in *; lia..|].
  destruct (eqb a 0); cbn; [split; assumption|].
  split; [|now rewrite E2]. unfold cand. f_equal; [destruct (ltb 0 a); reflexivity|exact E1].
Qed.

Lemma np_nanmin_nanmin : forall q, q <> [] -> np_nanmin q = nanmin q.
Proof. intros [|x q] H; [contradiction|reflexivity]. Qed.

(* (a * Z) @ d *)
Lemma pos_of_none : forall rows i, (forall r, In r rows -> r <> i) -> pos_of i rows = None.
Proof.
  induction rows as [|r rows IH]; intros i H; cbn; auto.
  destruct (Nat.eqb_spec r i) as [E|E]; [exfalso; apply (H r); cbn; auto|]. rewrite IH; auto. intros r' Hr'; apply H; cbn; auto.
Qed.

Lemma sel_matvec_from : forall a m k d, length d = count m ->
  map (fun i => match pos_of i (indices_from k m) with Some j => add 0 (mul a (nth j d 0)) | None => 0 end) (seq k (length m)) = scatter a m d.
Proof.
  induction m as [|b m IH]; intros k d H; cbn [length seq map indices_from scatter]; auto.
  destruct b.
  - destruct d as [|dj d]; [discriminate|]. cbn [pos_of]. rewrite Nat.eqb_refl. cbn [nth]. f_equal.
    rewrite <- (IH (S k) d) by (cbn in H; lia). apply map_ext_in. intros i Hi. apply in_seq in Hi.
    destruct (Nat.eqb_spec k i) as [E|E]; [lia|]. destruct (pos_of i (indices_from (S k) m)); reflexivity.
  - f_equal.
    + rewrite pos_of_none; auto. intros r Hr. apply indices_ge in Hr. lia.
    + apply IH. exact H.
Qed.
Lemma sel_matvec_eq : forall a m d, length d = count m -> sel_matvec a (length m) (indices_from 0 m) d = scatter a m d.
Proof. intros; unfold sel_matvec; now apply sel_matvec_from. Qed.

Section Tie.
Variable O : sub_oracles.
Variables x xc c g lb ub : vec.
Variable theta : float.
Variable uf : bool.
Hypothesis Hlb : length lb = length xc.
Hypothesis Hub : length ub = length xc.
Hypothesis Hx : length x = length xc.
Hypothesis Hg : length g = length xc.
Let free := ffree xc lb ub.
(* the reduced solve returns one number per free variable *)
Hypothesis Hcorr : length (o_corr O free (rhat O x xc c g theta uf free)) = count free.

Theorem subspace_tail_eq :
  Generated.SubspaceTail.subspace_minimization (o_Wc O) (fun _ rh => o_corr O free rh) theta uf x xc c g lb ub (indices_from 0 free)
  = fsubspace O x xc c g lb ub theta uf.
Proof.
  unfold Generated.SubspaceTail.subspace_minimization, fsubspace, fsubspace_full, fsub_core_full. fold free.
  assert (Lf : length free = length xc) by (apply ffree_length; assumption).
  destruct (has_free free) eqn:HF.
  2:{ apply (has_free_indices free 0%nat) in HF. rewrite HF. reflexivity. }
  destruct (indices_from 0 free) as [|i0 is_] eqn:EI.
  { apply (has_free_indices free 0%nat) in EI. congruence. }
  cbv beta iota zeta. rewrite <- EI. clear i0 is_ EI. cbn [sr_xbar].
  assert (Lr : length (rvec O x xc c g theta uf) = length xc).
  { unfold rvec, rvec0. destruct uf; rewrite ?vip_length, vmap2_length; unfold vsub; rewrite vmap2_length; lia. }
  assert (ER : map (fun i_ => nth i_ (if uf then vinplace sub (vadd g (map (fun e_ => mul theta e_) (vsub xc x))) (o_Wc O c)
                                        else vadd g (map (fun e_ => mul theta e_) (vsub xc x))) nan) (indices_from 0 free)
               = rhat O x xc c g theta uf free).
  { unfold rhat. rewrite <- gather_nth by lia. apply map_ext. intros i. f_equal. unfold rvec, rvec0. rewrite r0_eq. destruct uf; [apply vinplace_vip|reflexivity]. }
  unfold vec in *. rewrite ER.
  assert (Lrh : length (rhat O x xc c g theta uf free) = count free) by (unfold rhat; apply gather_length; lia).
  assert (ED : map (fun e_ => mul (opp (div 1 theta)) e_) (vadd (rhat O x xc c g theta uf free) (map (fun e_ => mul (div 1 theta) e_) (o_corr O free (rhat O x xc c g theta uf free))))
               = dhat O x xc c g theta uf free).
  { unfold dhat, inv_theta. apply dhat_eq. lia. }
  rewrite ED.
  assert (Ld : length (dhat O x xc c g theta uf free) = count free) by (unfold dhat; rewrite vip_length; exact Lrh).
  assert (Lu : length (vsub ub xc) = length xc) by (unfold vsub; rewrite vmap2_length; lia).
  assert (Ll : length (vsub lb xc) = length xc) by (unfold vsub; rewrite vmap2_length; lia).
  rewrite !gather_nth by lia.
  destruct (cands_eq (dhat O x xc c g theta uf free) (gather free (vsub ub xc)) (gather free (vsub lb xc))) as [EC LC];
    [rewrite gather_length by lia; lia..|]. cbv zeta in EC, LC.
  rewrite EC. fold (step_cands O x xc c g lb ub theta uf free).
  assert (EA : pymin 1 match bgather (map (fun e_ => negb (eqb e_ 0)) (dhat O x xc c g theta uf free)) (dhat O x xc c g theta uf free) with
                       | [] => 1 | _ :: _ => np_nanmin (step_cands O x xc c g lb ub theta uf free) end
               = alpha_star O x xc c g lb ub theta uf free).
  { unfold alpha_star. f_equal. fold (step_cands O x xc c g lb ub theta uf free) in LC.
    destruct (bgather _ (dhat O x xc c g theta uf free)) as [|s0 sel].
    - destruct (step_cands O x xc c g lb ub theta uf free); [reflexivity|discriminate].
    - apply np_nanmin_nanmin. intros E. rewrite E in LC. discriminate. }
  rewrite EA. unfold xbar_of. rewrite <- Lf, sel_matvec_eq by exact Ld. reflexivity.
Qed.
End Tie.
