(* BfgsProofs.v -- theorems about the model of Bfgs.v.

   Part 1 (Section BfgsForm): one BFGS update of a symmetric positive-definite bilinear form
     is symmetric, satisfies the secant equation and is positive definite; by induction, the
     form obtained from theta*dot by applying a list of pairs with s.y > 0 in order.  The
     scalar field is Q (setoid equality ==); the vector space is ABSTRACT: the Section
     variables are V, add, scal, dot and the four hypotheses dot_sym, dot_add_l, dot_scal_l,
     dot_nonneg.  "v <> 0" is expressed as 0 < dot v v, so no equality on V is needed.
   Part 2: the section is instantiated with V = list Q (finitely supported sequences: any
     length, hence every fixed length n), add = vadd, scal = vscale, dot = dot_raw; the four
     hypotheses are proved, so the abstract theorems are not vacuous.
   Part 3: the executable dense matrix [dense_bfgs n theta ps] represents that form on vectors
     of length <= n; symmetric / positive definite / secant for the matrix, also entrywise.
   Part 4: compact_eq_dense_m1 (one stored pair, any n).
   Part 5: theta_newest and the statement for a memory (X, G).
   compact = dense for ANY number of stored pairs (Byrd-Nocedal-Schnabel 1994, Theorem 2.3)
     is proved separately in BfgsGeneral.v; it is also evaluated exactly in Q on the
     correspondence histories (BfgsCheck.v, corr_bfgs.py). *)
From Coq Require Import QArith List Bool Arith Lia Lqa.
Import ListNotations.
From LBFGSB Require Import Model.Bfgs.
Open Scope Q_scope.

(* ================================================================ Q arithmetic *)

Lemma Qdiv_sq_nonneg : forall x c : Q, 0 < c -> 0 <= x * x / c.
Proof.
  intros x c Hc. unfold Qdiv.
  assert (Hi : 0 < / c) by (apply Qinv_lt_0_compat; exact Hc).
  nra.
Qed.

Lemma Qdiv_pos : forall x c : Q, 0 < x -> 0 < c -> 0 < x / c.
Proof.
  intros x c Hx Hc. unfold Qdiv.
  assert (Hi : 0 < / c) by (apply Qinv_lt_0_compat; exact Hc).
  nra.
Qed.

(* a quadratic polynomial that is nonnegative everywhere has a nonpositive discriminant *)
Lemma discriminant :
  forall A B C : Q, 0 <= C ->
    (forall t : Q, 0 <= A + 2 * t * B + t * t * C) -> B * B <= A * C.
Proof.
  intros A B C HC H.
  destruct (Qlt_le_dec 0 C) as [Cpos | Cle].
  - pose proof (H (- B / C)) as Ht.
    assert (E : A + 2 * (- B / C) * B + (- B / C) * (- B / C) * C == (A * C - B * B) / C)
      by (field; lra).
    rewrite E in Ht.
    assert (E2 : A * C - B * B == (A * C - B * B) / C * C) by (field; lra).
    assert (0 <= (A * C - B * B) / C * C) by nra.
    lra.
  - assert (C0 : C == 0) by lra.
    destruct (Qeq_dec B 0) as [B0 | Bn].
    + rewrite B0, C0. lra.
    + exfalso.
      pose proof (H (- (A + 1) / (2 * B))) as Ht.
      assert (E : A + 2 * (- (A + 1) / (2 * B)) * B
                  + (- (A + 1) / (2 * B)) * (- (A + 1) / (2 * B)) * C == -1 + 0).
      { rewrite C0. field. exact Bn. }
      rewrite E in Ht. lra.
Qed.

(* ================================================================ Part 1: abstract forms *)

Section BfgsForm.

  Variable V : Type.
  Variable add : V -> V -> V.
  Variable scal : Q -> V -> V.
  Variable dot : V -> V -> Q.

  Hypothesis dot_sym : forall u v, dot u v == dot v u.
  Hypothesis dot_add_l : forall u v w, dot (add u v) w == dot u w + dot v w.
  Hypothesis dot_scal_l : forall c u w, dot (scal c u) w == c * dot u w.
  Hypothesis dot_nonneg : forall v, 0 <= dot v v.

  Definition form : Type := V -> V -> Q.

  (* symmetric bilinear (linearity in the first argument + symmetry) *)
  Record bilin_sym (b : form) : Prop := {
    f_sym : forall u v, b u v == b v u;
    f_add : forall u v w, b (add u v) w == b u w + b v w;
    f_scal : forall c u w, b (scal c u) w == c * b u w
  }.

  Definition psd (b : form) : Prop := forall v, 0 <= b v v.
  (* positive definite: v^T B v > 0 for every v <> 0, "v <> 0" being 0 < dot v v *)
  Definition pd (b : form) : Prop := forall v, 0 < dot v v -> 0 < b v v.
  Definition spd (b : form) : Prop := bilin_sym b /\ psd b /\ pd b.

  Lemma f_add_r : forall b, bilin_sym b -> forall u v w, b w (add u v) == b w u + b w v.
  Proof.
    intros b Hb u v w.
    rewrite (f_sym b Hb w (add u v)), (f_add b Hb), (f_sym b Hb u w), (f_sym b Hb v w).
    reflexivity.
  Qed.

  Lemma f_scal_r : forall b, bilin_sym b -> forall c u w, b w (scal c u) == c * b w u.
  Proof.
    intros b Hb c u w.
    rewrite (f_sym b Hb w (scal c u)), (f_scal b Hb), (f_sym b Hb u w). reflexivity.
  Qed.

  Lemma dot_bilin_sym : bilin_sym dot.
  Proof. constructor; [exact dot_sym | exact dot_add_l | exact dot_scal_l]. Qed.

  Lemma expand_quadratic : forall b, bilin_sym b -> forall v s k,
    b (add v (scal k s)) (add v (scal k s)) == b v v + 2 * k * b v s + k * k * b s s.
  Proof.
    intros b Hb v s k.
    rewrite (f_add b Hb v (scal k s)).
    rewrite (f_add_r b Hb v (scal k s) v).
    rewrite (f_add_r b Hb v (scal k s) (scal k s)).
    rewrite (f_scal_r b Hb k s v).
    rewrite (f_scal b Hb k s v).
    rewrite (f_scal b Hb k s (scal k s)).
    rewrite (f_scal_r b Hb k s s).
    rewrite (f_sym b Hb s v).
    ring.
  Qed.

  (* Cauchy-Schwarz: nonnegativity of t |-> b (u + t v) (u + t v) and the discriminant *)
  Theorem cauchy_schwarz : forall b, bilin_sym b -> psd b ->
    forall u v, b u v * b u v <= b u u * b v v.
  Proof.
    intros b Hb Hpsd u v.
    apply discriminant.
    - apply Hpsd.
    - intro t. rewrite <- (expand_quadratic b Hb u v t). apply Hpsd.
  Qed.

  (* one BFGS update  B+ = B - (B s)(B s)^T/(s^T B s) + y y^T/(s^T y)  as a form *)
  Definition step (b : form) (s y : V) : form :=
    fun u v => b u v - b u s * b v s / b s s + dot y u * dot y v / dot s y.

  Lemma step_bilin_sym : forall b s y, bilin_sym b -> bilin_sym (step b s y).
  Proof.
    intros b s y Hb. constructor; unfold step.
    - intros u v. rewrite (f_sym b Hb u v). unfold Qdiv. ring.
    - intros u v w.
      rewrite (f_add b Hb u v w), (f_add b Hb u v s).
      rewrite (f_add_r dot dot_bilin_sym u v y).
      unfold Qdiv. ring.
    - intros c u w.
      rewrite (f_scal b Hb c u w), (f_scal b Hb c u s).
      rewrite (f_scal_r dot dot_bilin_sym c u y).
      unfold Qdiv. ring.
  Qed.

  (* (a) symmetry *)
  Theorem bfgs_step_sym : forall b s y, bilin_sym b ->
    forall u v, step b s y u v == step b s y v u.
  Proof. intros b s y Hb. exact (f_sym _ (step_bilin_sym b s y Hb)). Qed.

  (* s^T y > 0 forces s <> 0 *)
  Lemma curvature_s_nonzero : forall s y, 0 < dot s y -> 0 < dot s s.
  Proof.
    intros s y Hsy.
    pose proof (cauchy_schwarz dot dot_bilin_sym dot_nonneg s y) as CS.
    pose proof (dot_nonneg s) as Hs. pose proof (dot_nonneg y) as Hy.
    destruct (Qlt_le_dec 0 (dot s s)) as [Hp | Hn]; [exact Hp | exfalso].
    assert (E : dot s s == 0) by lra. rewrite E in CS. nra.
  Qed.

  Lemma curvature_y_nonzero : forall s y, 0 < dot s y -> 0 < dot y y.
  Proof.
    intros s y Hsy. apply (curvature_s_nonzero y s). rewrite dot_sym. exact Hsy.
  Qed.

  (* (a) secant equation  B+ s = y, tested against every v *)
  Theorem bfgs_step_secant : forall b s y, bilin_sym b -> pd b -> 0 < dot s y ->
    forall v, step b s y s v == dot y v.
  Proof.
    intros b s y Hb Hpd Hsy v.
    pose proof (Hpd s (curvature_s_nonzero s y Hsy)) as Ha.
    unfold step. rewrite (f_sym b Hb s v), (dot_sym y s).
    field. split; lra.
  Qed.

  Lemma step_decomp : forall b s y, bilin_sym b -> ~ b s s == 0 -> ~ dot s y == 0 -> forall v,
    step b s y v v ==
      b (add v (scal (- (b v s / b s s)) s)) (add v (scal (- (b v s / b s s)) s))
      + dot y v * dot y v / dot s y.
  Proof.
    intros b s y Hb Ha Hc v. rewrite (expand_quadratic b Hb). unfold step.
    field. split; assumption.
  Qed.

  Lemma step_psd : forall b s y, bilin_sym b -> psd b -> pd b -> 0 < dot s y ->
    psd (step b s y).
  Proof.
    intros b s y Hb Hpsd Hpd Hsy v.
    pose proof (Hpd s (curvature_s_nonzero s y Hsy)) as Ha.
    rewrite (step_decomp b s y Hb) by lra.
    pose proof (Hpsd (add v (scal (- (b v s / b s s)) s))) as H1.
    pose proof (Qdiv_sq_nonneg (dot y v) (dot s y) Hsy) as H2.
    lra.
  Qed.

  (* (a) positive definiteness *)
  Theorem bfgs_step_pd : forall b s y, bilin_sym b -> psd b -> pd b -> 0 < dot s y ->
    pd (step b s y).
  Proof.
    intros b s y Hb Hpsd Hpd Hsy v Hv.
    pose proof (Hpd s (curvature_s_nonzero s y Hsy)) as Ha.
    rewrite (step_decomp b s y Hb) by lra.
    set (t := b v s / b s s).
    set (w := add v (scal (- t) s)).
    pose proof (Hpsd w) as Hw0.
    pose proof (Qdiv_sq_nonneg (dot y v) (dot s y) Hsy) as Hq0.
    destruct (Qlt_le_dec 0 (dot w w)) as [Hwp | Hwn].
    - pose proof (Hpd w Hwp). lra.
    - (* w = 0, i.e. v = t s: then y.v = t (s.y) with t <> 0 *)
      assert (Ew : dot w w == 0) by (pose proof (dot_nonneg w); lra).
      pose proof (cauchy_schwarz dot dot_bilin_sym dot_nonneg y w) as CS.
      rewrite Ew in CS.
      assert (Eyw : dot y w == 0) by nra.
      unfold w in Eyw.
      rewrite (f_add_r dot dot_bilin_sym), (f_scal_r dot dot_bilin_sym), (dot_sym y s) in Eyw.
      assert (Eyv : dot y v == t * dot s y) by lra.
      pose proof (expand_quadratic dot dot_bilin_sym v s (- t)) as Ex.
      fold w in Ex. rewrite Ew in Ex.
      destruct (Qeq_dec t 0) as [t0 | tn].
      + exfalso. rewrite t0 in Ex. lra.
      + assert (E : dot y v * dot y v / dot s y == t * t * dot s y).
        { rewrite Eyv. field. lra. }
        rewrite E. assert (0 < t * t) by nra. nra.
  Qed.

  Lemma step_spd : forall b s y, spd b -> 0 < dot s y -> spd (step b s y).
  Proof.
    intros b s y (Hb & Hpsd & Hpd) Hsy. split; [| split].
    - apply step_bilin_sym; assumption.
    - apply step_psd; assumption.
    - apply bfgs_step_pd; assumption.
  Qed.

  (* the pairs applied in order (oldest first) *)
  Definition apply_pairs (b0 : form) (ps : list (V * V)) : form :=
    fold_left (fun b p => step b (fst p) (snd p)) ps b0.

  Definition dense_form (theta : Q) (ps : list (V * V)) : form :=
    apply_pairs (fun u v => theta * dot u v) ps.

  Definition curvature_ok (p : V * V) : Prop := 0 < dot (fst p) (snd p).

  Lemma scaled_dot_spd : forall theta, 0 < theta -> spd (fun u v => theta * dot u v).
  Proof.
    intros theta Ht. split; [constructor | split].
    - intros u v. rewrite (dot_sym u v). reflexivity.
    - intros u v w. rewrite dot_add_l. ring.
    - intros c u w. rewrite dot_scal_l. ring.
    - intro v. pose proof (dot_nonneg v). nra.
    - intros v Hv. nra.
  Qed.

  Lemma apply_pairs_spd : forall ps b0, spd b0 -> Forall curvature_ok ps ->
    spd (apply_pairs b0 ps).
  Proof.
    induction ps as [| p ps IH]; intros b0 H0 Hc; simpl.
    - exact H0.
    - inversion Hc; subst. apply IH; [| assumption].
      apply step_spd; assumption.
  Qed.

  Lemma apply_pairs_snoc : forall ps b0 s y,
    apply_pairs b0 (ps ++ [(s, y)]) = step (apply_pairs b0 ps) s y.
  Proof. intros. unfold apply_pairs. rewrite fold_left_app. reflexivity. Qed.

  (* (a) the dense BFGS form of a history of pairs with positive curvature *)
  Theorem dense_bfgs_spd_secant : forall theta ps,
    0 < theta -> Forall curvature_ok ps ->
    spd (dense_form theta ps) /\
    (forall ps' s y, ps = ps' ++ [(s, y)] -> forall v, dense_form theta ps s v == dot y v).
  Proof.
    intros theta ps Ht Hc. split.
    - apply apply_pairs_spd; [apply scaled_dot_spd; exact Ht | exact Hc].
    - intros ps' s y -> v. unfold dense_form. rewrite apply_pairs_snoc.
      apply Forall_app in Hc. destruct Hc as [Hc' Hl]. inversion Hl; subst.
      destruct (apply_pairs_spd ps' _ (scaled_dot_spd theta Ht) Hc') as (Hb & _ & Hpd).
      apply bfgs_step_secant; assumption.
  Qed.

  (* step respects pointwise equality of forms on the vectors it looks at *)
  Lemma step_ext : forall (P : V -> Prop) b b' s y, P s ->
    (forall u v, P u -> P v -> b u v == b' u v) ->
    forall u v, P u -> P v -> step b s y u v == step b' s y u v.
  Proof.
    intros P b b' s y Hs H u v Hu Hv. unfold step.
    rewrite (H u v Hu Hv), (H u s Hu Hs), (H v s Hv Hs), (H s s Hs Hs). reflexivity.
  Qed.

End BfgsForm.

(* ================================================================ Part 2: V = list Q *)

Lemma dot_raw_nil_r : forall u, dot_raw u [] = 0.
Proof. destruct u; reflexivity. Qed.

Lemma dot_raw_sym : forall u v, dot_raw u v == dot_raw v u.
Proof.
  induction u as [| a u IH]; intros [| b v]; simpl; try reflexivity.
  rewrite (IH v). ring.
Qed.

Lemma dot_raw_vadd_l : forall u v w, dot_raw (vadd u v) w == dot_raw u w + dot_raw v w.
Proof.
  induction u as [| a u IH]; intros [| b v] [| c w]; simpl; try ring.
  rewrite (IH v w). ring.
Qed.

Lemma dot_raw_vscale_l : forall c u w, dot_raw (vscale c u) w == c * dot_raw u w.
Proof.
  intros c. induction u as [| a u IH]; intros [| d w]; simpl; try ring.
  unfold vscale in IH. rewrite (IH w). ring.
Qed.

Lemma dot_raw_vscale_r : forall c u w, dot_raw w (vscale c u) == c * dot_raw w u.
Proof.
  intros c u w. rewrite (dot_raw_sym w (vscale c u)), dot_raw_vscale_l, (dot_raw_sym u w).
  reflexivity.
Qed.

Lemma dot_raw_nonneg : forall v, 0 <= dot_raw v v.
Proof. induction v as [| a v IH]; simpl; [lra | nra]. Qed.

(* "0 < dot v v" is "v has a nonzero entry" *)
Lemma dot_raw_pos_iff : forall v, 0 < dot_raw v v <-> Exists (fun a => ~ a == 0) v.
Proof.
  induction v as [| a v IH]; simpl.
  - split; [lra | intro H; inversion H].
  - pose proof (dot_raw_nonneg v) as Hv. split.
    + intro H. destruct (Qeq_dec a 0) as [a0 | an].
      * apply Exists_cons_tl. apply IH. rewrite a0 in H. lra.
      * apply Exists_cons_hd. exact an.
    + intro H. inversion H; subst.
      * assert (0 < a * a) by nra. lra.
      * assert (0 < dot_raw v v) by (apply IH; assumption). nra.
Qed.

(* the instance: all four Section hypotheses are discharged *)
Lemma ldot_bilin_sym : bilin_sym vec vadd vscale dot_raw.
Proof. exact (dot_bilin_sym vec vadd vscale dot_raw dot_raw_sym dot_raw_vadd_l dot_raw_vscale_l). Qed.

Definition lform : Type := form vec.
Definition lstep : lform -> vec -> vec -> lform := step vec dot_raw.
Definition lapply_pairs : lform -> list (vec * vec) -> lform := apply_pairs vec dot_raw.
Definition ldense_form : Q -> list (vec * vec) -> lform := dense_form vec dot_raw.

Theorem list_dense_form_spd_secant : forall theta ps,
  0 < theta -> Forall (curvature_ok vec dot_raw) ps ->
  spd vec vadd vscale dot_raw (ldense_form theta ps) /\
  (forall ps' s y, ps = ps' ++ [(s, y)] ->
     forall v, ldense_form theta ps s v == dot_raw y v).
Proof.
  exact (dense_bfgs_spd_secant vec vadd vscale dot_raw
           dot_raw_sym dot_raw_vadd_l dot_raw_vscale_l dot_raw_nonneg).
Qed.

(* ================================================================ Part 3: the dense matrix *)

Lemma quad_cons : forall r B a u v,
  quad (r :: B) (a :: u) v = a * dot_raw r v + quad B u v.
Proof. reflexivity. Qed.

Lemma quad_nil_B : forall u v, quad [] u v = 0.
Proof. intros. unfold quad. simpl. apply dot_raw_nil_r. Qed.

Lemma quad_nil_u : forall B v, quad B [] v = 0.
Proof. reflexivity. Qed.

Lemma quad_nil_v : forall B u, quad B u [] == 0.
Proof.
  induction B as [| r B IH]; intros [| a u]; try reflexivity.
  rewrite quad_cons, IH, dot_raw_nil_r. ring.
Qed.

Lemma quad_madd : forall A B u v, quad (madd A B) u v == quad A u v + quad B u v.
Proof.
  induction A as [| r A IH]; intros B u v.
  - change (madd [] B) with B. rewrite quad_nil_B. ring.
  - destruct B as [| q B].
    + change (madd (r :: A) []) with (r :: A). rewrite quad_nil_B. ring.
    + destruct u as [| a u].
      * rewrite !quad_nil_u. ring.
      * change (madd (r :: A) (q :: B)) with (vadd r q :: madd A B).
        rewrite !quad_cons, IH, dot_raw_vadd_l. ring.
Qed.

Lemma quad_mscale : forall c A u v, quad (mscale c A) u v == c * quad A u v.
Proof.
  intros c. induction A as [| r A IH]; intros u v.
  - change (mscale c []) with (@nil vec). rewrite quad_nil_B. ring.
  - destruct u as [| a u].
    + rewrite !quad_nil_u. ring.
    + change (mscale c (r :: A)) with (vscale c r :: mscale c A).
      rewrite !quad_cons, IH, dot_raw_vscale_l. ring.
Qed.

Lemma quad_outer : forall p q u v, quad (outer p q) u v == dot_raw u p * dot_raw q v.
Proof.
  induction p as [| a p IH]; intros q u v.
  - change (outer [] q) with (@nil vec). rewrite quad_nil_B, dot_raw_nil_r. ring.
  - destruct u as [| x u].
    + rewrite quad_nil_u. simpl. ring.
    + change (outer (a :: p) q) with (vscale a q :: outer p q).
      rewrite quad_cons, IH, dot_raw_vscale_l. simpl. ring.
Qed.

Lemma dot_raw_nv : forall r v, dot_raw (nv r) v == dot_raw r v.
Proof.
  induction r as [| a r IH]; intros [| b v]; simpl; try reflexivity.
  unfold nv in IH. rewrite Qred_correct, (IH v). reflexivity.
Qed.

Lemma dot_raw_nv_r : forall r v, dot_raw v (nv r) == dot_raw v r.
Proof. intros. rewrite (dot_raw_sym v (nv r)), dot_raw_nv. apply dot_raw_sym. Qed.

Lemma quad_nm : forall A u v, quad (nm A) u v == quad A u v.
Proof.
  induction A as [| r A IH]; intros u v.
  - reflexivity.
  - destruct u as [| a u].
    + reflexivity.
    + change (nm (r :: A)) with (nv r :: nm A).
      rewrite !quad_cons, IH, dot_raw_nv. reflexivity.
Qed.

Lemma dot_raw_repeat0 : forall n v, dot_raw (repeat 0 n) v == 0.
Proof.
  induction n as [| n IH]; intros [| b v]; simpl; try reflexivity.
  rewrite IH. ring.
Qed.

Lemma quad_cons0 : forall A u b v, quad (map (cons 0) A) u (b :: v) == quad A u v.
Proof.
  induction A as [| r A IH]; intros u b v.
  - reflexivity.
  - destruct u as [| a u].
    + reflexivity.
    + change (map (cons 0) (r :: A)) with ((0 :: r) :: map (cons 0) A).
      rewrite !quad_cons, IH. simpl. ring.
Qed.

Lemma quad_sid : forall n t u v, (length u <= n)%nat -> quad (sid n t) u v == t * dot_raw u v.
Proof.
  induction n as [| n IH]; intros t u v Hl.
  - destruct u; [| simpl in Hl; lia]. simpl. rewrite quad_nil_B. ring.
  - destruct u as [| a u].
    + rewrite quad_nil_u. simpl. ring.
    + destruct v as [| b v].
      * rewrite quad_nil_v, dot_raw_nil_r. ring.
      * change (sid (S n) t) with ((t :: repeat 0 n) :: map (cons 0) (sid n t)).
        rewrite quad_cons, quad_cons0, IH by (simpl in Hl; lia).
        simpl. rewrite dot_raw_repeat0. ring.
Qed.

(* one matrix update represents one form update; no length condition *)
Lemma quad_bfgs_step : forall B s y u v,
  quad (bfgs_step B s y) u v == lstep (quad B) s y u v.
Proof.
  intros B s y u v. unfold bfgs_step, lstep, step.
  rewrite quad_nm, !quad_madd, !quad_mscale, !quad_outer.
  rewrite !Qred_correct, !dot_raw_nv, !dot_raw_nv_r.
  change (dot_raw u (mvmul B s)) with (quad B u s).
  change (dot_raw s (mvmul B s)) with (quad B s s).
  rewrite (dot_raw_sym (mvmul B s) v).
  change (dot_raw v (mvmul B s)) with (quad B v s).
  rewrite (dot_raw_sym u y).
  unfold Qdiv. ring.
Qed.

Definition short (n : nat) (v : vec) : Prop := (length v <= n)%nat.

Lemma dense_from_form : forall n ps B b,
  Forall (fun p => short n (fst p)) ps ->
  (forall u v, short n u -> short n v -> quad B u v == b u v) ->
  forall u v, short n u -> short n v ->
    quad (dense_from B ps) u v == lapply_pairs b ps u v.
Proof.
  intros n. induction ps as [| [s y] ps IH]; intros B b Hs H u v Hu Hv; simpl.
  - apply H; assumption.
  - inversion Hs; subst. simpl in *.
    apply IH; try assumption.
    intros u' v' Hu' Hv'. rewrite quad_bfgs_step.
    apply (step_ext vec dot_raw (short n)); assumption.
Qed.

(* the executable dense matrix represents the abstract dense form on vectors of length <= n *)
Theorem dense_bfgs_form : forall n theta ps,
  Forall (fun p => short n (fst p)) ps ->
  forall u v, short n u -> short n v ->
    quad (dense_bfgs n theta ps) u v == ldense_form theta ps u v.
Proof.
  intros n theta ps Hs u v Hu Hv.
  apply (dense_from_form n ps (sid n theta) (fun u v => theta * dot_raw u v)); try assumption.
  intros u' v' Hu' _. apply quad_sid. exact Hu'.
Qed.

Definition curv (p : vec * vec) : Prop := 0 < dot_raw (fst p) (snd p).

(* (a) for the executable matrix: symmetric, positive definite, secant for the LAST pair *)
Theorem dense_bfgs_matrix_spd_secant : forall n theta ps,
  0 < theta ->
  Forall (fun p => short n (fst p)) ps ->
  Forall curv ps ->
  let B := dense_bfgs n theta ps in
  (forall u v, short n u -> short n v -> quad B u v == quad B v u) /\
  (forall v, short n v -> 0 < dot_raw v v -> 0 < quad B v v) /\
  (forall ps' s y, ps = ps' ++ [(s, y)] ->
     forall v, short n v -> quad B v s == dot_raw v y).
Proof.
  intros n theta ps Ht Hs Hc B.
  destruct (list_dense_form_spd_secant theta ps Ht Hc) as ((Hb & _ & Hpd) & Hsec).
  split; [| split].
  - intros u v Hu Hv. unfold B. rewrite !dense_bfgs_form by assumption.
    apply (f_sym _ _ _ _ Hb).
  - intros v Hv Hpos. unfold B. rewrite dense_bfgs_form by assumption.
    apply Hpd. exact Hpos.
  - intros ps' s y E v Hv.
    assert (Hss : short n s).
    { rewrite E in Hs. apply Forall_app in Hs. destruct Hs as [_ Hl].
      inversion Hl; subst. assumption. }
    unfold B. rewrite dense_bfgs_form by assumption.
    rewrite (f_sym _ _ _ _ Hb v s), (Hsec ps' s y E v). apply dot_raw_sym.
Qed.

(* entrywise readings: unit vectors *)
Definition unit (i : nat) : vec := repeat 0 i ++ [1].

Lemma dot_raw_unit : forall i w, dot_raw (unit i) w == nth i w 0.
Proof.
  induction i as [| i IH]; intros [| b w]; simpl; try reflexivity.
  - ring.
  - fold (unit i). rewrite IH. ring.
Qed.

Lemma short_unit : forall n i, (i < n)%nat -> short n (unit i).
Proof.
  intros n i Hi. unfold short, unit. rewrite app_length, repeat_length. simpl. lia.
Qed.

Lemma quad_unit_l : forall B i v, quad B (unit i) v == nth i (mvmul B v) 0.
Proof. intros. unfold quad. apply dot_raw_unit. Qed.

(* B s = y, entry by entry *)
Theorem dense_bfgs_secant_entries : forall n theta ps ps' s y,
  0 < theta ->
  Forall (fun p => short n (fst p)) ps ->
  Forall curv ps ->
  ps = ps' ++ [(s, y)] ->
  forall i, (i < n)%nat -> nth i (mvmul (dense_bfgs n theta ps) s) 0 == nth i y 0.
Proof.
  intros n theta ps ps' s y Ht Hs Hc E i Hi.
  destruct (dense_bfgs_matrix_spd_secant n theta ps Ht Hs Hc) as (_ & _ & Hsec).
  rewrite <- quad_unit_l, <- dot_raw_unit.
  apply (Hsec ps' s y E). apply short_unit. exact Hi.
Qed.

(* B_ij = B_ji *)
Theorem dense_bfgs_sym_entries : forall n theta ps,
  0 < theta ->
  Forall (fun p => short n (fst p)) ps ->
  Forall curv ps ->
  forall i j, (i < n)%nat -> (j < n)%nat ->
    quad (dense_bfgs n theta ps) (unit i) (unit j) == quad (dense_bfgs n theta ps) (unit j) (unit i).
Proof.
  intros n theta ps Ht Hs Hc i j Hi Hj.
  destruct (dense_bfgs_matrix_spd_secant n theta ps Ht Hs Hc) as (Hsym & _ & _).
  apply Hsym; apply short_unit; assumption.
Qed.

(* ================================================================ Part 4: compact = dense, m = 1 *)

Lemma compact_m1 : forall x0 x1 g0 g1,
  let s := vsub x1 x0 in
  let y := vsub g1 g0 in
  let theta := Qred (dot_raw y y / dot_raw s y) in
  compact [x0; x1] [g0; g1] =
  {| c_theta := theta; c_S := [s]; c_Y := [y];
     c_D := [[dot_raw s y]]; c_L := [[0]]; c_STS := [[dot_raw s s]];
     c_W := [y; vscale theta s];
     c_Minv := [[-1 * dot_raw s y; 0]; [0; theta * dot_raw s s]] |}.
Proof. reflexivity. Qed.

Lemma veq_bool_2 : forall a b c d, veq_bool (nv [a; b]) [c; d] = true -> a == c /\ b == d.
Proof.
  intros a b c d H. simpl in H.
  apply andb_true_iff in H. destruct H as [H1 H2].
  apply andb_true_iff in H2. destruct H2 as [H2 _].
  apply Qeq_bool_iff in H1. apply Qeq_bool_iff in H2.
  rewrite Qred_correct in H1, H2. split; assumption.
Qed.

Lemma dot_raw_pos_nonzero : forall s y, ~ dot_raw s y == 0 -> ~ dot_raw s s == 0.
Proof.
  intros s y Hsy Hss.
  pose proof (cauchy_schwarz vec vadd vscale dot_raw ldot_bilin_sym dot_raw_nonneg s y) as CS.
  rewrite Hss in CS. apply Hsy. nra.
Qed.

(* (b) ONE stored pair, any dimension n: theta I - W M W^T is the dense BFGS matrix, as
   bilinear forms on vectors of length <= n, for every 2x2 matrix M that passes the check
   Minv * M = I (the check performed by Bfgs.lbfgs_matrix). *)
Theorem compact_eq_dense_m1 : forall n x0 x1 g0 g1 m00 m01 m10 m11,
  let C := compact [x0; x1] [g0; g1] in
  let s := vsub x1 x0 in
  let y := vsub g1 g0 in
  let M := [[m00; m01]; [m10; m11]] in
  short n s ->
  ~ dot_raw s y == 0 ->
  meq_bool (nm (mmul (c_Minv C) M)) (sid 2 1) = true ->
  forall u v, short n u -> short n v ->
    quad (compact_B n (c_theta C) (c_W C) M) u v
    == quad (dense_bfgs n (c_theta C) (pairs [x0; x1] [g0; g1])) u v.
Proof.
  intros n x0 x1 g0 g1 m00 m01 m10 m11 C s y M Hs Hsy HM u v Hu Hv.
  unfold C in *. rewrite compact_m1 in *. fold s y in HM |- *.
  set (theta := Qred (dot_raw y y / dot_raw s y)) in *.
  cbn [c_theta c_W c_Minv] in *.
  change (pairs [x0; x1] [g0; g1]) with [(s, y)].
  (* the four equations Minv * M = I *)
  change (nm (mmul [[-1 * dot_raw s y; 0]; [0; theta * dot_raw s s]] M))
    with [nv [Qred (-1 * dot_raw s y * m00 + Qred (0 * m10));
              Qred (-1 * dot_raw s y * m01 + Qred (0 * m11))];
          nv [Qred (0 * m00 + Qred (theta * dot_raw s s * m10));
              Qred (0 * m01 + Qred (theta * dot_raw s s * m11))]] in HM.
  change (sid 2 1) with [[1; 0]; [0; 1]] in HM.
  change (meq_bool [?a; ?b] [?c; ?d]) with (veq_bool a c && (veq_bool b d && true)) in HM.
  apply andb_true_iff in HM. destruct HM as [HM0 HM1].
  apply andb_true_iff in HM1. destruct HM1 as [HM1 _].
  apply veq_bool_2 in HM0. apply veq_bool_2 in HM1.
  destruct HM0 as [E00 E01]. destruct HM1 as [E10 E11].
  rewrite !Qred_correct in E00, E01, E10, E11.
  pose proof (dot_raw_pos_nonzero s y Hsy) as Hss.
  assert (Hth : ~ theta == 0).
  { intro H0. rewrite H0 in E11. lra. }
  assert (M00 : m00 == - / dot_raw s y) by (field_simplify_eq; [lra | exact Hsy]).
  assert (M01 : m01 == 0) by nra.
  assert (Hts : ~ theta * dot_raw s s == 0) by (intro H0; rewrite H0 in E11; lra).
  assert (M10 : m10 == 0) by nra.
  assert (M11 : m11 == / (theta * dot_raw s s)) by (field_simplify_eq; [lra | split; assumption]).
  (* left-hand side *)
  unfold compact_B, wmw. rewrite quad_nm, quad_madd, quad_mscale, (quad_sid n theta u v Hu).
  unfold M. cbn [wmw_aux lincomb].
  rewrite !quad_nm, !quad_madd, !quad_nm, !quad_madd, !quad_outer, quad_nil_B.
  rewrite !dot_raw_nv, !dot_raw_vadd_l, !dot_raw_vscale_l, !dot_raw_nv, !dot_raw_vadd_l, !dot_raw_vscale_l.
  change (dot_raw [] v) with 0.
  (* right-hand side *)
  unfold dense_bfgs, dense_from. cbn [fold_left fst snd].
  rewrite quad_bfgs_step. unfold lstep, step.
  rewrite (quad_sid n theta u v Hu), (quad_sid n theta u s Hu), (quad_sid n theta v s Hv),
          (quad_sid n theta s s Hs).
  rewrite M00, M01, M10, M11.
  rewrite dot_raw_vscale_r, (dot_raw_sym u y), (dot_raw_sym s v).
  clearbody theta.
  field. repeat split; assumption.
Qed.

(* ================================================================ Part 5: theta, memory *)

Lemma rev_snoc2 : forall (A : Type) (l : list A) a b, rev (l ++ [a; b]) = b :: a :: rev l.
Proof. intros. rewrite rev_app_distr. reflexivity. Qed.

Lemma diffs_snoc2 : forall X a b, diffs (X ++ [a; b]) = diffs (X ++ [a]) ++ [vsub b a].
Proof.
  induction X as [| x X IH]; intros a b.
  - reflexivity.
  - destruct X as [| x' X].
    + reflexivity.
    + change (diffs ((x :: x' :: X) ++ [a; b]))
        with (vsub x' x :: diffs ((x' :: X) ++ [a; b])).
      rewrite IH. reflexivity.
Qed.

Lemma diffs_length : forall X, length (diffs X) = pred (length X).
Proof.
  induction X as [| x X IH]; [reflexivity |].
  destruct X as [| x' X]; [reflexivity |].
  change (diffs (x :: x' :: X)) with (vsub x' x :: diffs (x' :: X)).
  simpl length in *. rewrite IH. reflexivity.
Qed.

Lemma combine_app_eq : forall (A B : Type) (l1 l2 : list A) (k1 k2 : list B),
  length l1 = length k1 -> combine (l1 ++ l2) (k1 ++ k2) = combine l1 k1 ++ combine l2 k2.
Proof.
  induction l1 as [| a l1 IH]; intros l2 [| b k1] k2 H; simpl in *; try discriminate.
  - reflexivity.
  - rewrite IH by (injection H; auto). reflexivity.
Qed.

Lemma pairs_snoc2 : forall X G x0 x1 g0 g1, length X = length G ->
  pairs (X ++ [x0; x1]) (G ++ [g0; g1])
  = pairs (X ++ [x0]) (G ++ [g0]) ++ [(vsub x1 x0, vsub g1 g0)].
Proof.
  intros X G x0 x1 g0 g1 Hl. unfold pairs. rewrite !diffs_snoc2.
  rewrite combine_app_eq.
  - reflexivity.
  - rewrite !diffs_length, !app_length, Hl. reflexivity.
Qed.

(* (c) theta of the compact form is y.y / s.y of the NEWEST stored pair *)
Theorem theta_newest : forall X G x0 x1 g0 g1, length X = length G ->
  let s := vsub x1 x0 in
  let y := vsub g1 g0 in
  last (pairs (X ++ [x0; x1]) (G ++ [g0; g1])) ([], []) = (s, y) /\
  c_theta (compact (X ++ [x0; x1]) (G ++ [g0; g1])) == dot_raw y y / dot_raw s y.
Proof.
  intros X G x0 x1 g0 g1 Hl s y. split.
  - rewrite pairs_snoc2 by exact Hl. apply last_last.
  - unfold compact. rewrite diffs_snoc2.
    destruct (diffs (X ++ [x0]) ++ [vsub x1 x0]) eqn:E.
    + destruct (diffs (X ++ [x0])); discriminate.
    + cbn [c_theta]. unfold last_diff. rewrite !rev_snoc2. apply Qred_correct.
Qed.

Lemma vsub_length : forall u v, length (vsub u v) = Nat.max (length u) (length v).
Proof.
  induction u as [| a u IH]; intros [| b v]; simpl; try reflexivity.
  - rewrite map_length. reflexivity.
  - rewrite IH. reflexivity.
Qed.

Lemma diffs_short : forall n X, Forall (short n) X -> Forall (short n) (diffs X).
Proof.
  intros n. induction X as [| x X IH]; intro H; [constructor |].
  destruct X as [| x' X]; [constructor |].
  change (diffs (x :: x' :: X)) with (vsub x' x :: diffs (x' :: X)).
  inversion H as [| ? ? Hx H']; subst. inversion H' as [| ? ? Hx' H'']; subst.
  constructor.
  - unfold short in *. rewrite vsub_length. lia.
  - apply IH. assumption.
Qed.

Lemma pairs_short : forall n X G, Forall (short n) X ->
  Forall (fun p => short n (fst p)) (pairs X G).
Proof.
  intros n X G HX. unfold pairs.
  pose proof (diffs_short n X HX) as HS. revert HS. generalize (diffs X) (diffs G).
  induction l as [| s S IH]; intros [| y Y] HS; simpl; try constructor.
  - inversion HS; assumption.
  - apply IH. inversion HS; assumption.
Qed.

(* The matrix of a memory: for stored points X (>= 2, dimension <= n) and gradients G whose
   pairs all have positive curvature, the dense BFGS matrix built from theta of the compact
   form and the stored pairs in order is symmetric, positive definite and satisfies the secant
   equation for the newest pair. *)
Theorem memory_matrix_spd_secant : forall n X G x0 x1 g0 g1,
  length X = length G ->
  let X' := X ++ [x0; x1] in
  let G' := G ++ [g0; g1] in
  Forall (short n) X' ->
  Forall curv (pairs X' G') ->
  let theta := c_theta (compact X' G') in
  let B := dense_bfgs n theta (pairs X' G') in
  let s := vsub x1 x0 in
  let y := vsub g1 g0 in
  0 < theta /\
  (forall u v, short n u -> short n v -> quad B u v == quad B v u) /\
  (forall v, short n v -> 0 < dot_raw v v -> 0 < quad B v v) /\
  (forall v, short n v -> quad B v s == dot_raw v y) /\
  (forall i, (i < n)%nat -> nth i (mvmul B s) 0 == nth i y 0).
Proof.
  intros n X G x0 x1 g0 g1 Hl X' G' HX Hc theta B s y.
  destruct (theta_newest X G x0 x1 g0 g1 Hl) as [Hlast Hth].
  fold X' G' s y in Hlast, Hth. fold theta in Hth.
  pose proof (pairs_snoc2 X G x0 x1 g0 g1 Hl) as Esnoc. fold X' G' s y in Esnoc.
  assert (Hsy : 0 < dot_raw s y).
  { rewrite Esnoc in Hc. apply Forall_app in Hc. destruct Hc as [_ Hc].
    inversion Hc; subst. assumption. }
  assert (Hyy : 0 < dot_raw y y).
  { apply (curvature_y_nonzero vec vadd vscale dot_raw dot_raw_sym dot_raw_vadd_l
             dot_raw_vscale_l dot_raw_nonneg s y Hsy). }
  assert (Ht : 0 < theta) by (rewrite Hth; apply Qdiv_pos; assumption).
  pose proof (pairs_short n X' G' HX) as Hs.
  destruct (dense_bfgs_matrix_spd_secant n theta (pairs X' G') Ht Hs Hc) as (Hsym & Hpd & Hsec).
  split; [exact Ht |]. split; [exact Hsym |]. split; [exact Hpd |]. split.
  - intros v Hv. apply (Hsec _ s y Esnoc v Hv).
  - intros i Hi.
    apply (dense_bfgs_secant_entries n theta (pairs X' G') _ s y Ht Hs Hc Esnoc i Hi).
Qed.

(* ================================================================ Examples (non-vacuity) *)

(* a concrete memory with three pairs in dimension 3, all with positive curvature *)
Definition exX : list vec := [[0; 0; 0]; [1; 0; 1 # 2]; [1; 1; 1]; [2; 1; 0]].
Definition exG : list vec := [[1; 1; 1]; [3; 1; 2]; [3; 4; 3]; [6; 4; 2 # 3]].

Definition Qlt_bool (a b : Q) : bool := negb (Qle_bool b a).

Example ex_curvature :
  forallb (fun p => Qlt_bool 0 (dot_raw (fst p) (snd p))) (pairs exX exG) = true.
Proof. vm_compute. reflexivity. Qed.

Example ex_theta_newest :
  c_theta (compact exX exG) == dot_raw [3; 0; -7 # 3] [3; 0; -7 # 3] / dot_raw [1; 0; -1] [3; 0; -7 # 3]
  /\ last (pairs exX exG) ([], []) = ([1; 0; -1], [3; 0; -(7 # 3)]).
Proof. split; vm_compute; reflexivity. Qed.

(* hypotheses of bfgs_step_*: a symmetric positive definite form (2 I on Q^3) and s.y > 0 *)
Example ex_step :
  let B := bfgs_step (sid 3 2) [1; 0; 1 # 2] [2; 0; 1] in
  Qlt_bool 0 (dot_raw [1; 0; 1 # 2] [2; 0; 1]) = true /\
  veq_bool (nv (mvmul B [1; 0; 1 # 2])) [2; 0; 1] = true /\        (* secant *)
  meq_bool B (nm (transpose 3 B)) = true /\                           (* symmetric *)
  Qlt_bool 0 (quad B [1; -2; 3] [1; -2; 3]) = true.                   (* a positive value *)
Proof. vm_compute. repeat split; reflexivity. Qed.

(* dense_bfgs_matrix_spd_secant on the memory: secant for the newest pair, symmetric *)
Example ex_dense :
  let B := dense_bfgs 3 (c_theta (compact exX exG)) (pairs exX exG) in
  veq_bool (nv (mvmul B [1; 0; -1])) (nv [3; 0; -7 # 3]) = true /\
  meq_bool B (nm (transpose 3 B)) = true.
Proof. vm_compute. split; reflexivity. Qed.

(* compact_eq_dense_m1: hypotheses satisfiable (one pair, n = 3), conclusion observed *)
Example ex_m1 :
  let X := [[0; 0; 0]; [1; 0; 1 # 2]] in
  let G := [[1; 1; 1]; [3; 1; 2]] in
  let C := compact X G in
  let M := [[-2 # 5; 0]; [0; 2 # 5]] in
  meq_bool (nm (mmul (c_Minv C) M)) (sid 2 1) = true /\
  qinv (c_Minv C) = Some M /\
  meq_bool (compact_B 3 (c_theta C) (c_W C) M) (dense_bfgs 3 (c_theta C) (pairs X G)) = true.
Proof. vm_compute. repeat split; reflexivity. Qed.

(* m = 3, by evaluation (the general theorem is BfgsGeneral.compact_eq_dense) *)
Example ex_m3_test :
  match lbfgs_matrix 3 exX exG with
  | Some B => meq_bool B (dense_bfgs 3 (c_theta (compact exX exG)) (pairs exX exG))
  | None => false
  end = true.
Proof. vm_compute. reflexivity. Qed.
