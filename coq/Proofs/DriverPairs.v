(* C18 on the driver model: the correction pairs carried by every callback state and by the result are differences of a
   bounded, chronological history of points the run accepted and of the (scaled) gradients the user returned there, each
   adjacent pair of which passed the curvature test.  Run without checkpoint and without update function. *)
From Coq Require Import List ZArith Bool String Lia Floats.PrimFloat.
From LBFGSB Require Import Base.Res Base.Hoare Base.FloatOrd Model.SF Model.FloatVec Model.Driver Generated.StopTests
  Proofs.SFProofs Proofs.DriverReport Proofs.DriverValues Proofs.DriverMemory Proofs.DriverShape.
Import ListNotations.
Open Scope Z_scope.

Section Pairs.
  Variable U : user.
  Variable K : kern.
  Variable c : cfg.
  Hypothesis maxcor_pos : 0 <= maxcor c.
  Hypothesis user_respects_array_equal : forall p q, veqb p q = true ->
    uf U p = uf U q /\ ug U p = ug U q /\ fd_stencil U p = fd_stencil U q /\ fd_est U p = fd_est U q.
  Hypothesis no_update_function : u_upd U = None.
  Hypothesis no_checkpoint : checkpoint c = None.

  Notation sfst := (SF.st vec float vec float).
  Notation scale := (SF.scale vec float vec float).
  Notation InvS := (Inv vec float vec float (uf U) (ug U) (fd_stencil U) (fd_est U) (fdmode U)).

  Lemma step_sc_spec x g t2 t3 tr : step_sc U c x g t2 = (Ok t3, tr) -> InvS t2 -> InvS t3 /\ snaps tr = [].
  Proof.
    unfold step_sc. destruct (u_scaler U) as [sc|].
    - intros H HI. apply bind_ok_inv in H as (s & t1 & t2' & H1 & H2 & ->). unfold call in H1. inversion H1; subst.
      unfold ret in H2. inversion H2; subst. split; [apply Inv_set_scale; exact HI|reflexivity].
    - unfold ret. intros H HI. inversion H; subst. auto.
  Qed.

  (* the state with which the loop is entered, for a fresh run *)
  Lemma first_state_ok x f0 t1 tr1 g t2 tr4 t3 tr5 f1 g1 G1 tr6 :
    step_f0 U c x = (Ok (f0, t1), tr1) -> step_g U c x t1 = (Ok (g, t2), tr4) -> step_sc U c x g t2 = (Ok t3, tr5) ->
    step_upd U x (mul f0 (scale t3)) (vscale g (scale t3)) (fst (restored c)) (snd (restored c)) = (Ok (f1, g1, G1), tr6) ->
    let s0 := first_state U K c x f1 g1 G1 t3 in
    VI U (scale t3) s0 /\ MEMV U K c (scale t3) s0 /\ snaps (tr1 ++ tr4 ++ tr5 ++ tr6) = [].
  Proof.
    intros H1 H4 H5 H6.
    unfold step_f0, t_init in H1. rewrite no_checkpoint in H1.
    destruct (val_sf_fun U user_respects_array_equal x _ (Inv_init _ _ _ _ _ _ _ _ _ x fone) _ _ H1) as (I1 & S1 & (fv & V0 & Ef0) & N1 & _).
    cbn in I1, S1, Ef0.
    unfold step_g in H4. rewrite no_checkpoint in H4.
    destruct (val_sf_grad U user_respects_array_equal x _ I1 _ _ H4) as (I2 & S2 & (gv & Vg & Eg) & N4 & _). cbn in I2, S2, Eg. rewrite S1 in *.
    destruct (step_sc_spec _ _ _ _ _ H5 I2) as (I3 & N5).
    unfold step_upd in H6. rewrite no_update_function in H6. unfold ret in H6. inversion H6; subst f1 g1 G1 tr6.
    assert (ER : restored c = ([], [])) by (unfold restored; rewrite no_checkpoint; reflexivity).
    unfold first_state, nit_start. rewrite ER, no_update_function. cbn [fst snd].
    assert (Hc : coh U (scale t3) x (mul f0 (scale t3)) (vscale g (scale t3))).
    { exists fv, gv. split; [exact V0|]. split; [exact Vg|]. rewrite Ef0, Eg, vscale_one. unfold fone. rewrite mul_one_r. auto. }
    split; [unfold VI; cbn; auto|]. split.
    - unfold MEMV, hist_ok. cbn [s_X s_G]. split; [repeat split; cbn; auto; lia|]. constructor; [|constructor]. eapply coh_gen; eauto.
    - rewrite !snaps_app, N1, N4, N5. reflexivity.
  Qed.

  Definition result_pairs (sg : float) (r : result) : Prop :=
    pairs_of U K c sg (r_sk r) (r_yk r) \/ (r_sk r = [] /\ r_yk r = [] /\ r_msg r = MTarget).

  Theorem pairs_run : forall r tr, run U K c = (Ok r, tr) ->
    exists sg, Forall (ev_pairs U K c sg) tr /\ result_pairs sg r.
  Proof.
    intros r tr H. pose proof (run_shape_of U K c _ r tr H eq_refl) as S.
    destruct S as [f0 t1 tr1 ft tr2 gt tr3 H1 H2 H3 Ht Hr Htr | f0 t1 tr1 ft tr2 gt tr3 g t2 tr4 t3 tr5 f1 g1 G1 tr6 s' tr7 H1 H2 H3 Ht H4 H5 H6 H7 Hr Htr].
    - exists fone. subst tr. split.
      + apply snaps_nil_pairs. rewrite !snaps_app.
        assert (N1 : snaps tr1 = []).
        { unfold step_f0, t_init in H1. rewrite no_checkpoint in H1.
          destruct (val_sf_fun U user_respects_array_equal _ _ (Inv_init _ _ _ _ _ _ _ _ _ _ fone) _ _ H1) as (_ & _ & _ & N & _). exact N. }
        assert (N2 : snaps tr2 = []).
        { unfold step_ft in H2. destruct (ftarget c) as [[v|]|]; try (unfold ret in H2; inversion H2; reflexivity).
          apply bind_ok_inv in H2 as (v & a & b & Ha & Hb & ->). unfold call in Ha. inversion Ha; subst. unfold ret in Hb. inversion Hb; reflexivity. }
        assert (N3 : snaps tr3 = []).
        { unfold step_gt in H3. destruct (gtol c); [unfold ret in H3; inversion H3; reflexivity|unfold call in H3; inversion H3; reflexivity]. }
        rewrite N1, N2, N3. reflexivity.
      + right. subst r. unfold early_result. rewrite no_checkpoint. cbn. auto.
    - destruct (first_state_ok _ _ _ _ _ _ _ _ _ _ _ _ _ H1 H4 H5 H6) as (V0 & M0 & N0).
      exists (scale t3).
      destruct (mem_loop U K c maxcor_pos user_respects_array_equal no_update_function _ _ _ _ _ V0 M0 _ _ H7) as (M7 & E7).
      assert (N2 : snaps tr2 = []).
      { unfold step_ft in H2. destruct (ftarget c) as [[v|]|]; try (unfold ret in H2; inversion H2; reflexivity).
        apply bind_ok_inv in H2 as (v & a & b & Ha & Hb & ->). unfold call in Ha. inversion Ha; subst. unfold ret in Hb. inversion Hb; reflexivity. }
      assert (N3 : snaps tr3 = []).
      { unfold step_gt in H3. destruct (gtol c); [unfold ret in H3; inversion H3; reflexivity|unfold call in H3; inversion H3; reflexivity]. }
      rewrite !snaps_app in N0. apply app_eq_nil in N0 as (N1 & N0). apply app_eq_nil in N0 as (N4 & N0). apply app_eq_nil in N0 as (N5 & N6).
      split.
      + subst tr. repeat (apply Forall_app; split); try (apply snaps_nil_pairs; assumption). exact E7.
      + left. subst r. exists (s_X s'), (s_G s'). unfold classify.
        destruct (leb _ _); [cbn; auto|]. destruct (_ >=? _); [cbn; auto|]. destruct (_ >=? _); cbn; auto.
  Qed.
End Pairs.
