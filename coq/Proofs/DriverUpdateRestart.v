(* C13, last clause: after the update function has rewritten the history at an iteration, the run goes on from exactly the
   state with which a RESTART - without update function, on whatever the new objective is - enters its loop when its checkpoint
   holds the rewritten, filtered history and the values the function returned for the new point.  As for C06 the statement is
   conditional on the checkpoint's differences rebuilding the stored points exactly (true over any abelian group,
   Proofs/RestoreProofs.v; in binary64 up to the rounding of x - cumsum); everything else - which points survive, the forced
   rebuild of the matrices from the filtered history, their reset when one point is left, the iteration counter - agrees
   exactly.  From equal states the two runs take equal steps for as long as the user's callables answer alike
   (Proofs/DriverRestartState.restart_continues). *)
From Coq Require Import List ZArith Bool String Lia Floats.PrimFloat.
From LBFGSB Require Import Base.Res Model.SF Model.FloatVec Model.Driver Generated.StopTests Proofs.DriverMemory Proofs.DriverShape Proofs.DriverFilter.
Import ListNotations.
Open Scope Z_scope.

Section UpdateRestart.
  Variable K : kern.
  Variables (U : user) (c : cfg).       (* the run with an update function *)
  Variables (U' : user) (c' : cfg).     (* the restarted run *)
  Variable u : vec -> float -> float -> vec -> list vec -> list vec -> res (float * float * vec * list vec).
  Variable ck : result.
  Hypothesis Hu : u_upd U = Some u.
  Hypothesis Hu' : u_upd U' = None.
  Hypothesis Hck : checkpoint c' = Some ck.
  Hypothesis Heps : eps_sy c' = eps_sy c.
  Hypothesis Hmaxcor : maxcor c' = maxcor c.

  Lemma filter_back_nonempty : forall rX rG aX aG, aX <> [] -> fst (filter_back K c rX rG aX aG) <> [].
  Proof.
    induction rX as [|x rX IH]; intros rG aX aG H; cbn [filter_back fst]; [exact H|]. destruct rG as [|g rG]; [exact H|].
    destruct (curvature_ok K c x g (hd [] aX) (hd [] aG)); apply IH; [discriminate|exact H].
  Qed.
  Lemma filter_mem_nonempty : forall X G, X <> [] -> fst (filter_mem K c X G) <> [].
  Proof.
    intros X G H. unfold filter_mem. destruct (rev X) as [|xl rX]; [exact H|]. destruct (rev G) as [|gl rG]; [exact H|].
    apply filter_back_nonempty. discriminate.
  Qed.

  Lemma update_mem_f_cfg : forall f x g X G m, update_mem_f K c' f x g X G m = update_mem_f K c f x g X G m.
  Proof. intros. unfold update_mem_f, curvature_ok, trim. rewrite Heps, Hmaxcor. reflexivity. Qed.

  (* the matrices after an update: rebuilt from the filtered history when it holds more than one point, reset when it holds
     one - whatever they were before; this is what a restart starts from *)
  Lemma update_mem_f_fresh : forall x g X G m, X <> [] ->
    update_mem_f K c (1 <? List.length X)%nat x g X G (if (List.length X =? 1)%nat then None else m)
    = update_mem_f K c (1 <? List.length X)%nat x g X G None.
  Proof.
    intros x g X G m H. unfold update_mem_f. destruct (curvature_ok _ _ _ _ _ _); [reflexivity|].
    destruct X as [|p [|q X]]; [contradiction|reflexivity|reflexivity].
  Qed.

  Lemma accept_step_nit ft s a d t1 s1 tr : accept_step U K c ft s a d t1 = (Ok (true, s1), tr) -> s_nit s1 = s_nit s + 1.
  Proof.
    intros H. unfold accept_step in H. apply bind_ok_inv in H as ([[f0 g] t2] & ? & ? & _ & H & _).
    apply bind_ok_inv in H as ([[[[f1 fo] g1] G] filt] & ? & ? & _ & H & _).
    destruct (if filt then _ else _) as [X1 G1].
    destruct (is_f0_target_reached _ _); [unfold ret in H; inversion H|].
    destruct (is_f0_min_change_reached _ _ _); [unfold ret in H; inversion H|].
    destruct (update_mem_f K c _ _ _ _ _ _) as [[X2 G2] m2].
    destruct (u_cb U) as [cb|].
    - apply bind_ok_inv in H as (b' & ? & ? & _ & H & _). destruct b'; unfold ret in H; inversion H; reflexivity.
    - unfold ret in H. inversion H; reflexivity.
  Qed.

  Theorem update_is_restart ft s a d t1 s1 tr : s_X s <> [] ->
    accept_step U K c ft s a d t1 = (Ok (true, s1), tr) ->
    exists f0 g f1 fo g1 G1 X1 G2,
      In (EvUpd (s_x s1) f0 (s_f s) g (s_X s) (s_G s) (Ok (f1, fo, g1, G1))) tr /\
      filter_mem K c (s_X s) G1 = (X1, G2) /\ s_f s1 = f1 /\ s_g s1 = g1 /\
      (r_nit ck = s_nit s + 1 -> restore c' ck = (X1, G2) ->
       forall t3, first_state U' K c' (s_x s1) (s_f s1) (s_g s1) (snd (restored c')) t3
                  = mklst (s_x s1) (s_f s1) (s_g s1) (s_X s1) (s_G s1) (s_mats s1) (s_nit s1) MStart false 2 t3).
  Proof.
    intros HX H. pose proof (accept_step_nit _ _ _ _ _ _ _ H) as Hn.
    destruct (accept_step_upd_shape U K c u ft s a d t1 true s1 tr Hu H) as (f0 & g & f1 & fo & g1 & G1 & X1 & G2 & Hin & HF & Hg & Hf & Hs).
    exists f0, g, f1, fo, g1, G1, X1, G2. split; [exact Hin|]. split; [exact HF|]. split; [exact Hf|]. split; [exact Hg|].
    intros Hnit Hres t3. destruct Hs as [[Hc _]|[_ Hs]]; [discriminate|].
    assert (HX1 : X1 <> []) by (pose proof (filter_mem_nonempty (s_X s) G1 HX) as N; rewrite HF in N; exact N).
    unfold first_state, restored, nit_start. rewrite Hck, Hu', Hres. cbn [fst snd].
    destruct X1 as [|p X1'] eqn:EX; [contradiction|]. rewrite <- EX in *.
    rewrite update_mem_f_cfg, Hg, <- (update_mem_f_fresh (s_x s1) g1 X1 G2 (s_mats s) HX1), <- Hs, Hnit, Hn. reflexivity.
  Qed.
End UpdateRestart.
