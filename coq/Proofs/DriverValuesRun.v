(* C03 / C05 (coherence) for a complete run of the driver model. *)
From Coq Require Import List ZArith Bool String Lia Floats.PrimFloat.
From LBFGSB Require Import Base.Res Base.Hoare Base.FloatOrd Model.SF Model.FloatVec Model.Driver Generated.StopTests
  Proofs.SFProofs Proofs.DriverReport Proofs.DriverValues.
Import ListNotations.
Open Scope Z_scope.

Lemma snaps_nil_coh (P : float -> ev -> Prop) (HP : forall sg e, (forall s r, e <> EvCb s r) -> P sg e) tr sg : snaps tr = [] -> Forall (P sg) tr.
Proof.
  induction tr as [|e tr IH]; intros H; constructor.
  - apply HP. intros s r ->. cbn in H. discriminate.
  - apply IH. destruct e; cbn in H; try exact H. discriminate.
Qed.

Section ValuesRun.
  Variable U : user.
  Variable K : kern.
  Variable c : cfg.
  Hypothesis user_respects_array_equal : forall p q, veqb p q = true ->
    uf U p = uf U q /\ ug U p = ug U q /\ fd_stencil U p = fd_stencil U q /\ fd_est U p = fd_est U q.
  Hypothesis no_update_function : u_upd U = None.

  Notation sfst := (SF.st vec float vec float).
  Notation scale := (SF.scale vec float vec float).
  Notation InvS := (Inv vec float vec float (uf U) (ug U) (fd_stencil U) (fd_est U) (fdmode U)).
  Notation gradof := (grad_of vec float vec (uf U) (ug U) (fd_stencil U) (fd_est U) (fdmode U)).
  Notation coh := (coh U).
  Notation ev_coh := (ev_coh U).

  Definition x0c : vec := vclip (x0 c) (lb c) (ub c).
  (* a restart is made from the checkpoint's own x, and the checkpoint carries the (unscaled) value and gradient of that point *)
  Definition ck_coherent : Prop := forall ck, checkpoint c = Some ck -> r_x ck = x0c /\ coh fone x0c (r_fun ck) (r_jac ck).
  (* the objective value the run starts from, in the units of the scaling factor sg *)
  Definition start_ok (sg f : float) : Prop :=
    match checkpoint c with
    | None => exists fv, uf U x0c = Ok fv /\ f = mul fv sg
    | Some ck => f = mul (r_fun ck) sg
    end.

  Definition values_ok (r : result) (tr : list ev) : Prop :=
    exists sg fstart,
      scale_in sg tr /\ start_ok sg fstart /\
      (* C03: start value, values of the callback states, returned value: each equal to or strictly below the previous *)
      chain (fstart :: snaps tr) /\ below (last (snaps tr) fstart) (r_fun r) /\
      (* C05: every callback state carries the value and gradient of its own x *)
      Forall (ev_coh sg) tr /\
      (* C05: so does the result, except that a run which stops on the target before any gradient is computed
         returns a zero gradient placeholder *)
      (coh sg (r_x r) (r_fun r) (r_jac r) \/
       (checkpoint c = None /\ r_msg r = MTarget /\ r_jac r = vzeros (r_x r) /\ exists fv, uf U (r_x r) = Ok fv /\ r_fun r = mul fv fone)).

  Lemma ev_coh_of_snaps tr sg : snaps tr = [] -> Forall (ev_coh sg) tr.
  Proof.
    apply (snaps_nil_coh (fun sg e => ev_coh sg e)). intros sg0 e H. destruct e; try exact I. exfalso. eapply H. reflexivity.
  Qed.

  Lemma values_run_checked : ck_coherent -> hoareT (run_checked U K c x0c) values_ok.
  Proof.
    intros Hck. unfold run_checked.
    destruct (match checkpoint c with None => _ | Some ck => restore c ck end) as [X G].
    set (t00 := SF.init vec float vec float x0c fone).
    set (t0 := match checkpoint c with None => t00 | Some ck => SF.set_counters _ _ _ _ (r_nfev ck) (r_njev ck) t00 end).
    assert (I0 : InvS t0 /\ scale t0 = fone).
    { unfold t0. destruct (checkpoint c); (split; [|reflexivity]); [apply Inv_set_counters|]; apply Inv_init. }
    destruct I0 as [I0 S0].
    (* first value *)
    eapply hoareT_bind with (R1 := fun r tr => InvS (snd r) /\ scale (snd r) = fone /\ snaps tr = [] /\
                                  exists fv, uf U x0c = Ok fv /\ fst r = mul fv fone).
    { destruct (checkpoint c) as [ck|] eqn:Eck.
      - apply hoareT_ret. cbn [fst snd]. destruct (Hck ck Eck) as (_ & fv & gv & V1 & _ & V3 & _).
        split; [exact I0|]. split; [exact S0|]. split; [reflexivity|]. exists fv. split; [exact V1|exact V3].
      - eapply hoareT_weaken; [apply val_sf_fun; auto|]. cbn. intros [v t1] tr (I1 & S1 & V & N & _). cbn in S1, V. rewrite ?S0 in S1, V.
        split; [exact I1|]. split; [exact S1|]. split; [exact N|exact V]. }
    intros [f0 t1] tr1 (I1 & S1 & N1 & fv0 & V0 & Ef0). cbn in I1, S1, Ef0.
    eapply hoareT_bind with (R1 := fun _ tr => snaps tr = []).
    { destruct (ftarget c) as [[v|]|]; try (apply hoareT_ret; reflexivity).
      eapply hoareT_bind with (R1 := fun _ tr => snaps tr = []); [apply hoareT_call; reflexivity|].
      intros v tr N. apply hoareT_ret. rewrite app_nil_r. exact N. }
    intros ft tr2 N2.
    eapply hoareT_bind with (R1 := fun _ tr => snaps tr = []).
    { destruct (gtol c); [apply hoareT_ret; reflexivity|apply hoareT_call; reflexivity]. }
    intros gt tr3 N3.
    assert (Hstart1 : start_ok fone f0).
    { unfold start_ok. destruct (checkpoint c) as [ck|] eqn:Eck.
      - destruct (Hck ck Eck) as (_ & fv & gv & V1 & _ & V3 & _). rewrite V1 in V0. inversion V0; subst. rewrite <- V3.
        unfold fone. rewrite mul_one_r. reflexivity.
      - exists fv0. auto. }
    destruct (is_f0_target_reached _ _).
    { (* early return *)
      assert (Nall : snaps (tr1 ++ tr2 ++ tr3) = []) by (rewrite !snaps_app, N1, N2, N3; reflexivity).
      assert (Hfun : forall ck, checkpoint c = Some ck -> r_fun ck = f0).
      { intros ck Eck. destruct (Hck ck Eck) as (_ & fv & gv & V1 & _ & V3 & _). rewrite V1 in V0. inversion V0; subst. exact V3. }
      destruct (checkpoint c) as [ck|] eqn:Eck; apply hoareT_ret; rewrite app_nil_r; exists fone, f0;
        (split; [left; reflexivity|]); (split; [exact Hstart1|]); rewrite Nall; (split; [exact I|]); cbn [last r_x r_fun r_jac r_msg].
      - split; [rewrite (Hfun ck eq_refl); apply below_refl|]. split; [apply ev_coh_of_snaps; exact Nall|].
        left. destruct (Hck ck Eck) as (Hx & Hc). rewrite Hx. exact Hc.
      - split; [apply below_refl|]. split; [apply ev_coh_of_snaps; exact Nall|].
        right. split; [exact Eck|]. split; [reflexivity|]. split; [reflexivity|]. exists fv0. auto. }
    (* first gradient *)
    eapply hoareT_bind with (R1 := fun r tr => InvS (snd r) /\ scale (snd r) = fone /\ snaps tr = [] /\
                                  exists gv, gradof x0c = Ok gv /\ fst r = vscale gv fone).
    { destruct (checkpoint c) as [ck|] eqn:Eck.
      - apply hoareT_ret. cbn [fst snd]. destruct (Hck ck Eck) as (_ & fv & gv & _ & V2 & _ & V4).
        split; [exact I1|]. split; [exact S1|]. split; [reflexivity|]. exists gv. split; [exact V2|exact V4].
      - eapply hoareT_weaken; [apply val_sf_grad; auto|]. cbn. intros [v t2] tr (I2 & S2 & V & N & _). cbn in S2, V. rewrite ?S1 in S2, V.
        split; [exact I2|]. split; [exact S2|]. split; [exact N|exact V]. }
    intros [g t2] tr4 (I2 & S2 & N4 & gv0 & Vg & Eg). cbn in I2, S2, Eg.
    (* scaler *)
    eapply hoareT_bind with (R1 := fun t3 tr => InvS t3 /\ snaps tr = [] /\ scale_in (scale t3) (tr1 ++ tr2 ++ tr3 ++ tr4 ++ tr)).
    { destruct (u_scaler U) as [sc|].
      - eapply hoareT_bind with (R1 := fun s tr => tr = [EvScaler x0c g (lb c) (ub c) (sc x0c g (lb c) (ub c))] /\ sc x0c g (lb c) (ub c) = Ok s).
        + apply hoareT_call. intros s Hs. auto.
        + intros s tr [-> Hs]. apply hoareT_ret. rewrite app_nil_r. split; [apply Inv_set_scale; exact I2|]. split; [reflexivity|].
          right. exists x0c, g, (lb c), (ub c). rewrite Hs. cbn [SF.set_scale SF.scale]. rewrite !in_app_iff. cbn. tauto.
      - apply hoareT_ret. split; [exact I2|]. split; [reflexivity|]. left. exact S2. }
    intros t3 tr5 (I3 & N5 & Sc5).
    rewrite no_update_function, bind_ret_l.
    destruct (match X with [] => _ | _ => _ end) as [[X1 G2'] m1].
    set (sg := scale t3) in *.
    assert (Hcoh0 : coh sg x0c (mul f0 sg) (vscale g sg)).
    { exists fv0, gv0. split; [exact V0|]. split; [exact Vg|]. rewrite Ef0, Eg, vscale_one. unfold fone. rewrite mul_one_r. auto. }
    eapply hoareT_bind; [apply (val_loop U K c user_respects_array_equal no_update_function _ _ _ _ sg)|].
    { unfold VI. cbn. auto. }
    intros s tr7 (V7 & C7 & Ch7 & B7). cbn [s_f] in Ch7, B7.
    apply hoareT_ret. rewrite app_nil_r.
    exists sg, (mul f0 sg).
    assert (Npre : snaps (tr1 ++ tr2 ++ tr3 ++ tr4 ++ tr5) = []) by (rewrite !snaps_app, N1, N2, N3, N4, N5; reflexivity).
    assert (Nall : snaps (tr1 ++ tr2 ++ tr3 ++ tr4 ++ tr5 ++ tr7) = snaps tr7).
    { replace (tr1 ++ tr2 ++ tr3 ++ tr4 ++ tr5 ++ tr7) with ((tr1 ++ tr2 ++ tr3 ++ tr4 ++ tr5) ++ tr7) by (rewrite <- !app_assoc; reflexivity).
      rewrite snaps_app, Npre. reflexivity. }
    split.
    { destruct Sc5 as [H|(x' & g' & l' & u' & H)]; [left; exact H|right]. exists x', g', l', u'. rewrite !in_app_iff in *. tauto. }
    split.
    { unfold start_ok. destruct (checkpoint c) as [ck|] eqn:Eck.
      - destruct (Hck ck Eck) as (_ & fv & gv & V1 & _ & V3 & _). rewrite V1 in V0. inversion V0; subst. rewrite <- V3. reflexivity.
      - exists fv0. split; [exact V0|]. rewrite Ef0. unfold fone. rewrite mul_one_r. reflexivity. }
    rewrite Nall.
    destruct V7 as (I7 & S7 & C7').
    assert (Hcl : forall s', s' = classify c gt s -> s_x s' = s_x s /\ s_f s' = s_f s /\ s_g s' = s_g s).
    { intros s' ->. unfold classify. destruct (leb _ _); [cbn; auto|]. destruct (_ >=? _); [cbn; auto|]. destruct (_ >=? _); cbn; auto. }
    destruct (Hcl _ eq_refl) as (Ex & Ef & Eg').
    cbn [r_x r_fun r_jac snapshot]. rewrite Ex, Ef, Eg'.
    split; [exact Ch7|]. split; [exact B7|]. split.
    { replace (tr1 ++ tr2 ++ tr3 ++ tr4 ++ tr5 ++ tr7) with ((tr1 ++ tr2 ++ tr3 ++ tr4 ++ tr5) ++ tr7) by (rewrite <- !app_assoc; reflexivity).
      apply Forall_app. split; [apply ev_coh_of_snaps; exact Npre|exact C7]. }
    left. exact C7'.
  Qed.

  Theorem values_run : ck_coherent -> hoareT (run U K c) values_ok.
  Proof.
    intros Hck. unfold run. destruct (bounds_error c); [apply hoareT_raise|]. destruct (ck_ok c _); [apply values_run_checked; exact Hck|apply hoareT_raise].
  Qed.
End ValuesRun.
