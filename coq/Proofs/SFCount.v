(* Counters and scaling factor of the wrapper model along a request, with no assumption on the user's
   functions (the coherence invariant of SFProofs is not needed for bookkeeping).  Used by C04 / C05. *)
From Coq Require Import List ZArith Bool Lia.
From LBFGSB Require Import Base.Res Model.SF Proofs.SFProofs.
Import ListNotations.
Open Scope Z_scope.

Section Count.
  Variables (P F G S : Type).
  Variable peqb : P -> P -> bool.
  Variable fmul : F -> S -> F.
  Variable gmul : G -> S -> G.
  Variable uf : P -> res F.
  Variable ug : P -> res G.
  Variable stencil : P -> list P.
  Variable fdest : P -> F -> list F -> res G.
  Variable fdmode : bool.

  Notation st := (SF.st P F G S).
  Notation cf := (count_f P F G).
  Notation cg := (count_g P F G).
  Notation nfev := (SF.nfev P F G S).
  Notation ngev := (SF.ngev P F G S).
  Notation scale := (SF.scale P F G S).

  (* what every request preserves / how it counts *)
  Definition cnt (t t1 : st) (tr : list (SF.ev P F G)) : Prop :=
    scale t1 = scale t /\ nfev t1 = nfev t + cf tr /\ 0 <= cf tr /\ 0 <= cg tr /\
    ngev t <= ngev t1 <= ngev t + 1 /\
    (fdmode = false -> ngev t1 = ngev t + cg tr /\ cf tr <= 1 /\ cg tr <= 1).

  Lemma cf_nonneg tr : 0 <= cf tr. Proof. unfold count_f. lia. Qed.
  Lemma cg_nonneg tr : 0 <= cg tr. Proof. unfold count_g. lia. Qed.

  Lemma update_x_cnt p t : let t1 := SF.update_x P F G S peqb p t in scale t1 = scale t /\ nfev t1 = nfev t /\ ngev t1 = ngev t.
  Proof. unfold SF.update_x. destruct (peqb p _); cbn; auto. Qed.

  Lemma update_fun_cnt t v t1 tr : SF.update_fun P F G S uf t = (Ok (v, t1), tr) ->
    scale t1 = scale t /\ nfev t1 = nfev t + cf tr /\ ngev t1 = ngev t /\ cg tr = 0 /\ 0 <= cf tr <= 1 /\
    SF.sg P F G S t1 = SF.sg P F G S t.
  Proof.
    unfold SF.update_fun. destruct (SF.sf P F G S t).
    - unfold ret. intros H; inversion H; subst. cbn. repeat split; try reflexivity; unfold count_f; cbn; lia.
    - intros H. apply bind_ok_inv in H as (w & q1 & q2 & Q1 & Q2 & ->). unfold SF.call_f, call in Q1. inversion Q1; subst.
      unfold ret in Q2. inversion Q2; subst. unfold count_f, count_g. cbn. repeat split; try reflexivity; lia.
  Qed.

  Lemma eval_stencil_cnt ps vs tr : SF.eval_stencil P F G uf ps = (Ok vs, tr) -> cg tr = 0.
  Proof.
    revert vs tr. induction ps as [|p r IH]; intros vs tr; cbn [SF.eval_stencil].
    - unfold ret. intros H; inversion H; subst. reflexivity.
    - intros H. apply bind_ok_inv in H as (v & t1 & t2 & H1 & H2 & ->).
      unfold SF.call_f, call in H1. inversion H1; subst.
      apply bind_ok_inv in H2 as (vs' & t3 & t4 & H3 & H4 & ->). unfold ret in H4. inversion H4; subst.
      cbn [app]. rewrite (count_g_F P F G), (count_g_app P F G), (IH _ _ H3). reflexivity.
  Qed.

  Lemma update_grad_cnt t g t1 tr : SF.update_grad P F G S uf ug stencil fdest fdmode t = (Ok (g, t1), tr) -> cnt t t1 tr /\
    (fdmode = false -> cf tr = 0).
  Proof.
    unfold SF.update_grad, cnt. destruct (SF.sg P F G S t).
    - unfold ret. intros H; inversion H; subst. unfold count_f, count_g. cbn. repeat split; try reflexivity; try lia.
    - destruct fdmode.
      + intros H. apply bind_ok_inv in H as ([v t2] & tr1 & tr2 & H1 & H2 & ->).
        destruct (update_fun_cnt _ _ _ _ H1) as (Hs & Hn & Hg & Hcg & Hcf & _).
        apply bind_ok_inv in H2 as (vs & tr3 & tr4 & H3 & H4 & ->).
        destruct (eval_stencil_spec P F G uf _ _ _ H3) as (_ & Hc & Hcg3 & _).
        destruct (fdest _ v vs); try discriminate. unfold ret in H4. inversion H4; subst. cbn [SF.scale SF.nfev SF.ngev].
        rewrite !(count_f_app P F G), !(count_g_app P F G), (count_f_nil P F G), (count_g_nil P F G), Hc, Hcg, Hcg3.
        repeat split; try assumption; try discriminate; try lia.
      + intros H. apply bind_ok_inv in H as (g0 & tr1 & tr2 & H1 & H2 & ->).
        unfold SF.call_g, call in H1. inversion H1; subst. unfold ret in H2. inversion H2; subst.
        unfold count_f, count_g. cbn. repeat split; try reflexivity; try lia.
  Qed.

  Lemma sf_fun_cnt p t v t1 tr : SF.sf_fun P F G S peqb fmul uf p t = (Ok (v, t1), tr) ->
    cnt t t1 tr /\ cf tr <= 1 /\ cg tr = 0 /\ ngev t1 = ngev t.
  Proof.
    unfold SF.sf_fun. intros H. apply bind_ok_inv in H as ([v2 t3] & tr3 & tr4 & H3 & H4 & ->).
    unfold ret in H4; inversion H4; subst; clear H4. rewrite app_nil_r.
    destruct (update_x_cnt p t) as (X1 & X2 & X3).
    destruct (update_fun_cnt _ _ _ _ H3) as (Hs & Hn & Hg & Hcg & Hcf & _).
    unfold cnt. repeat split; try lia; congruence.
  Qed.

  Lemma sf_grad_cnt p t g t1 tr : SF.sf_grad P F G S peqb gmul uf ug stencil fdest fdmode p t = (Ok (g, t1), tr) ->
    cnt t t1 tr /\ (fdmode = false -> cf tr = 0).
  Proof.
    unfold SF.sf_grad. intros H. apply bind_ok_inv in H as ([g2 t3] & tr3 & tr4 & H3 & H4 & ->).
    unfold ret in H4; inversion H4; subst; clear H4. rewrite app_nil_r.
    destruct (update_x_cnt p t) as (X1 & X2 & X3).
    destruct (update_grad_cnt _ _ _ _ H3) as ((Hs & Hn & Hcf & Hcg & Hg & Hm) & Hz).
    split; [|exact Hz]. unfold cnt. split; [congruence|]. split; [lia|]. split; [lia|]. split; [lia|]. split; [lia|].
    intros Hfd; destruct (Hm Hfd) as (M1 & M2 & M3). lia.
  Qed.

  Lemma sf_fun_and_grad_cnt p t v g t1 tr :
    SF.sf_fun_and_grad P F G S peqb fmul gmul uf ug stencil fdest fdmode p t = (Ok (v, g, t1), tr) -> cnt t t1 tr.
  Proof.
    unfold SF.sf_fun_and_grad. intros H.
    apply bind_ok_inv in H as ([v2 t3] & tr3 & tr4 & H3 & H4 & ->).
    apply bind_ok_inv in H4 as ([g2 t4] & tr5 & tr6 & H5 & H6 & ->). unfold ret in H6; inversion H6; subst; clear H6.
    rewrite app_nil_r.
    destruct (update_x_cnt p t) as (X1 & X2 & X3).
    destruct (update_fun_cnt _ _ _ _ H3) as (Hs & Hn & Hg & Hcg & Hcf & _).
    destruct (update_grad_cnt _ _ _ _ H5) as ((Hs2 & Hn2 & Hcf2 & Hcg2 & Hg2 & Hm) & Hz).
    unfold cnt. rewrite !(count_f_app P F G), !(count_g_app P F G).
    split; [congruence|]. split; [lia|]. split; [lia|]. split; [lia|]. split; [lia|].
    intros Hfd; destruct (Hm Hfd) as (M1 & M2 & M3); specialize (Hz Hfd); lia.
  Qed.
End Count.
