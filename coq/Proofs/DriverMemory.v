(* C10 (memory discipline) / C18 (pairs) on the driver model: the bounded history of points and gradients. *)
From Coq Require Import List ZArith Bool String Lia Floats.PrimFloat.
From LBFGSB Require Import Base.Res Base.Hoare Base.FloatOrd Model.SF Model.FloatVec Model.Driver Generated.StopTests
  Proofs.SFProofs Proofs.DriverReport Proofs.DriverValues.
Import ListNotations.
Open Scope Z_scope.

Section Memory.
  Variable K : kern.
  Variable c : cfg.
  Hypothesis maxcor_pos : 0 <= maxcor c.

  Notation curv := (curvature_ok K c).

  (* every adjacent stored pair passed the curvature test  s.y > eps * y.y *)
  Fixpoint pairs_ok (X G : list vec) : Prop :=
    match X, G with
    | x0 :: ((x1 :: _) as X'), g0 :: ((g1 :: _) as G') => curv x1 g1 x0 g0 = true /\ pairs_ok X' G'
    | _, _ => True
    end.

  Definition mem_ok (X G : list vec) : Prop :=
    List.length X = List.length G /\ (1 <= List.length X)%nat /\ Z.of_nat (List.length X) <= maxcor c + 1 /\ pairs_ok X G.

  Lemma pairs_ok_tl X G : pairs_ok X G -> pairs_ok (tl X) (tl G).
  Proof.
    destruct X as [|x0 [|x1 X]]; destruct G as [|g0 [|g1 G]]; cbn; auto; try tauto; destruct X; auto.
  Qed.

  Lemma pairs_ok_snoc (X G : list vec) (x g : vec) : List.length X = List.length G -> pairs_ok X G ->
    curv x g (last X []) (last G []) = true -> pairs_ok (X ++ [x]) (G ++ [g]).
  Proof.
    revert G. induction X as [|x0 X IH]; intros [|g0 G] L H Hc; cbn in L; try discriminate; [exact I|].
    destruct X as [|x1 X]; destruct G as [|g1 G]; cbn in L; try discriminate.
    - cbn in *. auto.
    - destruct H as [H1 H2]. change (pairs_ok (x0 :: x1 :: (X ++ [x])) (g0 :: g1 :: (G ++ [g]))).
      split; [exact H1|]. apply (IH (g1 :: G)); auto.
  Qed.

  Lemma trim_spec (l : list vec) :
    trim c l = (if (Z.of_nat (List.length l) >? maxcor c + 1) then tl l else l).
  Proof. reflexivity. Qed.

  (* ---- one candidate update *)
  (* rejected: memory AND matrices untouched *)
  Theorem mem_reject_inert (xk gk : vec) (X G : list vec) m : curv xk gk (last X []) (last G []) = false -> update_mem K c xk gk X G m = (X, G, m).
  Proof. intros H. unfold update_mem, last_or. rewrite H. reflexivity. Qed.

  (* accepted: the candidate is appended (chronological order), the oldest entry is the one dropped when the memory is
     full, the matrices are rebuilt from exactly the new history *)
  Theorem mem_accept (xk gk : vec) (X G : list vec) m : curv xk gk (last X []) (last G []) = true -> List.length X = List.length G ->
    Z.of_nat (List.length X) <= maxcor c + 1 ->
    let '(X', G', m') := update_mem K c xk gk X G m in
    m' = Some (X', G') /\
    (Z.of_nat (List.length X) <= maxcor c -> X' = X ++ [xk] /\ G' = G ++ [gk]) /\
    (Z.of_nat (List.length X) = maxcor c + 1 -> X' = tl X ++ [xk] /\ G' = tl G ++ [gk]).
  Proof.
    intros H L B. unfold update_mem, last_or. rewrite H. split; [reflexivity|].
    rewrite !trim_spec, !app_length, <- L. cbn [List.length]. split; intros E.
    - destruct (Z.of_nat (List.length X + 1) >? maxcor c + 1) eqn:E1; [apply Z.gtb_lt in E1; lia|auto].
    - destruct (Z.of_nat (List.length X + 1) >? maxcor c + 1) eqn:E1; [|rewrite Z.gtb_ltb in E1; apply Z.ltb_ge in E1; lia].
      destruct X as [|x0 X]; destruct G as [|g0 G]; cbn in L; try discriminate; [cbn in E; lia|]. cbn. auto.
  Qed.

  Theorem mem_update_ok (xk gk : vec) (X G : list vec) m : mem_ok X G ->
    let '(X', G', m') := update_mem K c xk gk X G m in mem_ok X' G' /\ ((X' = X /\ G' = G /\ m' = m) \/ m' = Some (X', G')).
  Proof.
    intros (L & N & B & P). unfold update_mem, last_or.
    destruct (curv xk gk (last X []) (last G [])) eqn:H; [|split; [repeat split; auto|left; auto]].
    split; [|right; reflexivity].
    assert (P1 : pairs_ok (X ++ [xk]) (G ++ [gk])) by (apply pairs_ok_snoc; auto).
    rewrite !trim_spec, !app_length, <- L. cbn [List.length].
    destruct (Z.of_nat (List.length X + 1) >? maxcor c + 1) eqn:E1.
    - apply Z.gtb_lt in E1. destruct X as [|x0 X]; destruct G as [|g0 G]; cbn in L, N; try discriminate; try lia.
      cbn [app tl]. change (x0 :: X ++ [xk]) with ((x0 :: X) ++ [xk]) in P1. change (g0 :: G ++ [gk]) with ((g0 :: G) ++ [gk]) in P1.
      apply pairs_ok_tl in P1. cbn [tl app] in P1.
      repeat split; auto; rewrite ?app_length; cbn [List.length] in *; try lia.
    - rewrite Z.gtb_ltb in E1. apply Z.ltb_ge in E1. repeat split; auto; rewrite ?app_length; cbn [List.length]; try lia.
  Qed.

  (* ---- any sequence of candidate updates (accepted and rejected mixed), from a one-point memory *)
  Definition feed (st : list vec * list vec * mats) (cand : vec * vec) : list vec * list vec * mats :=
    let '(X, G, m) := st in update_mem K c (fst cand) (snd cand) X G m.

  Theorem mem_history cands x0 g0 :
    let '(X, G, m) := fold_left feed cands ([x0], [g0], None) in
    mem_ok X G /\ (m = None \/ m = Some (X, G)).
  Proof.
    assert (Hgen : forall cands X G m, mem_ok X G -> (m = None \/ m = Some (X, G)) ->
              let '(X', G', m') := fold_left feed cands (X, G, m) in mem_ok X' G' /\ (m' = None \/ m' = Some (X', G'))).
    { clear cands. induction cands as [|[x g] cands IH]; intros X G m HM Hm; cbn [fold_left]; [auto|].
      unfold feed at 2. cbn [fst snd]. pose proof (mem_update_ok x g X G m HM) as H1.
      destruct (update_mem K c x g X G m) as [[X1 G1] m1]. destruct H1 as [H1 H2]. apply IH; [exact H1|].
      destruct H2 as [(E1 & E2 & E3)|E3]; subst; [exact Hm|right; reflexivity]. }
    apply Hgen; [|left; reflexivity]. repeat split; cbn; auto; lia.
  Qed.
End Memory.

(* ------------------------------------------------------------------------------------------------------------ *)
(* the memory along a run: every stored (point, gradient) is a point the run accepted with the user's gradient there *)
Section MemoryRun.
  Variable U : user.
  Variable K : kern.
  Variable c : cfg.
  Hypothesis maxcor_pos : 0 <= maxcor c.
  Hypothesis user_respects_array_equal : forall p q, veqb p q = true ->
    uf U p = uf U q /\ ug U p = ug U q /\ fd_stencil U p = fd_stencil U q /\ fd_est U p = fd_est U q.
  Hypothesis no_update_function : u_upd U = None.

  Notation sfst := (SF.st vec float vec float).
  Notation scale := (SF.scale vec float vec float).
  Notation InvS := (Inv vec float vec float (uf U) (ug U) (fd_stencil U) (fd_est U) (fdmode U)).
  Notation gradof := (grad_of vec float vec (uf U) (ug U) (fd_stencil U) (fd_est U) (fdmode U)).

  (* g is the (scaled) gradient the user returns at x *)
  Definition gen (sg : float) (x g : vec) : Prop := exists gv, gradof x = Ok gv /\ g = vscale gv sg.
  Definition hist_ok (sg : float) (X G : list vec) : Prop := mem_ok K c X G /\ Forall2 (gen sg) X G.
  Definition MEMV (sg : float) (s : lst) : Prop := hist_ok sg (s_X s) (s_G s).
  (* correction pairs that are differences of such a history *)
  Definition pairs_of (sg : float) (sk yk : list vec) : Prop := exists X G, sk = diffs X /\ yk = diffs G /\ hist_ok sg X G.
  Definition ev_pairs (sg : float) (e : ev) : Prop := match e with EvCb s _ => pairs_of sg (r_sk s) (r_yk s) | _ => True end.

  Lemma coh_gen sg x f g : coh U sg x f g -> gen sg x g.
  Proof. intros (fv & gv & _ & H2 & _ & H4). exists gv. auto. Qed.

  Lemma Forall2_tl {A B} (R : A -> B -> Prop) l1 l2 : Forall2 R l1 l2 -> Forall2 R (tl l1) (tl l2).
  Proof. intros H. destruct H; cbn; [constructor|assumption]. Qed.
  Lemma Forall2_last {A B} (R : A -> B -> Prop) l1 l2 d1 d2 : Forall2 R l1 l2 -> l1 <> [] -> R (last l1 d1) (last l2 d2).
  Proof.
    intros H. induction H as [|a b l1 l2 Hab H IH]; intros Hn; [congruence|].
    destruct H as [|a' b' l1' l2' Hab' H]; [exact Hab|]. apply IH. discriminate.
  Qed.

  Lemma hist_update sg (xk gk : vec) (X G : list vec) m : hist_ok sg X G -> gen sg xk gk ->
    let '(X', G', m') := update_mem K c xk gk X G m in hist_ok sg X' G'.
  Proof.
    intros [HM HF] Hg. pose proof (mem_update_ok K c xk gk X G m HM) as H.
    unfold update_mem in *. destruct (curvature_ok K c xk gk (last_or X []) (last_or G [])); [|split; auto].
    destruct H as [H _]. split; [exact H|].
    assert (F1 : Forall2 (gen sg) (X ++ [xk]) (G ++ [gk])) by (apply Forall2_app; auto).
    unfold trim. rewrite !app_length. destruct HM as (L & _). rewrite <- L.
    destruct (_ >? _); [apply Forall2_tl|]; exact F1.
  Qed.

  Lemma hist_reset sg (X G : list vec) : hist_ok sg X G -> hist_ok sg [last_or X []] [last_or G []].
  Proof.
    intros [(L & N & B & P) HF]. split; [repeat split; cbn; auto; lia|].
    constructor; [|constructor]. unfold last_or. apply Forall2_last; auto. destruct X; cbn in N; [lia|discriminate].
  Qed.

  Definition cb_pairs_of (s1 : lst) (e : ev) : Prop :=
    match e with EvCb snap _ => r_sk snap = diffs (s_X s1) /\ r_yk snap = diffs (s_G s1) | _ => True end.
  Lemma cb_pairs_lift s1 t : Forall (cb_pairs_of s1) (map sfev t).
  Proof. induction t as [|e t IH]; constructor; auto. destruct e; exact I. Qed.

  Lemma lift_events {A} (m : M (SF.ev vec float vec) A) a tr : lift sfev m = (Ok a, tr) -> exists t, tr = map sfev t.
  Proof. destruct m as [r t]. unfold lift. cbn. intros H. inversion H. eauto. Qed.

  (* what an accepted step does to the history (no update function) *)
  Lemma accept_step_shape ft s a d t1 : hoareT (accept_step U K c ft s a d t1) (fun r tr =>
    ((s_X (snd r) = s_X s /\ s_G (snd r) = s_G s) \/
     (s_X (snd r), s_G (snd r), s_mats (snd r)) = update_mem K c (s_x (snd r)) (s_g (snd r)) (s_X s) (s_G s) (s_mats s)) /\
    Forall (cb_pairs_of (snd r)) tr).
  Proof.
    unfold accept_step. rewrite no_update_function.
    intros [cont s1] tr H. apply bind_ok_inv in H as ([[f0 g] t2] & tr1 & trA & H1 & H & ->).
    destruct (lift_events _ _ _ H1) as (t' & ->).
    rewrite bind_ret_l in H. cbn beta iota in H. cbn [andb] in H. change (update_mem_f K c false) with (update_mem K c) in H.
    destruct (is_f0_target_reached _ _).
    { unfold ret in H. inversion H; subst. cbn. split; [left; auto|]. rewrite app_nil_r. apply cb_pairs_lift. }
    destruct (is_f0_min_change_reached _ _ _).
    { unfold ret in H. inversion H; subst. cbn. split; [left; auto|]. rewrite app_nil_r. apply cb_pairs_lift. }
    destruct (update_mem K c _ g (s_X s) (s_G s) (s_mats s)) as [[X2 G3] m2] eqn:EU.
    destruct (u_cb U) as [cb|].
    - apply bind_ok_inv in H as (b & tr2 & trB & H2 & H & ->). unfold call in H2. inversion H2; subst.
      destruct b; unfold ret in H; inversion H; subst; cbn [snd s_X s_G s_mats s_x s_g]; (split; [right; rewrite EU; reflexivity|]);
        rewrite app_nil_r; (apply Forall_app; split; [apply cb_pairs_lift|]); constructor; [|constructor| |constructor]; cbn; auto.
    - unfold ret in H. inversion H; subst. cbn [snd s_X s_G s_mats s_x s_g]. split; [right; rewrite EU; reflexivity|].
      rewrite app_nil_r. apply cb_pairs_lift.
  Qed.

  Lemma line_search_events xk f0 g0 d nit cap t r tr : line_search U K c xk f0 g0 d nit cap t = (Ok r, tr) -> snaps tr = [].
  Proof.
    intros H. unfold line_search in H. apply bind_ok_inv in H as (s & tr1 & tr2 & H1 & H2 & ->).
    assert (N1 : snaps tr1 = []).
    { clear H2. revert H1. generalize (mklss (if (nit =? 0) && negb (is_boxed c) then pymin (div fone (sqrt (vdot K d d))) (if nit =? 0 then fone else maxstep xk d (lb c) (ub c) (max_steplength c)) else fone) f0 (vdot K g0 d) [] None f0 TFG
                 (if (nit =? 0) && negb (is_boxed c) then pymin (div fone (sqrt (vdot K d d))) (if nit =? 0 then fone else maxstep xk d (lb c) (ub c) (max_steplength c)) else fone) t).
      generalize (ftol_ls c, gtol_ls c, xtol_ls c, if nit =? 0 then fone else maxstep xk d (lb c) (ub c) (max_steplength c)).
      revert s tr1. induction (Z.to_nat cap) as [|k IH]; intros s tr1 par s0 H; cbn [ls_loop] in H.
      - unfold ret in H. inversion H. reflexivity.
      - destruct (dcs K par _) as [stp tk]. destruct tk; try (unfold ret in H; inversion H; reflexivity).
        apply bind_ok_inv in H as ([[f g] t1] & tA & tB & HA & HB & ->). destruct (lift_events _ _ _ HA) as (t' & ->).
        rewrite snaps_app, snaps_lift. cbn. eapply IH. exact HB. }
    rewrite snaps_app, N1. cbn.
    destruct (negb _ || _); [unfold ret in H2; inversion H2; reflexivity|]. destruct (l_task s); unfold ret in H2; inversion H2; reflexivity.
  Qed.

  Lemma snaps_nil_pairs sg tr : snaps tr = [] -> Forall (ev_pairs sg) tr.
  Proof.
    induction tr as [|e tr IH]; intros H; constructor.
    - destruct e; try exact I. cbn in H. discriminate.
    - apply IH. destruct e; cbn in H; try exact H. discriminate.
  Qed.

  Lemma mem_loop fuel ft gt s sg : VI U sg s -> MEMV sg s ->
    hoareT (loop U K c fuel ft gt s) (fun s' tr => MEMV sg s' /\ Forall (ev_pairs sg) tr).
  Proof.
    revert s. induction fuel as [|k IH]; intros s HV HM; cbn [loop]; destruct (guard c gt s).
    - apply hoareT_fuel.
    - apply hoareT_ret. split; [exact HM|constructor].
    - intros s' tr H. apply bind_ok_inv in H as ([cont s1] & tr1 & tr2 & H1 & H2 & ->).
      destruct (val_body U K c user_respects_array_equal no_update_function ft s sg HV _ _ H1) as (V1 & _ & _). cbn [snd] in V1.
      (* the history after the pass *)
      assert (HB : MEMV sg s1 /\ Forall (ev_pairs sg) tr1).
      { unfold body in H1. apply bind_ok_inv in H1 as ([stp t1] & trA & trB & HA & HB & ->).
        pose proof (line_search_events _ _ _ _ _ _ _ _ _ HA) as NA.
        destruct stp as [a|].
        - destruct (accept_step_shape ft s a (direction K s) t1 _ _ HB) as [HS HE]. cbn [snd] in HS, HE.
          assert (M1 : MEMV sg s1).
          { destruct HS as [[E1 E2]|E]; unfold MEMV; [rewrite E1, E2; exact HM|].
            pose proof (hist_update sg (s_x s1) (s_g s1) (s_X s) (s_G s) (s_mats s) HM) as HU.
            rewrite <- E in HU. apply HU. destruct V1 as (_ & _ & C1). eapply coh_gen; eauto. }
          split; [exact M1|]. apply Forall_app. split; [apply snaps_nil_pairs; exact NA|].
          revert HE. apply Forall_impl. intros e He. destruct e; try exact I. cbn in He |- *. destruct He as [E1 E2].
          exists (s_X s1), (s_G s1). auto.
        - unfold ret in HB. inversion HB as [[H0]]. rewrite app_nil_r. split; [|apply snaps_nil_pairs; exact NA].
          unfold fail_step in H0. destruct (Nat.eqb (List.length (s_X s)) 1); inversion H0; subst; unfold MEMV; cbn [s_X s_G];
            [exact HM|apply hist_reset; exact HM]. }
      destruct HB as [M1 E1].
      destruct cont.
      + destruct (IH s1 V1 M1 _ _ H2) as [M2 E2]. split; [exact M2|apply Forall_app; auto].
      + unfold ret in H2. inversion H2; subst. rewrite app_nil_r. auto.
    - apply hoareT_ret. split; [exact HM|constructor].
  Qed.
End MemoryRun.
