(* C06 on the driver model: a restart that performs no iteration reports the pairs of the history it rebuilt. *)
From Coq Require Import List ZArith Bool String Lia Floats.PrimFloat.
From LBFGSB Require Import Base.Res Model.SF Model.FloatVec Model.Driver Generated.StopTests Proofs.DriverShape.
Import ListNotations.
Open Scope Z_scope.

Section Restart.
  Variable U : user.
  Variable K : kern.
  Variable c : cfg.

  Lemma classify_hist gt s : s_X (classify c gt s) = s_X s /\ s_G (classify c gt s) = s_G s.
  Proof. unfold classify. destruct (leb _ _); [cbn; auto|]. destruct (_ >=? _); [cbn; auto|]. destruct (_ >=? _); cbn; auto. Qed.

  (* restart with maxiter <= the checkpoint's nit: no pass of the loop is made; the result carries either the checkpoint's own
     pairs (target already reached) or the differences of the history rebuilt from the checkpoint with the current point
     re-inserted (first_state) *)
  Theorem restart_no_iteration ck r tr : checkpoint c = Some ck -> maxiter c <= r_nit ck -> run U K c = (Ok r, tr) ->
    (r_sk r = r_sk ck /\ r_yk r = r_yk ck /\ r_msg r = MTarget) \/
    exists f1 g1 G1 t3, let s0 := first_state U K c (vclip (x0 c) (lb c) (ub c)) f1 g1 G1 t3 in
      r_sk r = diffs (s_X s0) /\ r_yk r = diffs (s_G s0) /\ r_nit r = r_nit ck.
  Proof.
    intros Hck Hm H. pose proof (run_shape_of U K c _ r tr H eq_refl) as S.
    destruct S as [f0 t1 tr1 ft tr2 gt tr3 H1 H2 H3 Ht Hr Htr | f0 t1 tr1 ft tr2 gt tr3 g t2 tr4 t3 tr5 f1 g1 G1 tr6 s' tr7 H1 H2 H3 Ht H4 H5 H6 H7 Hr Htr].
    - left. subst r. unfold early_result. rewrite Hck. cbn. auto.
    - right. exists f1, g1, G1, t3. cbn zeta.
      assert (En : nit_start c = r_nit ck) by (unfold nit_start; rewrite Hck; reflexivity).
      set (s0 := first_state U K c (vclip (x0 c) (lb c) (ub c)) f1 g1 G1 t3) in *.
      assert (Es0 : s_nit s0 = r_nit ck).
      { unfold s0, first_state. destruct (match u_upd U with Some _ => _ | None => _ end) as [X0 G0].
        destruct (match X0 with [] => _ | _ => _ end) as [[X1 G2] m1]. cbn. exact En. }
      assert (Eg : guard c gt s0 = false).
      { unfold guard. assert (Hlt : s_nit s0 <? maxiter c = false) by (apply Z.ltb_ge; lia). rewrite Hlt, andb_false_r. reflexivity. }
      assert (El : s' = s0).
      { destruct (fuel0 c (nit_start c)); cbn [loop] in H7; rewrite Eg in H7; unfold ret in H7; inversion H7; reflexivity. }
      subst s' r. destruct (classify_hist gt s0) as [E1 E2]. unfold snapshot. cbn [r_sk r_yk r_nit]. rewrite E1, E2.
      repeat split. unfold classify. destruct (leb _ _); [exact Es0|]. destruct (_ >=? _); [exact Es0|]. destruct (_ >=? _); exact Es0.
  Qed.
End Restart.
