(* The restore algorithms of Model/Driver.v (and FloatVec.diffs) ARE the instances of the generic ones of
   Model/Restore.v at V := vec = list float, vadd := FloatVec.vadd, vsub := FloatVec.vsub, maxcor := maxcor c:
   every lemma below is closed by [reflexivity] (conversion only, no rewriting of Driver.v was needed). *)
From Coq Require Import List ZArith Bool Floats.PrimFloat.
From LBFGSB Require Import Model.FloatVec Model.Driver Model.Restore.
Import ListNotations.
Open Scope Z_scope.

Lemma diffs_inst : FloatVec.diffs = Restore.diffs FloatVec.vsub.
Proof. reflexivity. Qed.

Lemma cumsum_inst : Driver.cumsum = Restore.cumsum FloatVec.vadd.
Proof. reflexivity. Qed.

Lemma restore_points_inst : Driver.restore_points = Restore.restore_points FloatVec.vadd FloatVec.vsub.
Proof. reflexivity. Qed.

Lemma push_bounded_inst : forall c : cfg, Driver.push_bounded c = Restore.push_bounded (maxcor c).
Proof. reflexivity. Qed.

Lemma trim_inst : forall c : cfg, Driver.trim c = Restore.trim (maxcor c).
Proof. reflexivity. Qed.

Lemma restore_inst : forall (c : cfg) (ck : result),
  Driver.restore c ck =
  Restore.restore FloatVec.vadd FloatVec.vsub (maxcor c) (r_x ck) (r_jac ck) (r_sk ck) (r_yk ck).
Proof. reflexivity. Qed.

(* Over binary64 the exact-arithmetic theorem (b) of Proofs/RestoreProofs.v does NOT hold: with the model's own
   definitions, restoring from one stored pair and re-inserting x gives back a different pair. *)
Example float_restore_not_exact :
  let x := [0x1p+0%float] in                         (* 1.0 *)
  let s := [0x1.999999999999ap-4%float] in          (* 0.1 *)
  FloatVec.diffs (Driver.restore_points x [s] ++ [x]) = [[0x1.9999999999998p-4%float]]   (* 0.09999999999999998 *)
  /\ veqb (hd [] (FloatVec.diffs (Driver.restore_points x [s] ++ [x]))) s = false.
Proof. vm_compute. split; reflexivity. Qed.

Print Assumptions restore_inst.
Print Assumptions push_bounded_inst.
