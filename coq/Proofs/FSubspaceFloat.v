(* Flocq-level facts on primitive binary64 floats used by FSubspaceProofs.v (kept apart: importing Flocq's Core
   shadows the name [float]).  Derived from the FloatAxioms specification through Flocq's IEEE754.PrimFloat bridge.
   No axioms besides those of the standard library / Flocq.

     eqb_nonzero_eq      a == b and a is not a zero           ->  a = b  (Leibniz; one NaN, so bits up to the NaN payload)
     add_zero_r_exact    x neither NaN nor a zero             ->  x + 0.0 = x
     add_zero_r_eqb      x not NaN                            ->  x + 0.0 == x
     addmul_zero_sign    a == a'                              ->  0.0 + a * d = 0.0 + a' * d     (the sign of a zero a is lost)
     sub_pos             b < a                                ->  0 < a - b       (gradual underflow; overflow gives +inf)
     sub_neg             a < b                                ->  a - b < 0
     div_same_sign       0 < p, 0 < d  or  p < 0, d < 0       ->  p / d is NaN (inf / inf) or 0 <= p / d  (underflow: +0.0)
     div_nan_r           d NaN                                ->  p / d NaN
     not_pos_nonzero     not 0 < d, not d == 0                ->  d NaN or d < 0
     zero_step           d == 0, 0 <= a <= 1                  ->  0.0 + a * d = +0.0 *)
From Coq Require Import Reals ZArith Lra Lia Bool.
From Coq Require PrimFloat FloatAxioms.
From Flocq Require Import Core.Core IEEE754.BinarySingleNaN Plus_error.
From Flocq Require IEEE754.PrimFloat.
From LBFGSB Require Import Base.FloatOrd.

Local Existing Instance FP.Hprec.
Local Existing Instance FP.Hmax.

Notation fexp64 := (SpecFloat.fexp FloatOps.prec FloatOps.emax).
Notation rnd64 := (round radix2 fexp64 (round_mode mode_NE)).

(* ------------------------------------------------------------------------------------ *)
(* Shapes of binary floats                                                              *)
(* ------------------------------------------------------------------------------------ *)
(* strictly positive: +inf or a finite non-zero float with the sign bit clear *)
Definition posnz (b : bf) : Prop :=
  match b with
  | B754_infinity false => True
  | B754_finite false _ _ _ => True
  | _ => False
  end.

(* strictly negative *)
Definition negnz (b : bf) : Prop :=
  match b with
  | B754_infinity true => True
  | B754_finite true _ _ _ => True
  | _ => False
  end.

(* NaN, or sign bit clear *)
Definition nan_or_nonneg (b : bf) : Prop :=
  match b with
  | B754_nan => True
  | B754_zero false => True
  | B754_infinity false => True
  | B754_finite false _ _ _ => True
  | _ => False
  end.

Lemma Bltb_zero_posnz (q : bf) : Bltb (B754_zero false) q = true <-> posnz q.
Proof.
  destruct q as [s|s| |s m e H]; unfold Bltb, Bcompare; simpl; split; try discriminate; try tauto;
    destruct s; simpl; try discriminate; try tauto; reflexivity.
Qed.

Lemma Bltb_zero_negnz (q : bf) : Bltb q (B754_zero false) = true <-> negnz q.
Proof.
  destruct q as [s|s| |s m e H]; unfold Bltb, Bcompare; simpl; split; try discriminate; try tauto;
    destruct s; simpl; try discriminate; try tauto; reflexivity.
Qed.

Lemma nan_or_nonneg_leb (q : bf) : nan_or_nonneg q -> is_nan q = true \/ Bleb (B754_zero false) q = true.
Proof.
  destruct q as [s|s| |s m e H]; simpl; try destruct s; intros Hq; try (destruct Hq; fail);
    try (left; reflexivity); right; reflexivity.
Qed.

Lemma not_pos_nonzero_B (d : bf) :
  Bltb (B754_zero false) d = false -> Beqb d (B754_zero false) = false -> is_nan d = true \/ negnz d.
Proof.
  destruct d as [s|s| |s m e H]; unfold Bltb, Beqb, Bcompare; simpl; try destruct s; simpl; intros H1 H2;
    try discriminate; try (left; reflexivity); right; exact I.
Qed.

Lemma Bsign_true_B2R (b : bf) : Bsign b = true -> (B2R b <= 0)%R.
Proof.
  destruct b as [s|s| |s m e H]; simpl; intros Hs; try lra.
  subst s. apply F2R_le_0. simpl. lia.
Qed.

Lemma Bsign_false_B2R (b : bf) : Bsign b = false -> (0 <= B2R b)%R.
Proof.
  destruct b as [s|s| |s m e H]; simpl; intros Hs; try lra.
  subst s. apply F2R_ge_0. simpl. lia.
Qed.

(* ------------------------------------------------------------------------------------ *)
(* IEEE equality of non-zero floats is Leibniz equality                                 *)
(* ------------------------------------------------------------------------------------ *)
Lemma Beqb_nonzero_eq (x y : bf) : Beqb x y = true -> Beqb x (B754_zero false) = false -> x = y.
Proof.
  intros E Z.
  destruct x as [sx|sx| |sx mx ex Hx].
  - discriminate Z.
  - destruct y as [sy|sy| |sy my ey Hy]; unfold Beqb, Bcompare in E; simpl in E; destruct sx; try destruct sy; try discriminate E;
      reflexivity.
  - discriminate E.
  - destruct y as [sy|sy| |sy my ey Hy].
    + unfold Beqb, Bcompare in E; simpl in E. destruct sx; discriminate E.
    + unfold Beqb, Bcompare in E; simpl in E. destruct sx, sy; discriminate E.
    + discriminate E.
    + rewrite Beqb_correct in E by reflexivity.
      apply B2R_inj; try reflexivity. destruct (Req_bool_spec (B2R (B754_finite sx mx ex Hx : bf)) (B2R (B754_finite sy my ey Hy : bf))); [assumption|discriminate].
Qed.

(* ------------------------------------------------------------------------------------ *)
(* x + (+0)                                                                             *)
(* ------------------------------------------------------------------------------------ *)
Lemma Bplus_zero_r_exact (x : bf) :
  is_nan x = false -> Beqb x (B754_zero false) = false -> Bplus mode_NE x (B754_zero false) = x.
Proof.
  destruct x as [sx|sx| |sx mx ex Hx]; intros Hn Hz; try discriminate; reflexivity.
Qed.

Lemma Bplus_zero_r_eqb (x : bf) : is_nan x = false -> Beqb (Bplus mode_NE x (B754_zero false)) x = true.
Proof.
  destruct x as [sx|sx| |sx mx ex Hx]; intros Hn; try discriminate Hn.
  - destruct sx; reflexivity.
  - change (Bplus mode_NE (B754_infinity sx : bf) (B754_zero false)) with (B754_infinity sx : bf).
    rewrite Beqb_refl. reflexivity.
  - change (Bplus mode_NE (B754_finite sx mx ex Hx : bf) (B754_zero false)) with (B754_finite sx mx ex Hx : bf).
    rewrite Beqb_refl. reflexivity.
Qed.

(* 0.0 + (+-0) * d does not depend on the sign of the zero factor *)
Lemma Bplus_Bmult_zero_sign (s s' : bool) (d : bf) :
  Bplus mode_NE (B754_zero false) (Bmult mode_NE (B754_zero s) d)
  = Bplus mode_NE (B754_zero false) (Bmult mode_NE (B754_zero s') d).
Proof. destruct d as [sd|sd| |sd md ed Hd]; try reflexivity; destruct s, s', sd; reflexivity. Qed.

(* 0.0 + a * (+-0) = +0.0 for a in [0, 1] (finite) *)
Lemma Bplus_Bmult_zero_step (a d : bf) :
  Bleb (B754_zero false) a = true -> Bleb a Bone = true -> Beqb d (B754_zero false) = true ->
  Bplus mode_NE (B754_zero false) (Bmult mode_NE a d) = B754_zero false.
Proof.
  destruct Bone_finite_pos as (m1 & e1 & H1 & ->).
  intros Ha Hb Hd.
  destruct d as [sd|sd| |sd md ed Hd']; try (destruct sd; discriminate Hd); try discriminate Hd.
  destruct a as [sa|sa| |sa ma ea Ha']; try discriminate Ha.
  - destruct sa, sd; reflexivity.
  - destruct sa; [discriminate Ha|discriminate Hb].
  - destruct sa, sd; reflexivity.
Qed.

(* ------------------------------------------------------------------------------------ *)
(* Subtraction of distinct floats: the sign of the rounded difference is exact          *)
(* ------------------------------------------------------------------------------------ *)
Lemma round_minus_neq_0 (x y : bf) : is_finite x = true -> is_finite y = true -> (B2R x - B2R y <> 0)%R ->
  (rnd64 (B2R x - B2R y) <> 0)%R.
Proof.
  intros Fx Fy H. unfold Rminus.
  pose proof (fexp_correct _ _ FP.Hprec : Valid_exp fexp64) as Hv.
  pose proof (@monotone_exp_not_FTZ fexp64 Hv (fexp_monotone FloatOps.prec FloatOps.emax)) as Hz.
  apply (@round_plus_neq_0 radix2 fexp64 Hv Hz (round_mode mode_NE) (valid_rnd_round_mode mode_NE)).
  - apply generic_format_B2R.
  - apply generic_format_opp, generic_format_B2R.
  - exact H.
Qed.

Lemma finite_pos_shape (q : bf) : is_finite q = true -> Bsign q = false -> (B2R q <> 0)%R -> posnz q.
Proof.
  destruct q as [s|s| |s m e H]; simpl; intros F S Z; try discriminate; try (exfalso; apply Z; reflexivity).
  subst s. exact I.
Qed.

Lemma finite_neg_shape (q : bf) : is_finite q = true -> Bsign q = true -> (B2R q <> 0)%R -> negnz q.
Proof.
  destruct q as [s|s| |s m e H]; simpl; intros F S Z; try discriminate; try (exfalso; apply Z; reflexivity).
  subst s. exact I.
Qed.

Lemma Bminus_finite_pos (x y : bf) : is_finite x = true -> is_finite y = true -> (B2R y < B2R x)%R -> posnz (Bminus mode_NE x y).
Proof.
  intros Fx Fy Hlt.
  generalize (Bminus_correct _ _ FP.Hprec FP.Hmax mode_NE x y Fx Fy).
  destruct (Rlt_bool_spec (Rabs (rnd64 (B2R x - B2R y))) (bpow radix2 FloatOps.emax)) as [Hb|Hb].
  - intros (Hv & Hfin & Hs).
    rewrite Rcompare_Gt in Hs by lra.
    apply finite_pos_shape; auto. rewrite Hv. apply round_minus_neq_0; auto. lra.
  - intros (Hov & Hsgn).
    assert (Hsx : Bsign x = false).
    { destruct (Bsign x) eqn:Sx; [|reflexivity]. exfalso.
      assert (Bsign y = false) by (destruct (Bsign y); [discriminate|reflexivity]).
      generalize (Bsign_true_B2R _ Sx) (Bsign_false_B2R _ H). lra. }
    rewrite Hsx in Hov. unfold binary_overflow, overflow_to_inf in Hov. simpl in Hov.
    destruct (Bminus mode_NE x y) as [s|s| |s m e H]; simpl in Hov; try discriminate.
    injection Hov as ->. exact I.
Qed.

Lemma Bminus_finite_neg (x y : bf) : is_finite x = true -> is_finite y = true -> (B2R x < B2R y)%R -> negnz (Bminus mode_NE x y).
Proof.
  intros Fx Fy Hlt.
  generalize (Bminus_correct _ _ FP.Hprec FP.Hmax mode_NE x y Fx Fy).
  destruct (Rlt_bool_spec (Rabs (rnd64 (B2R x - B2R y))) (bpow radix2 FloatOps.emax)) as [Hb|Hb].
  - intros (Hv & Hfin & Hs).
    rewrite Rcompare_Lt in Hs by lra.
    apply finite_neg_shape; auto. rewrite Hv. apply round_minus_neq_0; auto. lra.
  - intros (Hov & Hsgn).
    assert (Hsx : Bsign x = true).
    { destruct (Bsign x) eqn:Sx; [reflexivity|]. exfalso.
      assert (Bsign y = true) by (destruct (Bsign y); [reflexivity|discriminate]).
      generalize (Bsign_false_B2R _ Sx) (Bsign_true_B2R _ H). lra. }
    rewrite Hsx in Hov. unfold binary_overflow, overflow_to_inf in Hov. simpl in Hov.
    destruct (Bminus mode_NE x y) as [s|s| |s m e H]; simpl in Hov; try discriminate.
    injection Hov as ->. exact I.
Qed.

Lemma Bminus_pos (x y : bf) : Bltb y x = true -> posnz (Bminus mode_NE x y).
Proof.
  intros Hlt.
  destruct (is_finite x) eqn:Fx; destruct (is_finite y) eqn:Fy.
  - apply Bminus_finite_pos; auto. rewrite (Bltb_correct _ _ y x Fy Fx) in Hlt.
    destruct (Rlt_bool_spec (B2R y) (B2R x)); [assumption|discriminate].
  - destruct x as [sx|sx| |sx mx ex Hx]; try discriminate; destruct y as [sy|sy| |sy my ey Hy]; try discriminate;
      unfold Bltb, Bcompare in Hlt; simpl in Hlt; try destruct sx; try destruct sy; try discriminate; exact I.
  - destruct x as [sx|sx| |sx mx ex Hx]; try discriminate; destruct y as [sy|sy| |sy my ey Hy]; try discriminate;
      unfold Bltb, Bcompare in Hlt; simpl in Hlt; try destruct sx; try destruct sy; try discriminate; exact I.
  - destruct x as [sx|sx| |sx mx ex Hx]; try discriminate; destruct y as [sy|sy| |sy my ey Hy]; try discriminate;
      unfold Bltb, Bcompare in Hlt; simpl in Hlt; try destruct sx; try destruct sy; try discriminate; exact I.
Qed.

Lemma Bminus_neg (x y : bf) : Bltb x y = true -> negnz (Bminus mode_NE x y).
Proof.
  intros Hlt.
  destruct (is_finite x) eqn:Fx; destruct (is_finite y) eqn:Fy.
  - apply Bminus_finite_neg; auto. rewrite (Bltb_correct _ _ x y Fx Fy) in Hlt.
    destruct (Rlt_bool_spec (B2R x) (B2R y)); [assumption|discriminate].
  - destruct x as [sx|sx| |sx mx ex Hx]; try discriminate; destruct y as [sy|sy| |sy my ey Hy]; try discriminate;
      unfold Bltb, Bcompare in Hlt; simpl in Hlt; try destruct sx; try destruct sy; try discriminate; exact I.
  - destruct x as [sx|sx| |sx mx ex Hx]; try discriminate; destruct y as [sy|sy| |sy my ey Hy]; try discriminate;
      unfold Bltb, Bcompare in Hlt; simpl in Hlt; try destruct sx; try destruct sy; try discriminate; exact I.
  - destruct x as [sx|sx| |sx mx ex Hx]; try discriminate; destruct y as [sy|sy| |sy my ey Hy]; try discriminate;
      unfold Bltb, Bcompare in Hlt; simpl in Hlt; try destruct sx; try destruct sy; try discriminate; exact I.
Qed.

(* ------------------------------------------------------------------------------------ *)
(* Division of two floats of the same strict sign                                       *)
(* ------------------------------------------------------------------------------------ *)
Lemma Bdiv_finite_same_sign (s : bool) mp ep Hp md ed Hd :
  nan_or_nonneg (Bdiv mode_NE (B754_finite s mp ep Hp : bf) (B754_finite s md ed Hd)).
Proof.
  assert (Hnz : B2R (B754_finite s md ed Hd : bf) <> 0%R).
  { simpl. destruct s; [apply Rlt_not_eq, F2R_lt_0|apply Rgt_not_eq, F2R_gt_0]; simpl; lia. }
  generalize (Bdiv_correct _ _ FP.Hprec FP.Hmax mode_NE (B754_finite s mp ep Hp) (B754_finite s md ed Hd) Hnz).
  set (q := Bdiv mode_NE (B754_finite s mp ep Hp) (B754_finite s md ed Hd)).
  change (Bsign (B754_finite s mp ep Hp : bf)) with s.
  change (Bsign (B754_finite s md ed Hd : bf)) with s.
  rewrite xorb_nilpotent.
  destruct (Rlt_bool _ _).
  - intros (_ & _ & Hs). destruct q as [sq|sq| |sq mq eq Hq]; simpl in *; try exact I;
      rewrite (Hs eq_refl); exact I.
  - unfold binary_overflow, overflow_to_inf. simpl. intros Hov.
    destruct q as [sq|sq| |sq mq eq Hq]; simpl in Hov; try discriminate. injection Hov as ->. exact I.
Qed.

Lemma Bdiv_pos_pos (p d : bf) : posnz p -> posnz d -> nan_or_nonneg (Bdiv mode_NE p d).
Proof.
  intros Hp Hd.
  destruct p as [sp|sp| |sp mp ep Hp']; try (destruct Hp; fail); destruct sp; try (destruct Hp; fail);
    destruct d as [sd|sd| |sd md ed Hd']; try (destruct Hd; fail); destruct sd; try (destruct Hd; fail);
    first [apply Bdiv_finite_same_sign | exact I].
Qed.

Lemma Bdiv_neg_neg (p d : bf) : negnz p -> negnz d -> nan_or_nonneg (Bdiv mode_NE p d).
Proof.
  intros Hp Hd.
  destruct p as [sp|sp| |sp mp ep Hp']; try (destruct Hp; fail); destruct sp; try (destruct Hp; fail);
    destruct d as [sd|sd| |sd md ed Hd']; try (destruct Hd; fail); destruct sd; try (destruct Hd; fail);
    first [apply Bdiv_finite_same_sign | exact I].
Qed.

(* ------------------------------------------------------------------------------------ *)
(* Primitive floats                                                                     *)
(* ------------------------------------------------------------------------------------ *)
Lemma Prim2B_zero : FP.Prim2B PF.zero = B754_zero false.
Proof. rewrite FP.zero_equiv. apply FP.Prim2B_B2Prim. Qed.

Section Main.
Import PF.

Theorem eqb_nonzero_eq (a b : float) : eqb a b = true -> eqb a 0 = false -> a = b.
Proof.
  change 0%float with PF.zero. rewrite !FP.eqb_equiv, Prim2B_zero. intros E Z.
  apply FP.Prim2B_inj. apply Beqb_nonzero_eq; assumption.
Qed.

Theorem add_zero_r_exact (x : float) : is_nan x = false -> eqb x 0 = false -> add x 0 = x.
Proof.
  change 0%float with PF.zero. rewrite FP.is_nan_equiv, FP.eqb_equiv, Prim2B_zero. intros N Z.
  apply FP.Prim2B_inj. rewrite FP.add_equiv, Prim2B_zero. apply Bplus_zero_r_exact; assumption.
Qed.

Theorem add_zero_r_eqb (x : float) : is_nan x = false -> eqb (add x 0) x = true.
Proof.
  change 0%float with PF.zero. rewrite FP.is_nan_equiv, FP.eqb_equiv, FP.add_equiv, Prim2B_zero.
  apply Bplus_zero_r_eqb.
Qed.

Lemma eqb_zero_inv (a : float) : eqb a 0 = true -> exists s, FP.Prim2B a = B754_zero s.
Proof.
  change 0%float with PF.zero. rewrite FP.eqb_equiv, Prim2B_zero.
  destruct (FP.Prim2B a) as [s|s| |s m e H]; intros Hz; try (destruct s; discriminate Hz); try discriminate Hz.
  exists s; reflexivity.
Qed.

Theorem addmul_zero_sign (a a' d : float) : eqb a a' = true -> add 0 (mul a d) = add 0 (mul a' d).
Proof.
  intros E. destruct (eqb a 0) eqn:Z.
  - assert (Z' : eqb a' 0 = true).
    { revert E Z. key_tac. }
    destruct (eqb_zero_inv _ Z) as [s Hs]. destruct (eqb_zero_inv _ Z') as [s' Hs'].
    apply FP.Prim2B_inj. change 0%float with PF.zero.
    rewrite !FP.add_equiv, !FP.mul_equiv, Prim2B_zero, Hs, Hs'. apply Bplus_Bmult_zero_sign.
  - rewrite (eqb_nonzero_eq _ _ E Z). reflexivity.
Qed.

Theorem sub_pos (a b : float) : ltb b a = true -> ltb 0 (sub a b) = true.
Proof.
  change 0%float with PF.zero. rewrite !FP.ltb_equiv, FP.sub_equiv, Prim2B_zero. intros H.
  apply Bltb_zero_posnz. apply Bminus_pos. exact H.
Qed.

Theorem sub_neg (a b : float) : ltb a b = true -> ltb (sub a b) 0 = true.
Proof.
  change 0%float with PF.zero. rewrite !FP.ltb_equiv, FP.sub_equiv, Prim2B_zero. intros H.
  apply Bltb_zero_negnz. apply Bminus_neg. exact H.
Qed.

Theorem div_pos_pos (p d : float) : ltb 0 p = true -> ltb 0 d = true -> is_nan (div p d) = true \/ leb 0 (div p d) = true.
Proof.
  change 0%float with PF.zero. rewrite !FP.ltb_equiv, FP.is_nan_equiv, FP.leb_equiv, FP.div_equiv, Prim2B_zero.
  intros Hp Hd. apply nan_or_nonneg_leb. apply Bdiv_pos_pos; apply Bltb_zero_posnz; assumption.
Qed.

Theorem div_neg_neg (p d : float) : ltb p 0 = true -> ltb d 0 = true -> is_nan (div p d) = true \/ leb 0 (div p d) = true.
Proof.
  change 0%float with PF.zero. rewrite !FP.ltb_equiv, FP.is_nan_equiv, FP.leb_equiv, FP.div_equiv, Prim2B_zero.
  intros Hp Hd. apply nan_or_nonneg_leb. apply Bdiv_neg_neg; apply Bltb_zero_negnz; assumption.
Qed.

Theorem div_nan_r (p d : float) : is_nan d = true -> is_nan (div p d) = true.
Proof.
  rewrite !FP.is_nan_equiv, FP.div_equiv. destruct (FP.Prim2B d); try discriminate. intros _.
  destruct (FP.Prim2B p); reflexivity.
Qed.

Theorem not_pos_nonzero (d : float) : ltb 0 d = false -> eqb d 0 = false -> is_nan d = true \/ ltb d 0 = true.
Proof.
  change 0%float with PF.zero. rewrite !FP.ltb_equiv, FP.eqb_equiv, FP.is_nan_equiv, Prim2B_zero.
  intros H1 H2. destruct (not_pos_nonzero_B _ H1 H2) as [H|H]; [left; exact H|right; apply Bltb_zero_negnz; exact H].
Qed.

Theorem zero_step (a d : float) : eqb d 0 = true -> leb 0 a = true -> leb a 1 = true -> add 0 (mul a d) = 0%float.
Proof.
  change 0%float with PF.zero. change 1%float with PF.one.
  rewrite FP.eqb_equiv, !FP.leb_equiv, Prim2B_zero, Prim2B_one. intros Hd Ha Hb.
  apply FP.Prim2B_inj. rewrite FP.add_equiv, FP.mul_equiv, Prim2B_zero. apply Bplus_Bmult_zero_step; assumption.
Qed.

(* order facts in the key domain *)
Lemma eqb_trans (a b c : float) : eqb a b = true -> eqb b c = true -> eqb a c = true.
Proof. key_tac. Qed.
Lemma eqb_refl_not_nan (a : float) : is_nan a = false -> eqb a a = true.
Proof. key_tac. Qed.
Lemma leb_total (a b : float) : is_nan a = false -> is_nan b = false -> leb a b = true \/ leb b a = true.
Proof.
  intros Na Nb. destruct (leb a b) eqn:E; [left; reflexivity|right].
  apply ltb_leb. apply leb_false_ltb; assumption.
Qed.
Lemma ltb_one_leb (a : float) : ltb a 1 = true -> leb a 1 = true.
Proof. apply ltb_leb. Qed.
Lemma leb_one_one : leb 1 1 = true.
Proof. reflexivity. Qed.
Lemma leb_zero_one : leb 0 1 = true.
Proof. reflexivity. Qed.

End Main.

Print Assumptions eqb_nonzero_eq.
Print Assumptions addmul_zero_sign.
Print Assumptions sub_pos.
Print Assumptions div_pos_pos.
Print Assumptions zero_step.
