(* C07 on the driver model: the state handed to the callback after iteration k is the result of the same run made with
   maxiter = k (x, fun, jac, counters, nit, correction pairs); proved by a prefix argument: the passes of the outer loop
   do not depend on maxiter, which only decides where it stops. *)
From Coq Require Import List ZArith Bool String Lia Floats.PrimFloat.
From LBFGSB Require Import Base.Res Base.Hoare Model.SF Model.FloatVec Model.Driver Generated.StopTests Proofs.DriverShape.
Import ListNotations.
Open Scope Z_scope.

Definition with_maxiter (k : Z) (c : cfg) : cfg :=
  mkcfg (x0 c) (lb c) (ub c) (maxcor c) (ftarget c) (ftol c) (gtol c) k (maxfun c) (maxls c) (max_steplength c)
        (ftol_ls c) (gtol_ls c) (xtol_ls c) (eps_sy c) (checkpoint c).

(* the fields the property lists *)
Definition same_state (a b : result) : Prop :=
  r_x a = r_x b /\ r_fun a = r_fun b /\ r_jac a = r_jac b /\ r_nfev a = r_nfev b /\ r_njev a = r_njev b /\ r_nit a = r_nit b /\
  r_sk a = r_sk b /\ r_yk a = r_yk b.

Section Snapshot.
  Variable U : user.
  Variable K : kern.
  Variable c : cfg.

  (* the callback state built from loop state s after its iteration *)
  Definition fields_of (s : lst) (r : result) : Prop :=
    r_x r = s_x s /\ r_fun r = s_f s /\ r_jac r = s_g s /\ r_nfev r = SF.nfev _ _ _ _ (s_sf s) /\ r_njev r = SF.ngev _ _ _ _ (s_sf s) /\
    r_nit r = s_nit s /\ r_sk r = diffs (s_X s) /\ r_yk r = diffs (s_G s).

  Lemma lift_no_cb {A} (m : M (SF.ev vec float vec) A) r tr snap b : lift sfev m = (r, tr) -> ~ In (EvCb snap b) tr.
  Proof.
    destruct m as [r0 t]. unfold lift. cbn. intros H. inversion H; subst. clear. induction t as [|e t IH]; cbn; [tauto|].
    intros [H|H]; [destruct e; discriminate|auto].
  Qed.

  Lemma ls_loop_no_cb n xk d par s r tr snap b : ls_loop U K c n xk d par s = (r, tr) -> ~ In (EvCb snap b) tr.
  Proof.
    revert s r tr. induction n as [|k IH]; intros s r tr H; cbn [ls_loop] in H.
    - unfold ret in H. inversion H. cbn. tauto.
    - destruct (dcs K par _) as [stp tk]. destruct tk; try (unfold ret in H; inversion H; cbn; tauto).
      unfold bind in H. destruct (sf_fun_and_grad U _ _) as [[[[f g] t1]|e|] tA] eqn:EA.
      + destruct (ls_loop U K c k xk d par _) as [rB tB] eqn:EB. inversion H; subst. intros Hin. apply in_app_or in Hin as [Hin|Hin].
        * unfold sf_fun_and_grad in EA. eapply lift_no_cb; eauto.
        * eapply IH; eauto.
      + inversion H; subst. unfold sf_fun_and_grad in EA. eapply lift_no_cb; eauto.
      + inversion H; subst. unfold sf_fun_and_grad in EA. eapply lift_no_cb; eauto.
  Qed.

  Lemma line_search_no_cb xk f0 g0 d nit cap t r tr snap b : line_search U K c xk f0 g0 d nit cap t = (r, tr) -> ~ In (EvCb snap b) tr.
  Proof.
    unfold line_search, bind. destruct (ls_loop U K c _ xk d _ _) as [[s|e|] t1] eqn:E1; intros H.
    - assert (H2 : tr = t1 ++ []).
      { destruct (negb _ || _); [unfold ret in H; inversion H; reflexivity|]. destruct (l_task s); unfold ret in H; inversion H; reflexivity. }
      subst. rewrite app_nil_r. eapply ls_loop_no_cb; eauto.
    - inversion H; subst. eapply ls_loop_no_cb; eauto.
    - inversion H; subst. eapply ls_loop_no_cb; eauto.
  Qed.

  Lemma bind_in {A B} (m : M ev A) (f : A -> M ev B) r tr (e : ev) : bind m f = (r, tr) -> In e tr ->
    In e (snd m) \/ exists a t1 t2, m = (Ok a, t1) /\ f a = (r, t2) /\ In e t2.
  Proof.
    unfold bind. destruct m as [[a|x|] t1]; cbn.
    - destruct (f a) as [r2 t2] eqn:E. intros H Hin. inversion H; subst. apply in_app_or in Hin as [Hin|Hin]; [left; exact Hin|].
      right. exists a, t1, t2. auto.
    - intros H Hin. inversion H; subst. left; exact Hin.
    - intros H Hin. inversion H; subst. left; exact Hin.
  Qed.

  (* a successful callback event of one pass of the loop (whatever the outcome of the pass is claimed to be): the pass
     completes and continues, and the state it hands over is the one the loop goes on with *)
  Lemma body_cb ft s r tr snap b : body U K c ft s = (r, tr) -> In (EvCb snap (Ok b)) tr ->
    exists s1, r = Ok (true, s1) /\ fields_of s1 snap /\ s_nit s1 = s_nit s + 1.
  Proof.
    unfold body. intros H Hin.
    apply (bind_in _ _ _ _ _ H) in Hin as [Hin|([stp t1] & trA & trB & HA & HB & Hin)].
    { exfalso. destruct (line_search U K c _ _ _ _ _ _ _) as [rA tA] eqn:EA. eapply line_search_no_cb; eauto. }
    destruct stp as [a|]; [|unfold ret in HB; inversion HB; subst; destruct Hin].
    unfold accept_step in HB.
    apply (bind_in _ _ _ _ _ HB) in Hin as [Hin|([[f0 g] t2] & tr1 & trC & H1 & HC & Hin)].
    { exfalso. destruct (sf_fun_and_grad U _ t1) as [r1 tt] eqn:E1. unfold sf_fun_and_grad in E1. eapply lift_no_cb; eauto. }
    apply (bind_in _ _ _ _ _ HC) in Hin as [Hin|([[[[f1 fo] g1] G1] filt] & tr2 & trD & H2 & HD & Hin)].
    { exfalso. destruct (u_upd U) as [u|]; [|cbn in Hin; destruct Hin].
      unfold bind, call in Hin. destruct (u _ _ _ _ _ _) as [[[[a1 a2] a3] a4]|x|]; cbn in Hin; destruct Hin as [Hin|[]]; discriminate. }
    destruct (if filt then _ else _) as [X1 G2].
    destruct (is_f0_target_reached _ _); [unfold ret in HD; inversion HD; subst; destruct Hin|].
    destruct (is_f0_min_change_reached _ _ _); [unfold ret in HD; inversion HD; subst; destruct Hin|].
    destruct (update_mem_f K c _ _ _ _ _ _) as [[X2 G3] m2].
    destruct (u_cb U) as [cb|]; [|unfold ret in HD; inversion HD; subst; destruct Hin].
    apply (bind_in _ _ _ _ _ HD) in Hin as [Hin|(b' & q1 & q2 & Q1 & Q2 & Hin)].
    - cbn in Hin. destruct Hin as [Hin|[]]. inversion Hin as [[Hs Hb]]. clear Hin.
      unfold bind, call in HD. rewrite Hb in HD.
      destruct b; unfold ret in HD; inversion HD; subst; eexists; (split; [reflexivity|]); (split; [|reflexivity]);
        unfold fields_of; cbn; repeat split; reflexivity.
    - destruct b'; unfold ret in Q2; inversion Q2; subst; destruct Hin.
  Qed.

  Lemma body_nit ft s cont s1 tr : body U K c ft s = (Ok (cont, s1), tr) -> cont = true -> s_nit s1 = s_nit s + 1.
  Proof.
    unfold body. intros H Hc. apply bind_ok_inv in H as ([stp t1] & trA & trB & HA & HB & ->).
    destruct stp as [a|].
    - unfold accept_step in HB. apply bind_ok_inv in HB as ([[f0 g] t2] & tr1 & trC & H1 & HB & ->).
      apply bind_ok_inv in HB as ([[[[f1 fo] g1] G1] filt] & tr2 & trD & H2 & HB & ->).
      destruct (if filt then _ else _) as [X1 G2].
      destruct (is_f0_target_reached _ _); [unfold ret in HB; inversion HB; subst; discriminate|].
      destruct (is_f0_min_change_reached _ _ _); [unfold ret in HB; inversion HB; subst; discriminate|].
      destruct (update_mem_f K c _ _ _ _ _ _) as [[X2 G3] m2].
      destruct (u_cb U) as [cb|]; [|unfold ret in HB; inversion HB; subst; reflexivity].
      apply bind_ok_inv in HB as (b' & q1 & q2 & Q1 & Q2 & ->). destruct b'; unfold ret in Q2; inversion Q2; subst; reflexivity.
    - unfold ret in HB. inversion HB as [[H0]]. unfold fail_step in H0. destruct (_ =? _)%nat; inversion H0; subst; [discriminate|reflexivity].
  Qed.

  (* prefix lemma: if the loop of the run with budget c hands a state with nit = k to the callback, the loop of the run with
     maxiter = k, started from the same state, ends exactly in the loop state that snapshot was taken from *)
  Lemma loop_snapshot fuel ft gt : forall s r tr snap b,
    loop U K c fuel ft gt s = (r, tr) -> In (EvCb snap (Ok b)) tr ->
    s_nit s < r_nit snap /\
    exists s_k tr', loop U K (with_maxiter (r_nit snap) c) (Z.to_nat (r_nit snap - s_nit s)) ft gt s = (Ok s_k, tr') /\
                    fields_of s_k snap /\ s_nit s_k = r_nit snap.
  Proof.
    induction fuel as [|n IH]; intros s r tr snap b H Hin; cbn [loop] in H; destruct (guard c gt s) eqn:Eg;
      try (unfold ret in H; inversion H; subst; destruct Hin); try (inversion H; subst; destruct Hin).
    assert (Hg : forall k, s_nit s < k -> guard (with_maxiter k c) gt s = true).
    { intros k Hk. unfold guard in *. cbn [maxiter with_maxiter lb ub maxfun]. apply andb_true_iff in Eg as [Eg E4]. apply andb_true_iff in Eg as [Eg E3].
      apply andb_true_iff in Eg as [E1 E2']. rewrite E1, E3, E4. assert (Hlt : s_nit s <? k = true) by (apply Z.ltb_lt; lia). rewrite Hlt. reflexivity. }
    apply (bind_in _ _ _ _ _ H) in Hin as [Hin|([cont s1] & tb & t2 & Eb & E2 & Hin)].
    - destruct (body U K c ft s) as [rb tb] eqn:Eb. cbn [snd] in Hin.
      destruct (body_cb _ _ _ _ _ _ Eb Hin) as (s1 & -> & Hf & Hn).
      assert (Hk : r_nit snap = s_nit s + 1) by (destruct Hf as (_ & _ & _ & _ & _ & Hf & _); lia).
      split; [lia|]. rewrite Hk. replace (s_nit s + 1 - s_nit s) with 1 by lia. change (Z.to_nat 1) with 1%nat.
      exists s1. cbn [loop]. rewrite (Hg (s_nit s + 1)) by lia.
      change (body U K (with_maxiter (s_nit s + 1) c) ft s) with (body U K c ft s). rewrite Eb. unfold bind.
      assert (G1 : guard (with_maxiter (s_nit s + 1) c) gt s1 = false).
      { unfold guard. cbn [maxiter with_maxiter]. assert (Hge : s_nit s1 <? s_nit s + 1 = false) by (apply Z.ltb_ge; lia). rewrite Hge, andb_false_r. reflexivity. }
      rewrite G1. eexists. split; [reflexivity|]. split; [exact Hf|lia].
    - destruct cont; [|unfold ret in E2; inversion E2; subst; destruct Hin].
      pose proof (body_nit _ _ _ _ _ Eb eq_refl) as Hn.
      destruct (IH _ _ _ _ _ E2 Hin) as (Hlt & s_k & tr' & Hl & Hf & Hk).
      split; [lia|]. exists s_k.
      replace (Z.to_nat (r_nit snap - s_nit s)) with (S (Z.to_nat (r_nit snap - s_nit s1))) by lia.
      cbn [loop]. rewrite (Hg (r_nit snap)) by lia.
      change (body U K (with_maxiter (r_nit snap) c) ft s) with (body U K c ft s). rewrite Eb. unfold bind. rewrite Hl.
      eexists. split; [reflexivity|]. split; assumption.
  Qed.
End Snapshot.

Section SnapshotRun.
  Variable U : user.
  Variable K : kern.
  Variable c : cfg.
  Notation scale := (SF.scale vec float vec float).

  Lemma step_no_cb {A} (m : M ev A) snap b : (forall e, In e (snd m) -> forall s0 r0, e <> EvCb s0 r0) -> ~ In (EvCb snap (Ok b)) (snd m).
  Proof. intros H Hin. exact (H _ Hin snap (Ok b) eq_refl). Qed.

  Lemma step_f0_no_cb x snap b : ~ In (EvCb snap (Ok b)) (snd (step_f0 U c x)).
  Proof.
    unfold step_f0. destruct (checkpoint c); [cbn; tauto|]. destruct (sf_fun U x _) as [r t] eqn:E. cbn. unfold sf_fun in E. eapply lift_no_cb; eauto.
  Qed.
  Lemma step_ft_no_cb snap b : ~ In (EvCb snap (Ok b)) (snd (step_ft U c)).
  Proof.
    unfold step_ft. destruct (ftarget c) as [[v|]|]; cbn; try tauto. unfold bind, call. destruct (u_ftarget U); cbn; intros [H|[]]; discriminate.
  Qed.
  Lemma step_gt_no_cb snap b : ~ In (EvCb snap (Ok b)) (snd (step_gt U c)).
  Proof. unfold step_gt. destruct (gtol c); cbn; try tauto. intros [H|[]]; discriminate. Qed.
  Lemma step_g_no_cb x t1 snap b : ~ In (EvCb snap (Ok b)) (snd (step_g U c x t1)).
  Proof.
    unfold step_g. destruct (checkpoint c); [cbn; tauto|]. destruct (sf_grad U x t1) as [r t] eqn:E. cbn. unfold sf_grad in E. eapply lift_no_cb; eauto.
  Qed.
  Lemma step_sc_no_cb x g t2 snap b : ~ In (EvCb snap (Ok b)) (snd (step_sc U c x g t2)).
  Proof.
    unfold step_sc. destruct (u_scaler U) as [sc|]; [|cbn; tauto]. unfold bind, call. destruct (sc _ _ _ _); cbn; intros [H|[]]; discriminate.
  Qed.
  Lemma step_upd_no_cb x f g X G snap b : ~ In (EvCb snap (Ok b)) (snd (step_upd U x f g X G)).
  Proof.
    unfold step_upd. destruct (u_upd U) as [u|]; [|cbn; tauto]. unfold bind, call. destruct (u _ _ _ _ _ _) as [[[[a1 a2] a3] a4]| |]; cbn; intros [H|[]]; discriminate.
  Qed.

  (* the steps before the loop do not depend on maxiter *)
  Lemma run_steps_mi k x : run_steps U K (with_maxiter k c) x =
    ('(f0, t1) <- step_f0 U c x ;;
     ft <- step_ft U c ;;
     gt <- step_gt U c ;;
     if is_f0_target_reached (div f0 (scale t1)) ft then ret (early_result c x f0 t1)
     else
       '(g, t2) <- step_g U c x t1 ;;
       t3 <- step_sc U c x g t2 ;;
       '(f1, g1, G1) <- step_upd U x (mul f0 (scale t3)) (vscale g (scale t3)) (fst (restored c)) (snd (restored c)) ;;
       s <- loop U K (with_maxiter k c) (Z.to_nat (k - nit_start c)) ft gt (first_state U K c x f1 g1 G1 t3) ;;
       ret (snapshot (classify (with_maxiter k c) gt s) (s_nit (classify (with_maxiter k c) gt s)))).
  Proof. reflexivity. Qed.

  Theorem snapshot_is_result : forall out tr snap b, run U K c = (out, tr) -> In (EvCb snap (Ok b)) tr ->
    exists r' tr', run U K (with_maxiter (r_nit snap) c) = (Ok r', tr') /\ same_state r' snap.
  Proof.
    intros out tr snap b H Hin. unfold run in *.
    change (bounds_error (with_maxiter (r_nit snap) c)) with (bounds_error c).
    destruct (bounds_error c); [inversion H; subst; destruct Hin|].
    change (ck_ok (with_maxiter (r_nit snap) c)) with (ck_ok c). change (x0 (with_maxiter (r_nit snap) c)) with (x0 c).
    change (lb (with_maxiter (r_nit snap) c)) with (lb c). change (ub (with_maxiter (r_nit snap) c)) with (ub c).
    set (x := vclip (x0 c) (lb c) (ub c)) in *.
    destruct (ck_ok c x); [|inversion H; subst; destruct Hin].
    rewrite run_checked_steps in H |- *. rewrite run_steps_mi. unfold run_steps in H.
    apply (bind_in _ _ _ _ _ H) in Hin as [Hin|([f0 t1] & tr1 & trA & H1 & HA & Hin)]; [exfalso; eapply step_f0_no_cb; eauto|].
    apply (bind_in _ _ _ _ _ HA) in Hin as [Hin|(ft & tr2 & trB & H2 & HB & Hin)]; [exfalso; eapply step_ft_no_cb; eauto|].
    apply (bind_in _ _ _ _ _ HB) in Hin as [Hin|(gt & tr3 & trC & H3 & HC & Hin)]; [exfalso; eapply step_gt_no_cb; eauto|].
    rewrite H1. unfold bind at 1. rewrite H2. unfold bind at 1. rewrite H3. unfold bind at 1.
    destruct (is_f0_target_reached _ _); [unfold ret in HC; inversion HC; subst; destruct Hin|].
    apply (bind_in _ _ _ _ _ HC) in Hin as [Hin|([g t2] & tr4 & trD & H4 & HD & Hin)]; [exfalso; eapply step_g_no_cb; eauto|].
    apply (bind_in _ _ _ _ _ HD) in Hin as [Hin|(t3 & tr5 & trE & H5 & HE & Hin)]; [exfalso; eapply step_sc_no_cb; eauto|].
    apply (bind_in _ _ _ _ _ HE) in Hin as [Hin|([[f1 g1] G1] & tr6 & trF & H6 & HF & Hin)]; [exfalso; eapply step_upd_no_cb; eauto|].
    rewrite H4. unfold bind at 1. rewrite H5. unfold bind at 1. rewrite H6. unfold bind at 1.
    apply (bind_in _ _ _ _ _ HF) in Hin as [Hin|(s' & tr7 & trG & H7 & HG & Hin)]; [|unfold ret in HG; inversion HG; subst; destruct Hin].
    destruct (loop U K c _ ft gt _) as [rl tl] eqn:El. cbn [snd] in Hin.
    destruct (loop_snapshot U K c _ ft gt _ _ _ _ _ El Hin) as (Hlt & s_k & tr' & Hl & Hf & Hk).
    assert (En : s_nit (first_state U K c x f1 g1 G1 t3) = nit_start c).
    { unfold first_state. destruct (match u_upd U with Some _ => _ | None => _ end) as [X0 G0]. destruct (match X0 with [] => _ | _ => _ end) as [[X1 G2] m1]. reflexivity. }
    rewrite En in Hl. rewrite Hl. unfold bind, ret.
    eexists. eexists. split; [reflexivity|].
    set (ck := with_maxiter (r_nit snap) c).
    assert (Hcl : s_x (classify ck gt s_k) = s_x s_k /\ s_f (classify ck gt s_k) = s_f s_k /\ s_g (classify ck gt s_k) = s_g s_k /\
                  s_X (classify ck gt s_k) = s_X s_k /\ s_G (classify ck gt s_k) = s_G s_k /\ s_sf (classify ck gt s_k) = s_sf s_k /\
                  s_nit (classify ck gt s_k) = s_nit s_k).
    { unfold classify. destruct (leb _ _); [cbn; repeat split|]. destruct (_ >=? _); [cbn; repeat split|]. destruct (_ >=? _); cbn; repeat split. }
    destruct Hcl as (C1 & C2 & C3 & C4 & C5 & C6 & C7). destruct Hf as (F1 & F2 & F3 & F4 & F5 & F6 & F7 & F8).
    unfold same_state, snapshot. cbn [r_x r_fun r_jac r_nfev r_njev r_nit r_sk r_yk]. rewrite C1, C2, C3, C4, C5, C6, C7.
    repeat split; congruence.
  Qed.
End SnapshotRun.
