(* Hand-written model of lbfgsb/main.py : minimize_lbfgsb, initialize_X_and_G, of
   lbfgsb/linesearch.py : line_search / max_allowed_steplength and of the memory functions of
   lbfgsb/bfgsmats.py (update_X_and_G, is_update_X_and_G, make_X_and_G_respect_strong_wolfe), over
   binary64 vectors.  Everything that is not control flow, bookkeeping or element-wise arithmetic
   is an oracle (a field of [kern] or [user]); theorems proved for all oracles hold for every
   behaviour of that code.  The model is tied to the code by the bit-exact correspondence run
   (harness/corr/driver.py) and imports the generated stop tests (Generated/StopTests.v). *)
From Coq Require Import List ZArith Bool String DecimalString Floats.PrimFloat.
From LBFGSB Require Import Base.Res Model.SF Model.FloatVec Generated.StopTests.
Import ListNotations.
Open Scope Z_scope.

(* prefix of the task string returned by DCSRCH._iterate *)
Inductive task := TFG | TConv | TWarn | TErr.

Inductive msg := MStart | MRestart | MAbnormal | MFtol | MTarget | MPgtol | MMaxiter | MMaxfun | MCallback.

Definition msg_string (m : msg) : string :=
  match m with
  | MStart => "START"
  | MRestart => "RESTART_FROM_LNSRCH"
  | MAbnormal => "ABNORMAL_TERMINATION_IN_LNSRCH"
  | MFtol => "CONVERGENCE: REL_REDUCTION_OF_F_<=_FTOL"
  | MTarget => "CONVERGENCE: F_<=_TARGET"
  | MPgtol => "CONVERGENCE: NORM_OF_PROJECTED_GRADIENT_<=_PGTOL"
  | MMaxiter => "STOP: TOTAL NO. of ITERATIONS REACHED LIMIT"
  | MMaxfun => "STOP: TOTAL NO. of f AND g EVALUATIONS EXCEEDS LIMIT"
  | MCallback => "STOP: USER CALLBACK"
  end%string.

(* an OptimizeResult: the value returned, the state handed to the callback, and a checkpoint *)
Record result := mkres {
  r_x : vec; r_fun : float; r_jac : vec; r_nfev : Z; r_njev : Z; r_nit : Z;
  r_status : Z; r_msg : msg; r_success : bool; r_sk : list vec; r_yk : list vec }.

Inductive tol := TolConst (v : float) | TolCall.

Record cfg := mkcfg {
  x0 : vec; lb : vec; ub : vec; maxcor : Z; ftarget : option tol; ftol : float; gtol : tol;
  maxiter : Z; maxfun : Z; maxls : Z; max_steplength : float;
  ftol_ls : float; gtol_ls : float; xtol_ls : float; eps_sy : float;
  checkpoint : option result }.

(* the user's callables: pure functions that may raise *)
Record user := mkuser {
  uf : vec -> res float;
  ug : vec -> res vec;
  u_cb : option (result -> res bool);
  u_upd : option (vec -> float -> float -> vec -> list vec -> list vec -> res (float * float * vec * list vec));
  u_scaler : option (vec -> vec -> vec -> vec -> res float);
  u_ftarget : res float;                 (* answer of ftarget() when it is callable *)
  u_gtol : res float;                    (* answer of gtol() when it is callable *)
  (* finite differences (jac not callable): SciPy's approx_derivative as an oracle *)
  fdmode : bool;
  fd_stencil : vec -> list vec;
  fd_est : vec -> float -> list float -> res vec }.

Definition mats := option (list vec * list vec).   (* the (X, G) the matrices were last built from *)

(* numeric kernels that are not modelled here *)
Record kern := mkkern {
  search : vec -> vec -> mats -> Z -> vec;        (* x, grad, matrices, nit -> xbar  (Cauchy + free set + subspace) *)
  dcs : float * float * float * float -> list (float * float * float) -> float * task;
        (* (ftol, gtol, xtol, stpmax), inputs (stp, f, g) fed so far incl. the current one -> (stp, task) *)
  vdot : vec -> vec -> float }.                   (* BLAS dot *)

Inductive ev :=
| EvF (x : vec) (r : res float)
| EvG (x : vec) (r : res vec)
| EvFt (r : res float)
| EvGt (r : res float)
| EvScaler (x g l u : vec) (r : res float)
| EvUpd (x : vec) (f0 f0_old : float) (g : vec) (X G : list vec) (r : res (float * float * vec * list vec))
| EvCb (s : result) (r : res bool).

Section Driver.
  Variable U : user.
  Variable K : kern.
  Variable c : cfg.

  Notation sfst := (SF.st vec float vec float).
  Definition sfev (e : SF.ev vec float vec) : ev :=
    match e with SF.EvF _ _ _ p r => EvF p r | SF.EvG _ _ _ p r => EvG p r end.
  Definition sf_fun (p : vec) (t : sfst) : M ev (float * sfst) :=
    lift sfev (SF.sf_fun vec float vec float veqb mul (uf U) p t).
  Definition sf_grad (p : vec) (t : sfst) : M ev (vec * sfst) :=
    lift sfev (SF.sf_grad vec float vec float veqb vscale (uf U) (ug U) (fd_stencil U) (fd_est U) (fdmode U) p t).
  Definition sf_fun_and_grad (p : vec) (t : sfst) : M ev (float * vec * sfst) :=
    lift sfev (SF.sf_fun_and_grad vec float vec float veqb mul vscale (uf U) (ug U) (fd_stencil U) (fd_est U) (fdmode U) p t).

  (* ---------------------------------------------------------------- memory (bfgsmats.py) *)
  Definition last_or {A} (l : list A) (d : A) : A := List.last l d.

  (* is_update_X_and_G *)
  Definition curvature_ok (xk gk x_old g_old : vec) : bool :=
    let yk := vsub gk g_old in
    let sTy := vdot K (vsub xk x_old) yk in
    let yTy := vdot K yk yk in
    ltb (mul (eps_sy c) yTy) sTy.

  Definition trim (l : list vec) : list vec :=
    if (Z.of_nat (List.length l) >? maxcor c + 1) then tl l else l.

  (* update_lbfgs_matrices(xk, gk, X, G, maxcor, mats, is_force_update=False): X, G non-empty *)
  Definition update_mem (xk gk : vec) (X G : list vec) (m : mats) : list vec * list vec * mats :=
    if curvature_ok xk gk (last_or X []) (last_or G []) then
      let X' := trim (X ++ [xk]) in
      let G' := trim (G ++ [gk]) in
      (X', G', Some (X', G'))
    else (X, G, m).

  (* update_lbfgs_matrices(..., is_force_update=force): a rejected candidate still makes the matrices be rebuilt from the
     (possibly rewritten) history when force is set *)
  Definition update_mem_f (force : bool) (xk gk : vec) (X G : list vec) (m : mats) : list vec * list vec * mats :=
    if curvature_ok xk gk (last_or X []) (last_or G []) then
      let X' := trim (X ++ [xk]) in
      let G' := trim (G ++ [gk]) in
      (X', G', Some (X', G'))
    else (X, G, if force then Some (X, G) else m).

  (* make_X_and_G_respect_strong_wolfe: walk from the newest point backwards, keep a point when the pair it
     forms with the oldest point kept so far passes the test (arguments in the order of the source) *)
  Fixpoint filter_back (rX rG : list vec) (aX aG : list vec) : list vec * list vec :=
    match rX, rG with
    | xk :: rX', gk :: rG' =>
        if curvature_ok xk gk (hd [] aX) (hd [] aG)
        then filter_back rX' rG' (xk :: aX) (gk :: aG)
        else filter_back rX' rG' aX aG
    | _, _ => (aX, aG)
    end.
  Definition filter_mem (X G : list vec) : list vec * list vec :=
    match rev X, rev G with
    | xl :: rX, gl :: rG => filter_back rX rG [xl] [gl]
    | _, _ => (X, G)
    end.

  (* initialize_X_and_G: x - cumsum(sk[::-1]) reversed; bounded by maxcor + 1 while appending *)
  Fixpoint cumsum (acc : option vec) (rs : list vec) : list vec :=
    match rs with
    | [] => []
    | s :: r => let a := match acc with None => s | Some a0 => vadd a0 s end in a :: cumsum (Some a) r
    end.
  Definition restore_points (x : vec) (sk : list vec) : list vec :=
    rev (map (fun cs => vsub x cs) (cumsum None (rev sk))).
  Fixpoint push_bounded (pts : list vec) (acc : list vec) : list vec :=
    match pts with
    | [] => acc
    | p :: r => push_bounded r ((if Z.of_nat (List.length acc) >? maxcor c then tl acc else acc) ++ [p])
    end.
  Definition restore (ck : result) : list vec * list vec :=
    match r_sk ck with
    | [] => ([], [])
    | _ => (push_bounded (restore_points (r_x ck) (r_sk ck)) [], push_bounded (restore_points (r_jac ck) (r_yk ck)) [])
    end.

  (* ---------------------------------------------------------------- line search (linesearch.py) *)
  Record lss := mklss {
    l_stp : float; l_f : float; l_dphi : float; l_hist : list (float * float * float);
    l_best : option float; l_bestf : float; l_task : task; l_last : float; l_sf : sfst }.

  Fixpoint ls_loop (n : nat) (xk d : vec) (par : float * float * float * float) (s : lss) : M ev lss :=
    match n with
    | O => ret (mklss (l_stp s) (l_f s) (l_dphi s) (l_hist s) (l_best s) (l_bestf s) TWarn (l_last s) (l_sf s))
    | S k =>
        let hist := l_hist s ++ [(l_stp s, l_f s, l_dphi s)] in
        let '(stp, tk) := dcs K par hist in
        match tk with
        | TFG =>
            let p := vclip (vaxpy xk stp d) (lb c) (ub c) in
            '(f, g, t1) <- sf_fun_and_grad p (l_sf s) ;;
            let dphi := vdot K g d in
            let better := ltb f (l_bestf s) in
            ls_loop k xk d par
              (mklss stp f dphi hist (if better then Some stp else l_best s) (if better then f else l_bestf s) TFG stp t1)
        | _ => ret (mklss (l_stp s) (l_f s) (l_dphi s) hist (l_best s) (l_bestf s) tk stp (l_sf s))
        end
    end.

  Definition is_boxed : bool := negb (any_inf (lb c) || any_inf (ub c)).

  Definition line_search (xk : vec) (f0 : float) (g0 d : vec) (nit cap : Z) (t : sfst) : M ev (option float * sfst) :=
    let stpmax := if nit =? 0 then fone else maxstep xk d (lb c) (ub c) (max_steplength c) in
    let dphi0 := vdot K g0 d in
    let stp0 := if (nit =? 0) && negb is_boxed then pymin (div fone (sqrt (vdot K d d))) stpmax else fone in
    s <- ls_loop (Z.to_nat cap) xk d (ftol_ls c, gtol_ls c, xtol_ls c, stpmax)
           (mklss stp0 f0 dphi0 [] None f0 TFG stp0 t) ;;
    if negb (is_finite (l_last s)) || eqb (l_last s) fzero then ret (None, l_sf s)
    else match l_task s with
         | TConv | TWarn => ret (l_best s, l_sf s)
         | _ => ret (None, l_sf s)
         end.

  (* ---------------------------------------------------------------- outer loop (main.py) *)
  Record lst := mklst {
    s_x : vec; s_f : float; s_g : vec; s_X : list vec; s_G : list vec; s_mats : mats;
    s_nit : Z; s_msg : msg; s_succ : bool; s_warn : Z; s_sf : sfst }.

  Definition snapshot (s : lst) (nit : Z) : result :=
    mkres (s_x s) (s_f s) (s_g s) (SF.nfev _ _ _ _ (s_sf s)) (SF.ngev _ _ _ _ (s_sf s)) nit
          (s_warn s) (s_msg s) (s_succ s) (diffs (s_X s)) (diffs (s_G s)).

  Definition scale_of (s : lst) : float := SF.scale _ _ _ _ (s_sf s).

  Definition guard (gt : float) (s : lst) : bool :=
    ltb gt (projgr (s_x s) (s_g s) (lb c) (ub c)) && (s_nit s <? maxiter c) &&
    (SF.nfev _ _ _ _ (s_sf s) <? maxfun c) && negb (s_succ s).

  Definition set_stop (s : lst) (f : float) (g : vec) (x : vec) (X G : list vec) (t : sfst) (m : msg) (w : Z) : lst :=
    mklst x f g X G (s_mats s) (s_nit s) m true w t.

  (* a failed line search: abort when the memory holds a single point, otherwise reset it and go on *)
  Definition fail_step (s : lst) (t1 : sfst) : bool * lst :=
    if (List.length (s_X s) =? 1)%nat then
      (false, mklst (s_x s) (s_f s) (s_g s) (s_X s) (s_G s) (s_mats s) (s_nit s) MAbnormal false 2 t1)
    else
      (true, mklst (s_x s) (s_f s) (s_g s) [last_or (s_X s) []] [last_or (s_G s) []] None (s_nit s + 1) MRestart (s_succ s) (s_warn s) t1).

  (* an accepted step a along d: new iterate, evaluation, update function, stop tests, memory, callback *)
  Definition accept_step (ft : option float) (s : lst) (a : float) (d : vec) (t1 : sfst) : M ev (bool * lst) :=
    let f0_old := s_f s in
    let x := vclip (vaxpy (s_x s) a d) (lb c) (ub c) in
    '(f0, g, t2) <- sf_fun_and_grad x t1 ;;
    '(f0, f0_old, g, G, filt) <-
       match u_upd U with
       | None => ret (f0, f0_old, g, s_G s, false)
       | Some u => let r := u x f0 f0_old g (s_X s) (s_G s) in
                   '(a1, a2, a3, a4) <- call r (EvUpd x f0 f0_old g (s_X s) (s_G s) r) ;; ret (a1, a2, a3, a4, true)
       end ;;
    (* the rewritten history is filtered before the stop tests *)
    let '(X1, G1) := if filt then filter_mem (s_X s) G else (s_X s, G) in
    if is_f0_target_reached (div f0 (SF.scale _ _ _ _ t2)) ft then ret (false, set_stop s f0 g x X1 G1 t2 MTarget 0)
    else if is_f0_min_change_reached f0 f0_old (ftol c) then ret (false, set_stop s f0 g x X1 G1 t2 MFtol 0)
    else
      (* with an update function the matrices are rebuilt from the filtered history even if the new pair is rejected;
         they are reset when that history holds a single point *)
      let '(X2, G2, m2) := update_mem_f (filt && (1 <? List.length X1)%nat) x g X1 G1
                             (if filt && (List.length X1 =? 1)%nat then None else s_mats s) in
      let s1 := mklst x f0 g X2 G2 m2 (s_nit s) (s_msg s) (s_succ s) (s_warn s) t2 in
      match u_cb U with
      | None => ret (true, mklst x f0 g X2 G2 m2 (s_nit s + 1) (s_msg s) (s_succ s) (s_warn s) t2)
      | Some cb =>
          let snap := snapshot s1 (s_nit s + 1) in
          b <- call (cb snap) (EvCb snap (cb snap)) ;;
          if b then ret (true, mklst x f0 g X2 G2 m2 (s_nit s + 1) MCallback true (s_warn s) t2)
          else ret (true, mklst x f0 g X2 G2 m2 (s_nit s + 1) (s_msg s) (s_succ s) (s_warn s) t2)
      end.

  (* the step handed to the line search *)
  Definition direction (s : lst) : vec := vsub (search K (s_x s) (s_g s) (s_mats s) (s_nit s)) (s_x s).
  Definition ls_cap (s : lst) : Z := Z.min (maxls c) (maxfun c - SF.nfev _ _ _ _ (s_sf s)).

  (* one pass of the while loop; returns (continue?, state) *)
  Definition body (ft : option float) (s : lst) : M ev (bool * lst) :=
    let d := direction s in
    '(stp, t1) <- line_search (s_x s) (s_f s) (s_g s) d (s_nit s) (ls_cap s) (s_sf s) ;;
    match stp with
    | None => ret (fail_step s t1)
    | Some a => accept_step ft s a d t1
    end.

  Fixpoint loop (fuel : nat) (ft : option float) (gt : float) (s : lst) : M ev lst :=
    if guard gt s then
      match fuel with
      | O => (OutOfFuel, [])
      | S k => '(cont, s1) <- body ft s ;; if cont then loop k ft gt s1 else ret s1
      end
    else ret s.

  Definition classify (gt : float) (s : lst) : lst :=
    if leb (projgr (s_x s) (s_g s) (lb c) (ub c)) gt then
      mklst (s_x s) (s_f s) (s_g s) (s_X s) (s_G s) (s_mats s) (s_nit s) MPgtol true 1 (s_sf s)
    else if s_nit s >=? maxiter c then
      mklst (s_x s) (s_f s) (s_g s) (s_X s) (s_G s) (s_mats s) (s_nit s) MMaxiter true 1 (s_sf s)
    else if SF.nfev _ _ _ _ (s_sf s) >=? maxfun c then
      mklst (s_x s) (s_f s) (s_g s) (s_X s) (s_G s) (s_mats s) (s_nit s) MMaxfun true 1 (s_sf s)
    else s.

  Definition fuel0 (nit0 : Z) : nat := Z.to_nat (maxiter c - nit0).

  (* initialize_X_and_G: np.testing.assert_equal(x, checkpoint.x) (NaN equal to NaN, -0.0 equal to +0.0) *)
  Definition ck_mismatch : exn :=
    ("ValueError", "When 'checkpoint' is provided (L-BFGS-B restart), x0 and checkpoint.x should be equal!")%string.
  Definition ck_ok (x : vec) : bool := match checkpoint c with None => true | Some ck => vsame x (r_x ck) end.

  Definition run_checked (x : vec) : M ev result :=
    let '(X, G) := match checkpoint c with None => ([], []) | Some ck => restore ck end in
    let t0 := SF.init vec float vec float x fone in
    let t0 := match checkpoint c with None => t0 | Some ck => SF.set_counters _ _ _ _ (r_nfev ck) (r_njev ck) t0 end in
    '(f0, t1) <- match checkpoint c with None => sf_fun x t0 | Some ck => ret (r_fun ck, t0) end ;;
    ft <- match ftarget c with
          | None => ret None
          | Some (TolConst v) => ret (Some v)
          | Some TolCall => v <- call (u_ftarget U) (EvFt (u_ftarget U)) ;; ret (Some v)
          end ;;
    gt <- match gtol c with
          | TolConst v => ret v
          | TolCall => call (u_gtol U) (EvGt (u_gtol U))
          end ;;
    let nit0 := match checkpoint c with None => 0 | Some ck => r_nit ck end in
    if is_f0_target_reached (div f0 (SF.scale _ _ _ _ t1)) ft then
      match checkpoint c with
      | None => ret (mkres x f0 (vzeros x) (SF.nfev _ _ _ _ t1) (SF.ngev _ _ _ _ t1) nit0 0 MTarget true [] [])
      | Some ck => ret (mkres (r_x ck) (r_fun ck) (r_jac ck) (r_nfev ck) (r_njev ck) (r_nit ck) 0 MTarget true (r_sk ck) (r_yk ck))
      end
    else
      '(g, t2) <- match checkpoint c with None => sf_grad x t1 | Some ck => ret (r_jac ck, t1) end ;;
      t3 <- match u_scaler U with
            | None => ret t2
            | Some sc => let r := sc x g (lb c) (ub c) in
                         s <- call r (EvScaler x g (lb c) (ub c) r) ;; ret (SF.set_scale _ _ _ _ s t2)
            end ;;
      let f0 := mul f0 (SF.scale _ _ _ _ t3) in
      let g := vscale g (SF.scale _ _ _ _ t3) in
      '(f0, g, G) <- match u_upd U with
                     | None => ret (f0, g, G)
                     | Some u => let r := u x f0 f0 g X G in
                                 '(a1, _, a3, a4) <- call r (EvUpd x f0 f0 g X G r) ;; ret (a1, a3, a4)
                     end ;;
      (* restart: the restored history, possibly rewritten by the update function, is filtered *)
      let '(X, G) := match u_upd U, X with
                     | Some _, _ :: _ => filter_mem X G
                     | _, _ => (X, G)
                     end in
      let '(X1, G1, m1) := match X with
                           | [] => ([x], [g], None)
                           | _ => update_mem_f (1 <? List.length X)%nat x g X G None
                           end in
      s <- loop (fuel0 nit0) ft gt (mklst x f0 g X1 G1 m1 nit0 MStart false 2 t3) ;;
      let s := classify gt s in
      ret (snapshot s (s_nit s)).

  (* base.py get_bounds: argument validation (the bounds have the length of x0: validated inputs) *)
  Definition nat_str (n : nat) : string := NilZero.string_of_uint (Nat.to_uint n).
  Fixpoint count2 (p : float -> float -> bool) (a b : vec) : nat :=
    match a, b with
    | x :: a', y :: b' => (if p x y then 1 else 0) + count2 p a' b'
    | _, _ => 0
    end%nat.
  Definition bounds_error : option exn :=
    match x0 c with
    | [] => Some ("ValueError", "x0 cannot be an empty vector!")
    | _ =>
      if (0 <? count2 ltb (ub c) (lb c))%nat then Some ("ValueError", "One of the lower bounds is greater than an upper bound.")
      else
        let k1 := count2 ltb (x0 c) (lb c) in
        let k2 := count2 ltb (ub c) (x0 c) in
        if (0 <? k1 + k2)%nat then
          Some ("ValueError", "There are " ++ nat_str k1 ++ " values violating the lower bounds and " ++ nat_str k2 ++ " values violating the upper bounds!")
        else None
    end%string.

  Definition run : M ev result :=
    match bounds_error with
    | Some e => raise e
    | None =>
      let x := vclip (x0 c) (lb c) (ub c) in
      if ck_ok x then run_checked x else raise ck_mismatch
    end.
End Driver.
