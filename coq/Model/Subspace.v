(* C09 — executable model, over exact rationals, of
     lbfgsb/subspacemin.py : get_freev, subspace_minimization.
   Definitions only; the proofs are in SubspaceProofs.v (lists over Q) and SMW.v (MathComp).

   Source                                                       | model
   -------------------------------------------------------------+------------------------------
   free_vars = ((x_cp != ub) & (x_cp != lb)).nonzero()          | free_mask
   Z (n x t, unit columns of the free variables)                | gather mask . = Z^T . ; scatter mask . = Z .
   WTZ = Z.T.dot(W).T          (2m x t)                         | A  := transpose (gather mask W);  ZtW := gather mask W = A^T
   r = grad + theta*(xc - x);  r -= W.dot(bmv(invMfactors, c))  | rvec          (bmv(invMfactors, u) = M u, M an INPUT)
   rHat = [r[ind] for ind in free_vars]                         | rhat := gather mask r
   v = WTZ.dot(rHat)                                            | v0 := A rhat
   v = bmv(., v); N = -bmv(., invThet*WTZ.dot(WTZ.T)); N += I   | rhs := M v0;  N := I - (1/theta) M (A A^T)
   v = np.linalg.solve(N, v)                                    | solve (exact Gaussian elimination, hint = None) or a proposed
                                                                | v (hint = Some v); in both cases accepted only after the exact
                                                                | certificate  v - (1/theta) M A A^T v == M A rhat  (cert)
     (the main branch solves K v = WTZ rHat with K = M^-1 N through the LEL^T factor; same v, see SMW.v)
   dHat = -invThet * (rHat + invThet * WTZ.T.dot(v))            | dhat
   alpha_star = min(1, nanmin(where(dHat>0, ub-xc, lb-xc)[free][dHat!=0] / dHat[dHat!=0]))
                                                                | cand / argmin / finish (n-space, non-free coordinates skipped)
   np.clip(xc + alpha_star * Z @ dHat, lb, ub)                  | step
   if len(free_vars) == 0: return xc                            | early return in subspace_gen
   Error values: SSingular (no pivot in the elimination), SCertFail (certificate false). There is no fuel:
   every recursion is structural.  The theorems are about runs that return SOk.

   The first iteration (mats.use_factor = False: W = zeros(n,1), invMfactors = ([[0]],[[0]])) is the
   instance M = [[0]], W = n x 1 zeros, c = [0]: the generic formulas then give r = g + theta (xc-x), N = I, v = 0,
   which is what the `else` branches of the source compute. *)
From Coq Require Import List QArith Bool Arith.
Import ListNotations.
Open Scope Q_scope.

(* ---------- scalars ---------- *)
Definition Qltb (a b : Q) : bool := negb (Qle_bool b a).
Definition bound := option Q.      (* None : no bound (numpy -inf for lb, +inf for ub) *)
Definition beq_bound (x : Q) (b : bound) : bool := match b with Some b' => Qeq_bool x b' | None => false end.

(* ---------- vectors and matrices as lists ---------- *)
Fixpoint map2 {A B C : Type} (f : A -> B -> C) (u : list A) (w : list B) : list C :=
  match u, w with
  | a :: u', b :: w' => f a b :: map2 f u' w'
  | _, _ => []
  end.
(* EVALUATION STRATEGY (speed of vm_compute only; every operation below is Qeq-equal to the textbook one).
   The linear algebra never normalises fractions: the case files give every vector / matrix over ONE common
   denominator, products and sums of such vectors again have one common denominator, and qadd adds numerators
   when the denominators coincide, so the numbers grow with the DEPTH of the computation, not with the length
   of the sums, and no gcd is computed.  Qred appears only inside the Gaussian elimination, on the candidate
   ratios, and as a safety net when a sum meets two different denominators.
   (qadd a b == a + b, qaddv a b == a + b : lemmas qadd_correct, qaddv_correct.) *)
Definition qadd (a b : Q) : Q :=
  match Qnum a, Qnum b with
  | Z0, _ => b
  | _, Z0 => a
  | _, _ => if Pos.eqb (Qden a) (Qden b) then (Qnum a + Qnum b) # (Qden a) else Qred (a + b)
  end.
(* entrywise sum of two vectors: no zero-skipping, so that a common denominator stays common *)
Definition qaddv (a b : Q) : Q :=
  if Pos.eqb (Qden a) (Qden b) then (Qnum a + Qnum b) # (Qden a) else a + b.
Definition vadd (u w : list Q) : list Q := map2 qaddv u w.
Definition vscale (c : Q) (u : list Q) : list Q := map (fun a => c * a) u.
Fixpoint dot_raw (u w : list Q) : Q :=
  match u, w with
  | a :: u', b :: w' => qadd (a * b) (dot_raw u' w')
  | _, _ => 0
  end.
Definition dot (u w : list Q) : Q := dot_raw u w.
(* matrix (list of rows) times vector *)
Definition mv (R : list (list Q)) (u : list Q) : list Q := map (fun row => dot row u) R.
(* transpose of a matrix with k columns *)
Definition transpose (k : nat) (R : list (list Q)) : list (list Q) :=
  map (fun j => map (fun row => nth j row 0) R) (seq 0 k).
(* P * R where R has k columns *)
Definition mm (k : nat) (P R : list (list Q)) : list (list Q) :=
  let Rt := transpose k R in map (fun prow => mv Rt prow) P.
Definition veq_bool (u w : list Q) : bool :=
  Nat.eqb (length u) (length w) && forallb (fun p => Qeq_bool (fst p) (snd p)) (combine u w).

(* ---------- free set (get_freev) ---------- *)
Definition is_free (xc : Q) (l u : bound) : bool := negb (beq_bound xc u) && negb (beq_bound xc l).
Fixpoint free_mask (xc : list Q) (lb ub : list bound) : list bool :=
  match xc, lb, ub with
  | x :: xc', l :: lb', u :: ub' => is_free x l u :: free_mask xc' lb' ub'
  | _, _, _ => []
  end.
(* Z^T v : the free components of v *)
Fixpoint gather {A : Type} (mask : list bool) (v : list A) : list A :=
  match mask, v with
  | b :: m, a :: v' => if b then a :: gather m v' else gather m v'
  | _, _ => []
  end.
(* Z d : d on the free coordinates, 0 elsewhere *)
Fixpoint scatter (mask : list bool) (d : list Q) : list Q :=
  match mask with
  | [] => []
  | true :: m => match d with a :: d' => a :: scatter m d' | [] => 0 :: scatter m [] end
  | false :: m => 0 :: scatter m d
  end.
Fixpoint free_idx (i : nat) (mask : list bool) : list nat :=
  match mask with
  | [] => []
  | b :: m => if b then i :: free_idx (S i) m else free_idx (S i) m
  end.

(* ---------- exact Gaussian elimination (untrusted: its answer is checked by a certificate) ---------- *)
(* first row whose head is non-zero, and the remaining rows *)
Fixpoint pick (rows : list (list Q)) : option (list Q * list (list Q)) :=
  match rows with
  | [] => None
  | row :: rest =>
      match row with
      | a :: _ => if Qeq_bool a 0
                  then match pick rest with Some (p, others) => Some (p, row :: others) | None => None end
                  else Some (row, rest)
      | [] => None
      end
  end.
(* rows : k equations in k unknowns, each row = k coefficients followed by the right-hand side.
   Structural recursion on k; None = singular (no pivot). *)
Fixpoint solve (k : nat) (rows : list (list Q)) : option (list Q) :=
  match k with
  | O => Some []
  | S k' =>
      match pick rows with
      | Some (a :: pt, rest) =>
          let rest' := map (fun row => match row with
                                       | b :: rt => let f := Qred (b / a) in map2 (fun x y => Qred (x - f * y)) rt pt
                                       | [] => []
                                       end) rest in
          match solve k' rest' with
          | Some xs => Some (Qred ((nth k' pt 0 - dot_raw pt xs) / a) :: xs)   (* dot_raw stops at the k' unknowns *)
          | None => None
          end
      | _ => None
      end
  end.

(* the same vector written over one common denominator (entrywise Qeq; evaluation speed only) *)
Definition uniformize (v : list Q) : list Q :=
  let L := fold_right (fun q acc => Z.lcm (Zpos (Qden q)) acc) 1%Z v in
  map (fun q => (Qnum q * (L / Zpos (Qden q))) # (Z.to_pos L)) v.

(* ---------- step length and projection ---------- *)
Record coord := mkCoord { c_free : bool; c_d : Q; c_xc : Q; c_lb : bound; c_ub : bound }.
Fixpoint coords (mask : list bool) (d xc : list Q) (lb ub : list bound) : list coord :=
  match mask, d, xc, lb, ub with
  | b :: mask', a :: d', x :: xc', l :: lb', u :: ub' => mkCoord b a x l u :: coords mask' d' xc' lb' ub'
  | _, _, _, _, _ => []
  end.
(* candidate ratio of a coordinate; None = +infinity / not a candidate *)
Definition cand (c : coord) : option Q :=
  if negb (c_free c) then None
  else if Qeq_bool (c_d c) 0 then None
  else if Qltb 0 (c_d c)
       then match c_ub c with Some u => Some (Qred ((u - c_xc c) / c_d c)) | None => None end
       else match c_lb c with Some l => Some (Qred ((l - c_xc c) / c_d c)) | None => None end.
(* smallest candidate and the first index where it is attained *)
Fixpoint argmin (cs : list (option Q)) : option (Q * nat) :=
  match cs with
  | [] => None
  | c :: cs' =>
      let rest := match argmin cs' with Some (b, k) => Some (b, S k) | None => None end in
      match c, rest with
      | None, _ => rest
      | Some a, None => Some (a, O)
      | Some a, Some (b, k) => if Qle_bool a b then Some (a, O) else Some (b, k)
      end
  end.
(* np.clip(x, l, u) = minimum(maximum(x, l), u) *)
Definition clip (x : Q) (l u : bound) : Q :=
  let y := match l with Some l' => if Qltb x l' then l' else x | None => x end in
  match u with Some u' => if Qltb u' y then u' else y | None => y end.
Definition step (alpha : Q) (c : coord) : Q := clip (c_xc c + alpha * c_d c) (c_lb c) (c_ub c).
(* alpha* = min(1, smallest candidate) ; hit = the coordinate that reaches its bound at alpha* (if any) *)
Definition alpha_hit (cds : list (option Q)) : Q * option nat :=
  match argmin cds with
  | None => (1, None)
  | Some (a, k) => (if Qltb a 1 then a else 1, if Qle_bool a 1 then Some k else None)
  end.
Definition finish (mask : list bool) (dhat xc : list Q) (lb ub : list bound) : list (option Q) * Q * option nat * list Q :=
  let cs := coords mask (scatter mask dhat) xc lb ub in
  let cds := map cand cs in
  let ah := alpha_hit cds in
  (cds, fst ah, snd ah, map (step (fst ah)) cs).

(* ---------- the model ---------- *)
Record input := mkInput {
  i_x : list Q; i_xc : list Q; i_g : list Q; i_lb : list bound; i_ub : list bound;
  i_theta : Q;
  i_W : list (list Q);      (* n rows, 2m columns *)
  i_M : list (list Q);      (* 2m x 2m middle matrix: bmv(invMfactors, u) = M u *)
  i_c : list Q }.           (* 2m *)
Record output := mkOutput {
  o_free : list bool; o_rhat : list Q; o_v : list Q; o_dhat : list Q;
  o_cands : list (option Q); o_alpha : Q; o_hit : option nat; o_xbar : list Q }.
Inductive sres := SOk (o : output) | SSingular | SCertFail.

Definition rvec (inp : input) : list Q :=
  let th := i_theta inp in
  map2 (fun a b => a - b)
       (map2 (fun gi di => gi + th * di) (i_g inp) (map2 (fun a b => qaddv a (- b)) (i_xc inp) (i_x inp)))
       (mv (i_W inp) (mv (i_M inp) (i_c inp))).
Definition identity_minus (k : nat) (c : Q) (R : list (list Q)) : list (list Q) :=
  map2 (fun i row => map2 (fun j a => Qred ((if Nat.eqb i j then 1 else 0) - c * a)) (seq 0 k) row) (seq 0 k) R.
(* the small system: N v = rhs, and the exact certificate in matrix-vector form
     v - (1/theta) M (A (A^T v)) == M (A rhat)   and   |v| = |M| *)
Definition cert (th : Q) (M A ZtW : list (list Q)) (rhat v : list Q) : bool :=
  Nat.eqb (length v) (length M) &&
  veq_bool (vadd v (vscale (- (1 / th)) (mv M (mv A (mv ZtW v))))) (mv M (mv A rhat)).
Definition dhat_of (th : Q) (ZtW : list (list Q)) (rhat v : list Q) : list Q :=
  vscale (- (1 / th)) (vadd rhat (vscale (1 / th) (mv ZtW v))).
(* reduced Hessian times a vector of the free subspace:  H d = theta d - A^T M A d,  H = Z^T B Z *)
Definition Hmul (th : Q) (M A ZtW : list (list Q)) (d : list Q) : list Q :=
  vadd (vscale th d) (vscale (-(1)) (mv ZtW (mv M (mv A d)))).

(* hint = None: the small system is solved here by Gaussian elimination;
   hint = Some v: a candidate solution supplied from outside.  Either way the candidate is accepted only
   if it passes the exact certificate, which is all the theorems rely on. *)
Definition subspace_gen (hint : option (list Q)) (inp : input) : sres :=
  let mask := free_mask (i_xc inp) (i_lb inp) (i_ub inp) in
  if negb (existsb (fun b => b) mask)
  then SOk (mkOutput mask [] [] [] [] 1 None (i_xc inp))
  else
    let th := i_theta inp in
    let M := i_M inp in
    let k := length M in
    let rhat := gather mask (rvec inp) in
    let ZtW := gather mask (i_W inp) in          (* t x 2m *)
    let A := transpose k ZtW in                  (* 2m x t : WTZ *)
    let cand_v :=
      match hint with
      | Some v => Some v
      | None =>
          let v0 := mv A rhat in
          let rhs := mv M v0 in
          let N := identity_minus k (1 / th) (mm k M (mm k A ZtW)) in
          match solve k (map2 (fun row b => row ++ [b]) N rhs) with Some v => Some (uniformize v) | None => None end
      end in
    match cand_v with
    | None => SSingular
    | Some v =>
        if cert th M A ZtW rhat v then
          let dhat := dhat_of th ZtW rhat v in
          match finish mask dhat (i_xc inp) (i_lb inp) (i_ub inp) with
          | (cds, alpha, hit, xbar) => SOk (mkOutput mask rhat v dhat cds alpha hit xbar)
          end
        else SCertFail
    end.

Definition subspace (inp : input) : sres := subspace_gen None inp.

(* ---------- helpers for the generated case files (tests, not theorems) ---------- *)
Definition is_identity (k : nat) (R : list (list Q)) : bool :=
  Nat.eqb (length R) k &&
  forallb (fun p => veq_bool (snd p) (map (fun j => if Nat.eqb (fst p) j then 1 else 0) (seq 0 k))) (combine (seq 0 k) R).
(* Minv * M == I, both k x k (for square matrices this makes M the inverse of Minv) *)
Definition check_inverse (Minv M : list (list Q)) : bool :=
  let k := length M in
  Nat.eqb (length Minv) k && forallb (fun row => Nat.eqb (length row) k) M && forallb (fun row => Nat.eqb (length row) k) Minv
  && is_identity k (mm k Minv M).
(* H dhat == - rhat evaluated on the model's own output *)
Definition newton_check (inp : input) (o : output) : bool :=
  let ZtW := gather (o_free o) (i_W inp) in
  let A := transpose (length (i_M inp)) ZtW in
  veq_bool (Hmul (i_theta inp) (i_M inp) A ZtW (o_dhat o)) (vscale (-(1)) (o_rhat o)).
(* the inverse middle matrix of bfgsmats.py (eq. 3.4 of the paper), built from the correction pairs:
     Minv = [[-D, L^T], [L, theta S^T S]],  D = diag(S^T Y), L = strict lower triangle of S^T Y   (S, Y : n rows of m) *)
Definition build_Minv (m : nat) (th : Q) (S Y : list (list Q)) : list (list Q) :=
  let St := transpose m S in
  let STY := mm m St Y in
  let STS := mm m St S in
  let e (R : list (list Q)) (i j : nat) := nth j (nth i R []) 0 in
  map (fun i => map (fun j => if Nat.eqb i j then - e STY i i else 0) (seq 0 m)
                ++ map (fun j => if Nat.ltb i j then e STY j i else 0) (seq 0 m)) (seq 0 m)
  ++ map (fun i => map (fun j => if Nat.ltb j i then e STY i j else 0) (seq 0 m)
                   ++ map (fun j => th * e STS i j) (seq 0 m)) (seq 0 m).
(* m = 0 (first iteration, use_factor = False): M must be the 1 x 1 zero matrix *)
Definition check_M (m : nat) (th : Q) (S Y M : list (list Q)) : bool :=
  match m with
  | O => match M with [[z]] => Qeq_bool z 0 | _ => false end
  | _ => check_inverse (build_Minv m th S Y) M
  end.
(* big numbers are printed as little-endian lists of 60-bit limbs (printing a 4000-bit numeral in decimal takes
   seconds); fractions are not normalised: the reader does that *)
Fixpoint limbs_fuel (fuel : nat) (z : Z) : list Z :=
  match fuel with
  | O => []
  | S f => if Z.eqb z 0 then [] else Z.land z (Z.ones 60) :: limbs_fuel f (Z.shiftr z 60)
  end.
Definition zlimbs (z : Z) : bool * list Z :=
  (Z.ltb z 0, limbs_fuel (S (Z.to_nat (Z.log2 (Z.abs z)))) (Z.abs z)).
Definition qpair (q : Q) : (bool * list Z) * list Z := (zlimbs (Qnum q), snd (zlimbs (Zpos (Qden q)))).
(* one line per case: status, M verified, TEST H dhat == -rhat, free set, hit, alpha*, x_bar, candidate ratios, d_hat *)
Definition report (hint : option (list Q)) (inp : input) (m : nat) (S Y : list (list Q)) :=
  let mok := check_M m (i_theta inp) S Y (i_M inp) in
  match subspace_gen hint inp with
  | SOk o => (0%Z, mok, newton_check inp o, free_idx 0 (o_free o),
              o_hit o, qpair (o_alpha o), map qpair (o_xbar o),
              map (fun c => match c with Some a => Some (qpair a) | None => None end) (o_cands o), map qpair (o_dhat o))
  | SSingular => (1%Z, mok, false, [], None, qpair 0, [], [], [])
  | SCertFail => (2%Z, mok, false, [], None, qpair 0, [], [], [])
  end.
