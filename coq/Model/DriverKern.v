(* The Cauchy-point + subspace kernel of the driver model instantiated by the bit-exact binary64 models of get_cauchy_point
   (Model/FCauchy.v) and get_freev + subspace_minimization (Model/FSubspace.v).  The limited-memory matrices enter through
   theta and the rows of W = [Y, theta S], which are element-wise functions of the history (X, G) the matrices were built
   from (update_lbfgs_matrices: theta = y.y / s.y of the newest pair, two dot products); everything that goes through dense
   linear algebra stays an oracle, indexed by the iteration count. *)
From Coq Require Import List ZArith Bool Floats.PrimFloat.
From LBFGSB Require Import Model.FloatVec Model.Driver Model.FCauchy Model.FSubspace.
Import ListNotations.
Open Scope Z_scope.

(* the linear-algebra answers of a whole run *)
Record blas := mkblas { b_gcp : Z -> oracles; b_sub : Z -> sub_oracles }.

(* rows of [Y, theta * S] for S, Y given as lists of pair vectors (oldest first) *)
Definition w_rows (n : nat) (S Y : list vec) (theta : float) : list vec :=
  map (fun i => map (fun y => nth i y nan) Y ++ map (fun s => mul theta (nth i s nan)) S) (seq 0 n).

(* LBFGSB_MATRICES(n) before the first update: theta = 1, W = zeros (n, 1), use_factor False;
   after update_lbfgs_matrices on the history (X, G): theta = y.y / s.y of the newest pair, W = [Y, theta S], use_factor True *)
Definition mats_params (vdot : vec -> vec -> float) (n : nat) (m : mats) : float * list vec * bool :=
  match m with
  | None => (1%float, repeat [0%float] n, false)
  | Some (X, G) =>
      let S := diffs X in
      let Y := diffs G in
      let sk := last S [] in
      let yk := last Y [] in
      let theta := div (vdot yk yk) (vdot sk yk) in
      (theta, w_rows n S Y theta, true)
  end.

Definition search_model (B : blas) (vdot : vec -> vec -> float) (c : cfg) : vec -> vec -> mats -> Z -> vec :=
  fun x g m nit =>
    let '(theta, W, uf) := mats_params vdot (List.length x) m in
    let '(xcp, cc) := fgcp (b_gcp B nit) x g (lb c) (ub c) theta W uf in
    fsubspace (b_sub B nit) x xcp cc g (lb c) (ub c) theta uf.

Definition kern_model (B : blas) (dcs : float * float * float * float -> list (float * float * float) -> float * task)
    (vdot : vec -> vec -> float) (c : cfg) : kern :=
  mkkern (search_model B vdot c) dcs vdot.

(* correspondence support: per-iteration tables *)
Fixpoint lookz {A} (dflt : A) (t : list (Z * A)) (k : Z) : A :=
  match t with [] => dflt | (k', a) :: r => if k =? k' then a else lookz dflt r k end.
Definition mk_blas (tg : list (Z * oracles)) (ts : list (Z * sub_oracles)) : blas :=
  mkblas (lookz (table_oracles [] [] [] [] []) tg) (lookz (table_sub_oracles [] []) ts).
