(* The attributes of a scalar_function.ScalarFunction object as a record, and the helpers that the translator of
   scalar_function.py (harness/translate.py, gen_sf_src) maps statements to.  Hand-written, definitions only.
     self.x, self.f, self.g            px, pf, pg   (an attribute that was never assigned is None: reading it raises AttributeError)
     self.f_updated, self.g_updated    the two validity flags
     self.nfev, self.ngev, self.scaling_factor
   Ghost attributes (written, never read by the package): H_updated, nhev, n, _lowest_x, _lowest_f. *)
From Coq Require Import List ZArith Bool String.
From LBFGSB Require Import Base.Res Model.SF.
Import ListNotations.
Open Scope Z_scope.

Section SFPy.
  Variables (P F G S : Type).
  Notation ev := (SF.ev P F G).
  Record pst := mkp { px : P; pf : option F; pg : option G; f_updated : bool; g_updated : bool; pnfev : Z; pngev : Z; pscale : S }.

  Definition set_x (x : P) (t : pst) : pst := mkp x (pf t) (pg t) (f_updated t) (g_updated t) (pnfev t) (pngev t) (pscale t).
  Definition set_f (v : option F) (t : pst) : pst := mkp (px t) v (pg t) (f_updated t) (g_updated t) (pnfev t) (pngev t) (pscale t).
  Definition set_g (g : option G) (t : pst) : pst := mkp (px t) (pf t) g (f_updated t) (g_updated t) (pnfev t) (pngev t) (pscale t).
  Definition set_f_updated (b : bool) (t : pst) : pst := mkp (px t) (pf t) (pg t) b (g_updated t) (pnfev t) (pngev t) (pscale t).
  Definition set_g_updated (b : bool) (t : pst) : pst := mkp (px t) (pf t) (pg t) (f_updated t) b (pnfev t) (pngev t) (pscale t).
  Definition set_nfev (n : Z) (t : pst) : pst := mkp (px t) (pf t) (pg t) (f_updated t) (g_updated t) n (pngev t) (pscale t).
  Definition set_ngev (n : Z) (t : pst) : pst := mkp (px t) (pf t) (pg t) (f_updated t) (g_updated t) (pnfev t) n (pscale t).
  Definition set_scaling_factor (s : S) (t : pst) : pst := mkp (px t) (pf t) (pg t) (f_updated t) (g_updated t) (pnfev t) (pngev t) s.

  Definition attr_error (a : string) : exn := ("AttributeError"%string, ("'ScalarFunction' object has no attribute '" ++ a ++ "'")%string).
  Definition get_f (t : pst) : M ev F := match pf t with Some v => ret v | None => raise (attr_error "f") end.
  Definition get_g (t : pst) : M ev G := match pg t with Some g => ret g | None => raise (attr_error "g") end.

  (* approx_derivative(fun_wrapped, x, f0=f0, ...): the differencing routine calls fun_wrapped at the points of its stencil, in
     order, then combines the values; the zeroing of the variables with lb == ub that follows is part of the estimate `fdest` *)
  Fixpoint map_stencil (fw : P -> pst -> M ev (F * pst)) (ps : list P) (t : pst) : M ev (list F * pst) :=
    match ps with
    | [] => ret ([], t)
    | p :: r => '(v, t1) <- fw p t ;; '(vs, t2) <- map_stencil fw r t1 ;; ret (v :: vs, t2)
    end.
  Definition approx_derivative (fw : P -> pst -> M ev (F * pst)) (stencil : P -> list P) (fdest : P -> F -> list F -> res G)
                               (x : P) (f0 : F) (t : pst) : M ev (G * pst) :=
    '(vs, t1) <- map_stencil fw (stencil x) t ;;
    match fdest x f0 vs with Ok g => ret (g, t1) | Raise e => raise e | OutOfFuel => (OutOfFuel, []) end.

  (* the abstraction to the memo cell of Model/SF.v: a value counts only while its flag is set *)
  Definition abs (t : pst) : SF.st P F G S :=
    SF.mk P F G S (px t) (if f_updated t then pf t else None) (if g_updated t then pg t else None) (pnfev t) (pngev t) (pscale t).
  Definition inv (t : pst) : Prop := (f_updated t = true -> pf t <> None) /\ (g_updated t = true -> pg t <> None).
End SFPy.
Arguments px {P F G S}. Arguments pf {P F G S}. Arguments pg {P F G S}. Arguments f_updated {P F G S}. Arguments g_updated {P F G S}.
Arguments pnfev {P F G S}. Arguments pngev {P F G S}. Arguments pscale {P F G S}.
Arguments set_x {P F G S}. Arguments set_f {P F G S}. Arguments set_g {P F G S}. Arguments set_f_updated {P F G S}. Arguments set_g_updated {P F G S}.
Arguments set_nfev {P F G S}. Arguments set_ngev {P F G S}. Arguments set_scaling_factor {P F G S}.
Arguments get_f {P F G S}. Arguments get_g {P F G S}. Arguments approx_derivative {P F G S}. Arguments map_stencil {P F G S}.
Arguments abs {P F G S}. Arguments inv {P F G S}.
