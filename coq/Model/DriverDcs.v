(* The line-search routine of the driver model instantiated by the model of SciPy's DCSRCH (Model/Dcsrch.v). *)
From Coq Require Import List Bool Floats.PrimFloat.
From LBFGSB Require Import Model.Driver Model.Dcsrch.
Import ListNotations.

Definition conv_task (t : Dcsrch.task_out) : Driver.task :=
  match t with
  | Dcsrch.TFG => Driver.TFG
  | Dcsrch.TConv => Driver.TConv
  | Dcsrch.TWarn _ => Driver.TWarn
  | Dcsrch.TErr _ => Driver.TErr
  end.

(* the [dcs] field of a kernel that runs the DCSRCH model on the history of (step, value, slope) triples fed so far *)
Definition dcs_model (sq : float -> float) (q : float * float * float * float) (h : list (float * float * float)) : float * Driver.task :=
  let r := run_dcsrch sq q h in (fst r, conv_task (snd r)).

