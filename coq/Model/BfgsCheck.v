(* BfgsCheck.v -- executable checker used by the generated correspondence files
   (cases/C10mat_cases_*.v, written by corr_bfgs.py).  Definitions only.

   One case = the state after one call of the real update_lbfgs_matrices: the deques X, G
   (exact dyadic rationals) and what the implementation holds at that moment, converted
   exactly from binary64 to Q: theta, the columns of W, the matrix M whose j-th column is
   bmv(invMfactors, e_j), and the use_factor flag.  The model recomputes everything from X, G.

   Result: a bit mask (0 = agreement).
      1  theta (model) vs mats.theta                       tolerance
      2  W (model) vs mats.W                                shape + tolerance
      4  exact inverse of the model's Minv not found, or Minv * M <> I exactly
      8  M (exact inverse of the model's Minv) vs bmv columns    shape + tolerance
     16  compact_B theta W M = dense_bfgs theta pairs, EXACTLY in Q (meq_bool), M the exact
         inverse.  This is an evaluation (a test of the executable path including qinv); the
         corresponding theorems are BfgsProofs.compact_eq_dense_m1 (one pair) and
         BfgsGeneral.compact_eq_dense (any number of pairs)
     32  use_factor flag differs from (at least one stored pair)
     64  theta_f I - W_f M_f W_f^T (implementation's numbers, as rationals) vs the model's
         dense BFGS matrix of the stored pairs      tolerance
    128  Minv (model) * M_f vs I, absolute tolerance 1e-9 * (1 + max |Minv| * max |M_f|)
   tolerance: |a - b| <= tol * (1 + |b|), b the model value, tol = 1e-9. *)
From Coq Require Import QArith Qabs List Bool Arith ZArith.
Import ListNotations.
From LBFGSB Require Import Model.Bfgs.
Open Scope Q_scope.

Definition close (tol a b : Q) : bool :=
  Qle_bool (Qabs (Qred (a - b))) (tol * (1 + Qabs b)).

Fixpoint vclose (tol : Q) (u v : vec) : bool :=
  match u, v with
  | [], [] => true
  | a :: u', b :: v' => close tol a b && vclose tol u' v'
  | _, _ => false
  end.

Fixpoint mclose (tol : Q) (A B : mat) : bool :=
  match A, B with
  | [], [] => true
  | r :: A', q :: B' => vclose tol r q && mclose tol A' B'
  | _, _ => false
  end.

Definition vmaxabs (u : vec) : Q := fold_left (fun m a => if Qle_bool (Qabs a) m then m else Qabs a) u 0.
Definition mmaxabs (A : mat) : Q := fold_left (fun m r => let x := vmaxabs r in if Qle_bool x m then m else x) A 0.

Fixpoint vclose_abs (tol : Q) (u v : vec) : bool :=
  match u, v with
  | [], [] => true
  | a :: u', b :: v' => Qle_bool (Qabs (Qred (a - b))) tol && vclose_abs tol u' v'
  | _, _ => false
  end.
Fixpoint mclose_abs (tol : Q) (A B : mat) : bool :=
  match A, B with
  | [], [] => true
  | r :: A', q :: B' => vclose_abs tol r q && mclose_abs tol A' B'
  | _, _ => false
  end.

Record case : Type := {
  k_n : nat;
  k_X : list vec;
  k_G : list vec;
  k_theta : Q;
  k_W : list vec;     (* columns of mats.W *)
  k_M : mat;          (* rows of the matrix whose columns are bmv(invMfactors, e_j) *)
  k_use_factor : bool;
  k_exact : bool      (* run the exact inverse / exact compact = dense part *)
}.

Definition tol9 : Q := 1 # 1000000000.

Definition bit (b : bool) (w : Z) : Z := if b then 0%Z else w.

Definition check (k : case) : Z :=
  let n := k_n k in
  let C := compact (k_X k) (k_G k) in
  let ps := pairs (k_X k) (k_G k) in
  let m := length ps in
  let has := negb (Nat.eqb m 0) in
  let dense := dense_bfgs n (c_theta C) ps in
  let b1 := close tol9 (k_theta k) (c_theta C) in
  let b2 := if has then mclose tol9 (k_W k) (nm (c_W C)) else true in
  let b32 := Bool.eqb (k_use_factor k) has in
  let b64 := if has then mclose tol9 (compact_B n (k_theta k) (k_W k) (k_M k)) dense else true in
  let b128 :=
    if has then
      let bound := tol9 * (1 + mmaxabs (c_Minv C) * mmaxabs (k_M k)) in
      mclose_abs bound (nm (mmul (c_Minv C) (k_M k))) (sid (2 * m) 1)
    else true in
  let exact_part :=
    if has && k_exact k then
      match qinv (c_Minv C) with
      | None => 4%Z
      | Some M =>
        (bit (meq_bool (nm (mmul (c_Minv C) M)) (sid (2 * m) 1)) 4
         + bit (mclose tol9 (k_M k) M) 8
         + bit (meq_bool (compact_B n (c_theta C) (c_W C) M) dense) 16)%Z
      end
    else
      (* no pair: B = theta I with the initial theta = 1 on both sides *)
      bit (meq_bool (compact_B n (c_theta C) (c_W C) []) dense || has) 16 in
  (bit b1 1 + bit b2 2 + exact_part + bit b32 32 + bit b64 64 + bit b128 128)%Z.
