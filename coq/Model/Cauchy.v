(* ================================================================================================
   Cauchy.v -- executable model over exact rationals of lbfgsb.cauchy.get_cauchy_point
   (cauchy.py:147-301).  Hand written; NO proofs in this file (see CauchyProofs.v).

   Conventions
   * vectors are functions [nat -> Q]; the list-level entry point [gcp_list] converts.
     [tab k f] memoises the first k values of f in a list (so that evaluation under vm_compute
     stays polynomial); [tab k f i = f i] for i < k.
   * extended numbers (breakpoints t_i, the value t_cur, bounds) are [option Q]:
       - a breakpoint / t_cur [None] is +infinity,
       - a lower bound [None] is -infinity, an upper bound [None] is +infinity.
   * the middle matrix M (B = theta I - W M W^T; in Python [bmv(invMfactors, v)] computes M v) is an
     INPUT, given as M = Mn / Md (matrix of numerators, one common denominator; Md = 1 for a plain
     matrix -- the split only keeps the exact arithmetic cheap); "no memory" (use_factor = False) is  W = n x 1 zeros, M = [[0]], use_factor = false,
     exactly the shape the Python object LBFGSB_MATRICES(n) has before the first update.
   * every division is guarded: a zero f'' gives [Err] (in Python: inf/nan).
   * the final move is  is_moving = d != 0; x_cp[is_moving] = clip(x + t_old*d)[is_moving]
     (cauchy.py:293-294, after the repair of the tied-breakpoint defect: the former mask
     t >= t_cur put a variable fixed by the loop back to x_i when the loop exited on a breakpoint
     tied with it; the witness is kept as a regression case in corr_cauchy.py).
   ================================================================================================ *)
From Coq Require Import QArith Qabs List Bool Arith ZArith.
Import ListNotations.
Open Scope Q_scope.

(* ---------------------------------------------------------------- scalars *)
Definition Qltb (a b : Q) : bool := negb (Qle_bool b a).

Definition EQ := option Q.          (* None = +infinity *)
Definition ele (a b : EQ) : bool :=   (* a <= b *)
  match b with
  | None => true
  | Some v => match a with None => false | Some u => Qle_bool u v end
  end.
Definition elt (a b : EQ) : bool := negb (ele b a).   (* a < b *)

(* Python's max(a, b): returns a unless b > a *)
Definition qmaxpy (a b : Q) : Q := if Qltb a b then b else a.

(* np.clip(v, lo, hi) = minimum(maximum(v, lo), hi);  lo None = -inf, hi None = +inf *)
Definition clip (v : Q) (lo hi : option Q) : Q :=
  let v1 := match lo with Some l => if Qltb v l then l else v | None => v end in
  match hi with Some u => if Qltb u v1 then u else v1 | None => v1 end.

(* relative margin of a comparison a ? b *)
Definition relm (a b : Q) : Q := Qred (Qabs (a - b) / (1 + Qabs a + Qabs b)).
Definition qmin (a b : Q) : Q := if Qltb b a then b else a.

(* ---------------------------------------------------------------- vectors *)
Fixpoint sumn (k : nat) (f : nat -> Q) : Q :=
  match k with O => 0 | S k' => Qred (sumn k' f + f k') end.

(* same sum without intermediate reduction (used on integer-valued terms) *)
Fixpoint sumraw (k : nat) (f : nat -> Q) : Q :=
  match k with O => 0 | S k' => sumraw k' f + f k' end.

(* a common denominator of f 0 .. f (k-1) *)
Fixpoint cden (k : nat) (f : nat -> Q) : positive :=
  match k with O => 1%positive | S k' => Z.to_pos (Z.lcm (Zpos (cden k' f)) (Zpos (Qden (Qred (f k'))))) end.

Definition tab (k : nat) (f : nat -> Q) : nat -> Q :=
  let l := map f (seq 0 k) in fun i => nth i l 0.

Definition upd (f : nat -> Q) (b : nat) (v : Q) : nat -> Q :=
  fun i => if Nat.eqb i b then v else f i.

Record state := mkst {
  s_xcp : nat -> Q;  s_d : nat -> Q;  s_p : nat -> Q;  s_c : nat -> Q;
  s_f1 : Q;  s_f2 : Q;  s_dtm : Q;  s_told : Q;
  s_nseg : nat;  s_fixed : list nat;  s_mg : Q }.

Inductive result :=
| Err : nat -> result
| Ok : (nat -> Q) -> (nat -> Q) -> list nat -> Q -> nat -> Q -> result.
        (* x_cp, c, fixed indices in order, t* (final t_old), nseg, smallest margin *)

Section GCP.
Variables (n m2 : nat).                      (* number of variables, number of columns of W (2m) *)
Variables (x g : nat -> Q) (lb ub : nat -> option Q).
Variable theta : Q.
Variable W : nat -> nat -> Q.                (* W i j : row i (variable), column j *)
Variable Mn : nat -> nat -> Q.               (* m2 x m2 middle matrix M = Mn / Md: numerators ... *)
Variable Md : Q.                             (* ... and a common denominator (1 for a plain matrix) *)
Variable use_factor : bool.
Variable eps : Q.                            (* eps_f_sec *)

(* cauchy.py:155-160   t[mask] = where(g<0, (x-ub)/g, (x-lb)/g); t[g==0] = inf *)
Definition bp (i : nat) : EQ :=
  if Qeq_bool (g i) 0 then None
  else if Qltb (g i) 0
       then match ub i with Some u => Some (Qred ((x i - u) / g i)) | None => None end
       else match lb i with Some l => Some (Qred ((x i - l) / g i)) | None => None end.

(* cauchy.py:163   d = where(t == 0, 0.0, -grad) *)
Definition d0 (i : nat) : Q :=
  match bp i with
  | Some t => if Qeq_bool t 0 then 0 else - g i
  | None => - g i
  end.

(* cauchy.py:169-170  stable argsort by t, then keep t > 0 (in sorted order) *)
Fixpoint insert (a : nat) (l : list nat) : list nat :=
  match l with
  | [] => [a]
  | y :: l' => if elt (bp y) (bp a) then y :: insert a l' else a :: l
  end.
Definition isort (l : list nat) : list nat := fold_right insert [] l.
Definition tpos (i : nat) : bool := elt (Some 0) (bp i).
Definition sorted_idx : list nat := filter tpos (isort (seq 0 n)).

(* middle-matrix product and dot product on the 2m side *)
(* (M v)_j = sum_k Mn j k * v k / Md.  v is first brought to a common denominator vd so that, when Mn is
   a matrix of integers, the inner sums run on integers and one reduction per row suffices. *)
Definition Mv (v : nat -> Q) : nat -> Q :=
  let vd := Zpos (cden m2 v) # 1 in
  let vn := tab m2 (fun k => Qred (v k * vd)) in
  tab m2 (fun j => Qred (sumraw m2 (fun k => Mn j k * vn k) / (Md * vd))).
Definition dotm (u v : nat -> Q) : Q := sumn m2 (fun j => u j * v j).

(* cauchy.py:173-193 *)
Definition p0 : nat -> Q := tab m2 (fun j => sumn n (fun i => W i j * d0 i)).
Definition f1_0 : Q := Qred (- sumn n (fun i => d0 i * d0 i)).
Definition f2org : Q := Qred (- theta * f1_0).
Definition f2_0 : Q := if use_factor then Qred (f2org - dotm p0 (Mv p0)) else f2org.

(* cauchy.py:232-235 *)
Definition pin (xcp d : nat -> Q) (b : nat) : Q :=
  if Qltb 0 (d b) then match ub b with Some u => u | None => xcp b end
  else if Qltb (d b) 0 then match lb b with Some l => l | None => xcp b end
  else xcp b.

(* one pass through the loop body after the exit test failed, cauchy.py:231-279.
   The pieces take the values they share (dt, xb, c') as arguments so that [step] computes each once. *)
Definition step_dt (st : state) (tc : Q) : Q := Qred (tc - s_told st).
Definition step_xb (st : state) (b : nat) : Q := pin (s_xcp st) (s_d st) b.
Definition step_xcp (st : state) (b : nat) (xb : Q) : nat -> Q := tab n (upd (s_xcp st) b xb).
Definition step_c (st : state) (dt : Q) : nat -> Q :=
  tab m2 (fun j => Qred (s_c st j + dt * s_p st j)).
Definition step_f1 (st : state) (b : nat) (dt xb : Q) (c' : nat -> Q) : Q :=
  let gb := g b in
  let zb := xb - x b in
  let f1a := s_f1 st + dt * s_f2 st + gb * (gb + theta * zb) in
  Qred (if use_factor then f1a - gb * dotm (W b) (Mv c') else f1a).
Definition step_f2raw (st : state) (b : nat) : Q :=
  let gb := g b in
  let f2a := s_f2 st - gb * gb * theta in
  Qred (if use_factor
        then f2a - gb * dotm (W b) (Mv (fun j => 2 * s_p st j + gb * W b j))
        else f2a).
Definition step_p (st : state) (b : nat) : nat -> Q :=
  tab m2 (fun j => Qred (s_p st j + g b * W b j)).
Definition step_d (st : state) (b : nat) : nat -> Q := tab n (upd (s_d st) b 0).
Definition step_mg (st : state) (dt f1 f2r : Q) : Q :=
  let m1 := qmin (s_mg st) (relm (s_dtm st) dt) in
  if Qeq_bool f1 0 && Qeq_bool f2r 0 then m1 else qmin m1 (relm f2r (eps * f2org)).

Definition step (st : state) (b : nat) (tc : Q) : option state :=
  let dt := step_dt st tc in
  let xb := step_xb st b in
  let c' := step_c st dt in
  let f1 := step_f1 st b dt xb c' in
  let f2r := step_f2raw st b in
  let f2 := qmaxpy f2r (eps * f2org) in          (* cauchy.py:262 *)
  if Qeq_bool f2 0 then None
  else Some (mkst (step_xcp st b xb) (step_d st b) (step_p st b) c' f1 f2 (Qred (- f1 / f2))
                  tc (S (s_nseg st)) (s_fixed st ++ [b]) (step_mg st dt f1 f2r)).

(* cauchy.py:288-293 *)
Definition fin_dtm (st : state) : Q := if Qltb (s_dtm st) 0 then 0 else s_dtm st.
Definition fin_ts (st : state) : Q := Qred (s_told st + fin_dtm st).
Definition fin_mask (st : state) (i : nat) : bool := negb (Qeq_bool (s_d st i) 0).   (* d != 0 *)
Definition fin_xcp (st : state) (ts : Q) : nat -> Q :=
  tab n (fun i => if fin_mask st i
                  then clip (x i + ts * s_d st i) (lb i) (ub i)
                  else s_xcp st i).
Definition fin_c (st : state) (dtm' : Q) : nat -> Q :=
  tab m2 (fun j => Qred (s_c st j + dtm' * s_p st j)).
Definition finish (st : state) : result :=
  let ts := fin_ts st in
  Ok (fin_xcp st ts) (fin_c st (fin_dtm st)) (s_fixed st) ts (s_nseg st) (s_mg st).

(* the while loop, cauchy.py:222-279, as structural recursion on the remaining sorted indices;
   the head of [rest] is ibp, its breakpoint is t_cur *)
Fixpoint loop (rest : list nat) (st : state) : result :=
  match rest with
  | [] => finish st                                       (* t_cur = inf after IndexError *)
  | b :: rest' =>
      match bp b with
      | None => finish st                                 (* delta_t = inf: dtm < delta_t *)
      | Some tc =>
          if Qltb (s_dtm st) (step_dt st tc)
          then finish (mkst (s_xcp st) (s_d st) (s_p st) (s_c st) (s_f1 st) (s_f2 st) (s_dtm st)
                            (s_told st) (s_nseg st) (s_fixed st)
                            (qmin (s_mg st) (relm (s_dtm st) (step_dt st tc))))
               (* same state, the margin of the exit test recorded *)
          else match step st b tc with
               | None => Err 2
               | Some st' => loop rest' st'
               end
      end
  end.

(* smallest relative gap between two distinct finite positive breakpoints *)
Definition pair_margin : Q :=
  fold_right (fun i acc =>
    fold_right (fun j acc' =>
      match bp i, bp j with
      | Some ti, Some tj =>
          if Nat.ltb i j && Qltb 0 ti && Qltb 0 tj && negb (Qeq_bool ti tj)
          then qmin acc' (relm ti tj) else acc'
      | _, _ => acc'
      end) acc (seq 0 n)) 1 (seq 0 n).

Definition st0 (f1 f2 : Q) : state :=
  mkst x d0 p0 (fun _ => 0) f1 f2 (Qred (- f1 / f2)) 0 1%nat [] pair_margin.

Definition gcp : result :=
  match sorted_idx with
  | [] => Ok x (fun _ => 0) [] 0 0%nat 1            (* nbreak == 0: return x, c = 0 *)
  | _ => let f2 := f2_0 in
         if Qeq_bool f2 0 then Err 1 else loop sorted_idx (st0 f1_0 f2)
  end.

End GCP.

(* ---------------------------------------------------------------- list-level entry point *)
Definition nthQ (l : list Q) (i : nat) : Q := nth i l 0.
Definition ntho (l : list (option Q)) (i : nat) : option Q := nth i l None.
Definition mat (A : list (list Q)) (i j : nat) : Q := nth j (nth i A []) 0.

Record output := mkout {
  o_ok : bool;  o_xcp : list Q;  o_c : list Q;  o_fixed : list nat;
  o_tstar : Q;  o_nseg : nat;  o_margin : Q }.

Definition gcp_list (x g : list Q) (lb ub : list (option Q)) (theta : Q)
           (W Mn : list (list Q)) (Md : Q) (use_factor : bool) (eps : Q) : output :=
  let n := length x in
  let m2 := length Mn in
  match gcp n m2 (nthQ x) (nthQ g) (ntho lb) (ntho ub) theta (mat W) (mat Mn) Md use_factor eps with
  | Err _ => mkout false [] [] [] 0 0 0
  | Ok xcp c fx ts ns mg =>
      mkout true (map (fun i => Qred (xcp i)) (seq 0 n)) (map c (seq 0 m2)) fx ts ns mg
  end.

(* ---------------------------------------------------------------- memory matrices from (S, Y)
   bfgsmats.py:262-283:  W = [Y, theta S];  M^-1 = [[-D, L^T],[L, theta S^T S]]  with
   S^T Y = L + D + (strict upper).   S, Y are given as n rows of length m. *)
Definition build_W (S Y : list (list Q)) (theta : Q) : list (list Q) :=
  map (fun sy : list Q * list Q => snd sy ++ map (fun v => Qred (theta * v)) (fst sy)) (combine S Y).

Definition colsum (A B : list (list Q)) (n a b : nat) : Q :=   (* (A^T B)[a][b] *)
  sumn n (fun i => mat A i a * mat B i b).

Definition build_Minv (S Y : list (list Q)) (theta : Q) (m : nat) : list (list Q) :=
  let n := length S in
  map (fun a =>
    map (fun b =>
      if Nat.ltb a m then
        if Nat.ltb b m then (if Nat.eqb a b then Qred (- colsum S Y n a a) else 0)      (* -D *)
        else (let b' := (b - m)%nat in if Nat.ltb a b' then colsum S Y n b' a else 0)  (* L^T *)
      else
        let a' := (a - m)%nat in
        if Nat.ltb b m then (if Nat.ltb b a' then colsum S Y n a' b else 0)             (* L *)
        else Qred (theta * colsum S S n a' (b - m)%nat))                               (* theta S^T S *)
      (seq 0 (2 * m))) (seq 0 (2 * m)).

(* (Mn / Md) * Minv == I, entry by entry, i.e. Mn * Minv == Md * I *)
Definition is_inverse (Mn : list (list Q)) (Md : Q) (Minv : list (list Q)) : bool :=
  let k := length Minv in
  Nat.eqb (length Mn) k && negb (Qeq_bool Md 0) &&
  forallb (fun a => forallb (fun b =>
     Qeq_bool (sumn k (fun l => mat Mn a l * mat Minv l b)) (if Nat.eqb a b then Md else 0))
     (seq 0 k)) (seq 0 k).

(* theta = y^T y / s^T y of the newest pair (last column), bfgsmats.py:255-259 *)
Definition theta_of (S Y : list (list Q)) (m : nat) : Q :=
  let n := length S in
  Qred (colsum Y Y n (m - 1) (m - 1) / colsum S Y n (m - 1) (m - 1)).
