(* binary64 vectors as lists of primitive floats, with the element-wise operations of NumPy that the
   driver performs, written one IEEE operation at a time (bit-exact w.r.t. the implementation). *)
From Coq Require Import List ZArith Bool Floats.PrimFloat.
Import ListNotations.

Definition vec := list float.
Definition fone : float := 1%float.
Definition fzero : float := 0%float.

(* np.clip element (numpy/core/src/umath/clip.cpp): max then min, NaN of the first argument propagates *)
Definition fclip (x lo hi : float) : float :=
  let m := if is_nan x then x else if ltb lo x then x else lo in
  if is_nan m then m else if ltb m hi then m else hi.

Fixpoint vclip (v lb ub : vec) : vec :=
  match v, lb, ub with
  | x :: v', l :: lb', u :: ub' => fclip x l u :: vclip v' lb' ub'
  | _, _, _ => []
  end.

Fixpoint vmap2 (f : float -> float -> float) (a b : vec) : vec :=
  match a, b with
  | x :: a', y :: b' => f x y :: vmap2 f a' b'
  | _, _ => []
  end.

Definition vsub (a b : vec) : vec := vmap2 sub a b.
Definition vadd (a b : vec) : vec := vmap2 add a b.
Definition vscale (a : vec) (s : float) : vec := map (fun x => mul x s) a.
(* x + a * d : the product is rounded, then the sum *)
Definition vaxpy (x : vec) (a : float) (d : vec) : vec := vmap2 (fun xi di => add xi (mul a di)) x d.
Definition vzeros (x : vec) : vec := map (fun _ => fzero) x.

(* np.array_equal on float64 vectors of the same dtype: same length and IEEE == element-wise (NaN <> NaN, -0 == +0) *)
Fixpoint veqb (a b : vec) : bool :=
  match a, b with
  | [], [] => true
  | x :: a', y :: b' => eqb x y && veqb a' b'
  | _, _ => false
  end.

(* np.max of non-negative-or-NaN values: NaN propagates *)
Definition nanprop_max (acc a : float) : float :=
  if is_nan acc then acc else if is_nan a then a else if ltb acc a then a else acc.
Definition vmax (v : vec) : float := match v with [] => fzero | x :: r => fold_left nanprop_max r x end.

(* base.py projgr: np.max(np.abs(np.clip(x - grad, lb, ub) - x)) *)
Definition projgr (x g lb ub : vec) : float := vmax (map abs (vsub (vclip (vsub x g) lb ub) x)).

(* Python's builtin min(a, b) / max(a, b): the first argument unless the second compares smaller / greater *)
Definition pymin (a b : float) : float := if ltb b a then b else a.
Definition pymax (a b : float) : float := if ltb a b then b else a.

Definition is_finite (x : float) : bool := negb (is_nan x) && negb (is_infinity x).

(* linesearch.py max_allowed_steplength for n_iter > 0 *)
Fixpoint step_ratios (x d lb ub : vec) : vec :=
  match x, d, lb, ub with
  | xi :: x', di :: d', l :: lb', u :: ub' =>
      let r := step_ratios x' d' lb' ub' in
      if eqb di fzero then r
      else let t := if ltb fzero di then div (sub u xi) di else div (sub l xi) di in
           if is_finite t then t :: r else r
  | _, _, _, _ => []
  end.
Definition vmin (v : vec) (default : float) : float :=
  match v with [] => default | x :: r => fold_left (fun acc a => if ltb a acc then a else acc) r x end.
Definition maxstep (x d lb ub : vec) (cap : float) : float :=
  match step_ratios x d lb ub with
  | [] => cap
  | r => pymin cap (vmin r cap)
  end.

(* np.diff(np.array(X), axis=0): successive differences, newer minus older *)
Fixpoint diffs (X : list vec) : list vec :=
  match X with
  | a :: ((b :: _) as r) => vsub b a :: diffs r
  | _ => []
  end.

Definition any_inf (v : vec) : bool := existsb is_infinity v.

(* comparison used by the correspondence: IEEE equality, NaN equal to NaN *)
Definition fsame (a b : float) : bool := eqb a b || (is_nan a && is_nan b).
Fixpoint vsame (a b : vec) : bool :=
  match a, b with
  | [], [] => true
  | x :: a', y :: b' => fsame x y && vsame a' b'
  | _, _ => false
  end.
Fixpoint lsame {A} (f : A -> A -> bool) (a b : list A) : bool :=
  match a, b with
  | [], [] => true
  | x :: a', y :: b' => f x y && lsame f a' b'
  | _, _ => false
  end.
