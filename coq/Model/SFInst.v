(* Executable instance of the wrapper model used by the C15 correspondence: points are integers
   (1-D arrays holding an integer-valued float), values are integers, so products with the
   scaling factor are exact on both sides and the comparison is an equality. *)
From Coq Require Import List ZArith Bool Uint63.
From LBFGSB Require Import Base.Res Model.SF.
Import ListNotations.
Open Scope Z_scope.

Definition uf_i (p : Z) : res Z := Ok (7 * p * p + 3 * p + 1).
Definition ug_i (p : Z) : res Z := Ok (14 * p + 3).
Definition stencil_i (p : Z) : list Z := [p + 10; p + 20].
Definition fdest_i (p : Z) (v : Z) (vs : list Z) : res Z := Ok (fold_left Z.add vs (v + 1000 * p)).

Definition step_i (fdmode : bool) := SF.step Z Z Z Z Z.eqb Z.mul Z.mul uf_i ug_i stencil_i fdest_i fdmode.
Definition run_i (fdmode : bool) := SF.run Z Z Z Z Z.eqb Z.mul Z.mul uf_i ug_i stencil_i fdest_i fdmode.

(* digests are computed on primitive 63-bit integers (wrap-around arithmetic), mirrored in the harness *)
Definition mixi (h x : int) : int := (h * 1000003 + x + 12345)%uint63.
Definition mix (h : int) (x : Z) : int := mixi h (Uint63.of_Z x).

Definition dig_ans (h : int) (a : SF.ans Z Z) : int :=
  match a with
  | AFun _ _ v => mix (mix h 1) v
  | AGrad _ _ g => mix (mix h 2) g
  | ABoth _ _ v g => mix (mix (mix h 3) v) g
  | ANone _ _ => mix h 4
  end.
Definition dig_ev (h : int) (e : SF.ev Z Z Z) : int :=
  match e with
  | EvF _ _ _ p _ => mix (mix h 5) p
  | EvG _ _ _ p _ => mix (mix h 6) p
  end.

(* request codes: 0..8 = (op, point) with op = c / 3 in fun/grad/fun_and_grad, point = c mod 3 in {2, 5, 9};
   code 9+k = set the scaling factor to k+2 *)
Definition pt (c : Z) : Z := match c mod 3 with 0 => 2 | 1 => 5 | _ => 9 end.
Definition decode (c : Z) : SF.op Z Z :=
  if c <? 9 then match c / 3 with 0 => OFun _ _ (pt c) | 1 => OGrad _ _ (pt c) | _ => OBoth _ _ (pt c) end
  else OScale _ _ (c - 9 + 2).

Definition digest_hist (fdmode : bool) (h : list Z) : int :=
  match run_i fdmode (map decode h) (SF.init Z Z Z Z 2 1) with
  | (Ok (l, t), tr) => mix (mix (fold_left dig_ev tr (fold_left dig_ans l 17%uint63)) (nfev _ _ _ _ t)) (ngev _ _ _ _ t)
  | (_, _) => 0%uint63
  end.

Fixpoint all_hists (alphabet : list Z) (n : nat) : list (list Z) :=
  match n with
  | O => [[]]
  | S k => flat_map (fun h => map (fun c => c :: h) alphabet) (all_hists alphabet k)
  end.

Definition sum_digests (fdmode : bool) (hs : list (list Z)) : int :=
  fold_left (fun acc h => (acc + digest_hist fdmode h)%uint63) hs 0%uint63.

(* all histories of length |prefix| + n that start with the given prefix; printed as Z *)
Definition bucket (fdmode : bool) (alphabet : list Z) (prefix : list Z) (n : nat) : Z :=
  Uint63.to_Z (sum_digests fdmode (map (fun h => prefix ++ h) (all_hists alphabet n))).
