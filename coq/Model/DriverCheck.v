(* Executable support for the driver correspondence: oracles as association lists keyed on their
   arguments (compared bit-for-bit up to the sign of zero, NaN = NaN), and the comparison of the model's
   outcome and trace with the ones recorded from the implementation. *)
From Coq Require Import List ZArith Bool String Floats.PrimFloat.
From LBFGSB Require Model.Dcsrch Model.FCauchy Model.FSubspace Model.DriverKern.
From LBFGSB Require Import Base.Res Model.SF Model.FloatVec Model.Driver Model.DriverDcs.
Import ListNotations.
Open Scope Z_scope.

Definition miss {A} : res A := Raise ("ORACLE-MISS"%string, ""%string).

Fixpoint lookup {Kt A} (eq : Kt -> Kt -> bool) (k : Kt) (l : list (Kt * A)) (d : A) : A :=
  match l with
  | [] => d
  | (k', a) :: r => if eq k k' then a else lookup eq k r d
  end.

Definition lvsame := lsame vsame.
Definition triple_same (a b : float * float * float) : bool :=
  let '(a1, a2, a3) := a in let '(b1, b2, b3) := b in fsame a1 b1 && fsame a2 b2 && fsame a3 b3.

Definition mk_uf (t : list (vec * res float)) : vec -> res float := fun x => lookup vsame x t miss.
Definition mk_ug (t : list (vec * res vec)) : vec -> res vec := fun x => lookup vsame x t miss.
(* the recorded answer of the search kernel comes with the S, Y matrices the implementation held at that call: the model's
   [mats] (the history its matrices were built from) must describe exactly those, otherwise the lookup fails *)
Definition mats_agree (m : mats) (Sm Ym : list vec) : bool :=
  match m with
  | None => match Sm with [] => true | _ => false end
  | Some (X, G) => lsame vsame (diffs X) Sm && lsame vsame (diffs G) Ym
  end.
Definition mk_search (t : list ((vec * vec * Z) * (vec * list vec * list vec))) : vec -> vec -> mats -> Z -> vec :=
  fun x g m nit =>
    let '(xbar, Sm, Ym) := lookup (fun a b => let '(a1, a2, a3) := a in let '(b1, b2, b3) := b in vsame a1 b1 && vsame a2 b2 && (a3 =? b3)) (x, g, nit) t ([], [], []) in
    if mats_agree m Sm Ym then xbar else [].
Definition mk_dcs (t : list ((float * list (float * float * float)) * (float * task))) :
  float * float * float * float -> list (float * float * float) -> float * task :=
  fun par h => let '(_, _, _, stpmax) := par in
    lookup (fun a b => fsame (fst a) (fst b) && lsame triple_same (snd a) (snd b)) (stpmax, h) t (nan, TErr).
Definition mk_dot (t : list ((vec * vec) * float)) : vec -> vec -> float :=
  fun a b => lookup (fun p q => vsame (fst p) (fst q) && vsame (snd p) (snd q)) (a, b) t nan.
(* finite differences: stencil points and estimates recorded from SciPy's approx_derivative *)
Definition mk_sten (t : list (vec * list vec)) : vec -> list vec := fun x => lookup vsame x t [].
Definition mk_fdest (t : list ((vec * float) * res vec)) : vec -> float -> list float -> res vec :=
  fun x v _ => lookup (fun a b => vsame (fst a) (fst b) && fsame (snd a) (snd b)) (x, v) t miss.
Definition mk_cb (t : list (Z * res bool)) : result -> res bool := fun s => lookup Z.eqb (r_nit s) t miss.
Definition mk_upd (t : list ((vec * float) * res (float * float * vec * list vec))) :
  vec -> float -> float -> vec -> list vec -> list vec -> res (float * float * vec * list vec) :=
  fun x f0 _ _ _ _ => lookup (fun a b => vsame (fst a) (fst b) && fsame (snd a) (snd b)) (x, f0) t miss.

Definition msg_eqb (a b : msg) : bool :=
  match a, b with
  | MStart, MStart | MRestart, MRestart | MAbnormal, MAbnormal | MFtol, MFtol | MTarget, MTarget
  | MPgtol, MPgtol | MMaxiter, MMaxiter | MMaxfun, MMaxfun | MCallback, MCallback => true
  | _, _ => false
  end.

(* first differing field of two results: 0 = equal *)
Definition result_diff (a b : result) : Z :=
  if negb (vsame (r_x a) (r_x b)) then 1
  else if negb (fsame (r_fun a) (r_fun b)) then 2
  else if negb (vsame (r_jac a) (r_jac b)) then 3
  else if negb (r_nfev a =? r_nfev b) then 4
  else if negb (r_njev a =? r_njev b) then 5
  else if negb (r_nit a =? r_nit b) then 6
  else if negb (r_status a =? r_status b) then 7
  else if negb (msg_eqb (r_msg a) (r_msg b)) then 8
  else if negb (Bool.eqb (r_success a) (r_success b)) then 9
  else if negb (lvsame (r_sk a) (r_sk b)) then 10
  else if negb (lvsame (r_yk a) (r_yk b)) then 11
  else 0.

Definition exn_eqb (a b : exn) : bool := String.eqb (fst a) (fst b) && String.eqb (snd a) (snd b).
Definition res_same {A} (f : A -> A -> bool) (a b : res A) : bool :=
  match a, b with
  | Ok x, Ok y => f x y
  | Raise e, Raise e' => exn_eqb e e'
  | _, _ => false
  end.

Definition ev_same (a b : ev) : bool :=
  match a, b with
  | EvF x r, EvF y s => vsame x y && res_same fsame r s
  | EvG x r, EvG y s => vsame x y && res_same vsame r s
  | EvFt r, EvFt s => res_same fsame r s
  | EvGt r, EvGt s => res_same fsame r s
  | EvScaler x g l u r, EvScaler x' g' l' u' s => vsame x x' && vsame g g' && vsame l l' && vsame u u' && res_same fsame r s
  | EvUpd x f0 fo g X G r, EvUpd x' f0' fo' g' X' G' s =>
      vsame x x' && fsame f0 f0' && fsame fo fo' && vsame g g' && lvsame X X' && lvsame G G'
  | EvCb s1 r, EvCb s2 r' => (result_diff s1 s2 =? 0) && res_same Bool.eqb r r'
  | _, _ => false
  end.

Fixpoint first_diff (i : Z) (a b : list ev) : Z :=
  match a, b with
  | [], [] => 0
  | x :: a', y :: b' => if ev_same x y then first_diff (i + 1) a' b' else 1000 + i
  | _, _ => 1000 + i
  end.

(* 0 = the model reproduces the recorded run; 1..11 = first differing result field; 1000+i = first differing
   event; 20 = outcome kinds differ (value / exception); 21 = different exception; 30 = out of fuel *)
Definition check_run (U : user) (K : kern) (c : cfg) (expected : res result) (trace : list ev) : Z :=
  let '(r, tr) := run U K c in
  let d := first_diff 0 tr trace in
  if negb (d =? 0) then d
  else match r, expected with
       | Ok a, Ok b => result_diff a b
       | Raise e, Raise e' => if exn_eqb e e' then 0 else 21
       | OutOfFuel, _ => 30
       | _, _ => 20
       end.

(* ---- the line-search routine: recorded answers of the real DCSRCH against the DCSRCH model.
   [pw] = the values the C library's pow(x, 2.0) returned inside dcstep during the run (recorded by a traced replay). *)
Definition task_eqb (a b : Driver.task) : bool :=
  match a, b with
  | Driver.TFG, Driver.TFG | Driver.TConv, Driver.TConv | Driver.TWarn, Driver.TWarn | Driver.TErr, Driver.TErr => true
  | _, _ => false
  end.
Definition dcs_conforms (sq : float -> float) (c : cfg)
    (t : list ((float * list (float * float * float)) * (float * Driver.task))) : bool :=
  forallb (fun e => let '((mx, h), (stp, tk)) := e in
                    let r := dcs_model sq (ftol_ls c, gtol_ls c, xtol_ls c, mx) h in
                    FloatVec.fsame (fst r) stp && task_eqb (snd r) tk) t.
(* as [check_run], with the DCSRCH model in place of the recorded answers; 40 = the real routine answered differently *)
Definition check_run_dcs (pw : list (float * float))
    (t : list ((float * list (float * float * float)) * (float * Driver.task)))
    (U : user) (search : vec -> vec -> mats -> Z -> vec) (dot : vec -> vec -> float) (c : cfg)
    (expected : res result) (trace : list ev) : Z :=
  if dcs_conforms (Dcsrch.sq_table pw) c t then check_run U (mkkern search (dcs_model (Dcsrch.sq_table pw)) dot) c expected trace else 40.

(* as [check_run_dcs], with in addition the Cauchy-point + subspace kernel computed by the binary64 kernel models
   (Model/DriverKern.v) from the model's own memory, the linear-algebra answers of every iteration being those recorded from
   AST-instrumented copies of the current source of get_cauchy_point / subspace_minimization *)
Definition check_run_kern (pw : list (float * float))
    (t : list ((float * list (float * float * float)) * (float * Driver.task)))
    (U : user) (B : DriverKern.blas) (dot : vec -> vec -> float) (c : cfg)
    (expected : res result) (trace : list ev) : Z :=
  if dcs_conforms (Dcsrch.sq_table pw) c t
  then check_run U (DriverKern.kern_model B (dcs_model (Dcsrch.sq_table pw)) dot c) c expected trace else 40.
