(* ================================================================================================
   FSubspace.v -- BIT-EXACT model over binary64 (Coq primitive floats) of
   lbfgsb.subspacemin.get_freev (the free set) and lbfgsb.subspacemin.subspace_minimization.
   Definitions only; the proofs are in Proofs/FSubspaceProofs.v, the correspondence harness is
   corr_fsubspace.py.

   One IEEE-754 binary64 operation per Python/NumPy scalar or element-wise operation, in the evaluation
   order of the source, with the comparisons of the source (NaN compares false / unequal, -0.0 == 0.0).

   ORACLES.  Everything between `WTZ = ...` and the vector `np.transpose(WTZ).dot(v)` is dense linear algebra
   (dgemm / dgemv, Cholesky, triangular solves, np.linalg.solve) whose rounding is not "one IEEE operation at a
   time".  Two expressions are parameters of the model:

     o_Wc   c            : vec    mats.W.dot(bmv(mats.invMfactors, c))      n-vector, only when mats.use_factor
     o_corr free rHat    : vec    np.transpose(WTZ).dot(v)                   t-vector (t = number of free variables):
                                  the reduced Newton correction; v is obtained from WTZ.dot(rHat) through the
                                  LEL^T factor of K (use_factor) or np.linalg.solve (first iteration); it depends on
                                  the free set (through Z, A), on rHat and on the matrices, which are fixed in a call

   SOURCE (subspacemin.py)                                              MODEL
     free_vars = ((x_cp != ub) & (x_cp != lb)).nonzero()[0]             ffree   (a mask; findices gives the indices)
     invThet = 1.0 / mats.theta                                         div 1 theta
     if len(free_vars) == 0: return xc                                  has_free = false: xbar = xc (the same object)
     r = grad + mats.theta * (xc - x)                                   rvec0
     if mats.use_factor: r -= mats.W.dot(bmv(mats.invMfactors, c))      vip sub . (o_Wc O c)    (in place: shape of r)
     rHat = [r[ind] for ind in free_vars]                               gather free r
     dHat = -invThet * (rHat + invThet * np.transpose(WTZ).dot(v))      dhat: mul (opp invThet) (add rh (mul invThet o))
                                                                        (-invThet is a negation, then a product;
                                                                         list + ndarray is the element-wise sum)
     mask = dHat != 0                                                   negb (eqb d 0): a NaN component is in the mask
     np.where(dHat[mask] > 0, (ub - xc)[free_vars][mask],
              (lb - xc)[free_vars][mask]) / dHat[mask]                  cands   (NaN d: not > 0, (lb - xc) / NaN = NaN)
     np.nanmin(.) if dHat[mask].size != 0 else 1.0                      nanmin: np.fmin.reduce (NaN ignored, all NaN gives
                                                                        NaN and a RuntimeWarning), np.nanmin(1.0) = 1.0
     alpha_star = min(1.0, .)                                           pymin 1 . (Python: the first argument unless the
                                                                        second compares smaller; min(1.0, nan) = 1.0)
     alpha_star * Z @ dHat                                              scatter: Python parses (alpha_star * Z) @ dHat.
        alpha_star * Z is the CSC matrix with data 1.0 * alpha_star; the product is scipy.sparse csc_matvec:
        y = zeros(n); y[row] += data * dHat[col].  A free row is  0.0 + (1.0 * alpha_star) * dHat_j  (so -0.0 becomes
        +0.0, NaN / inf propagate), a row without stored entry (variable not free) is +0.0 whatever alpha_star is.
     np.clip(xc + ., lb, ub)                                            vclip (vadd xc .) lb ub

   SIGN OF A ZERO alpha_star.  np.fmin.reduce is vectorised: for 9 or more candidates the sign of a zero minimum
   depends on the lane order (observed: nanmin([0, 0, -0, 0, 0, 0, 0, 0, 0]) = -0.0 while the sequential reduction
   gives +0.0).  The model reduces from the left (the scalar loop of NumPy: fmin(a, b) = a if a <= b or isnan(b) else b),
   so its alpha_star is IEEE-equal (eqb) to NumPy's, with the same bits except possibly the sign of a zero; xbar does
   not depend on that sign (FSubspaceProofs.fsub_alpha_zero_sign) and is compared bit for bit.

   SHAPES.  On well-shaped inputs (all vectors of length n, oracle answers of length n and t) nothing is truncated.
   In-place and broadcasting operations keep the shape of the left operand ([vip]); the clip truncates to the
   shortest of its arguments, as FloatVec.vclip does.
   ================================================================================================ *)
From Coq Require Import List Bool Arith Floats.PrimFloat.
From LBFGSB Require Import Model.FloatVec Model.FCauchy.
Import ListNotations.
Local Open Scope float_scope.

Record sub_oracles := mkSO {
  o_Wc   : vec -> vec;
  o_corr : list bool -> vec -> vec }.

(* ---------------------------------------------------------------------------------------------- *)
(* get_freev                                                                                       *)
(* ---------------------------------------------------------------------------------------------- *)
(* (x_cp != ub) & (x_cp != lb) *)
Definition is_free (xc l u : float) : bool := negb (eqb xc u) && negb (eqb xc l).

Fixpoint ffree (xc lb ub : vec) : list bool :=
  match xc, lb, ub with
  | x :: xc', l :: lb', u :: ub' => is_free x l u :: ffree xc' lb' ub'
  | _, _, _ => []
  end.

(* .nonzero()[0] *)
Fixpoint indices_from (k : nat) (m : list bool) : list nat :=
  match m with
  | [] => []
  | b :: m' => if b then k :: indices_from (S k) m' else indices_from (S k) m'
  end.
Definition findices (xc lb ub : vec) : list nat := indices_from 0 (ffree xc lb ub).

(* len(free_vars) != 0 *)
Definition has_free (m : list bool) : bool := existsb (fun b => b) m.

(* ---------------------------------------------------------------------------------------------- *)
(* NumPy / SciPy primitives                                                                        *)
(* ---------------------------------------------------------------------------------------------- *)
(* v[free_vars] *)
Fixpoint gather (m : list bool) (v : vec) : vec :=
  match m, v with
  | b :: m', x :: v' => if b then x :: gather m' v' else gather m' v'
  | _, _ => []
  end.

(* (a * Z) @ d for the CSC selection matrix Z of the mask: y = zeros(n); y[row_j] += a * d[j] *)
Fixpoint scatter (a : float) (m : list bool) (d : vec) : vec :=
  match m with
  | [] => []
  | false :: m' => 0 :: scatter a m' d
  | true :: m' =>
      match d with
      | dj :: d' => add 0 (mul a dj) :: scatter a m' d'
      | [] => 0 :: scatter a m' []
      end
  end.

(* np.fmin (scalar loop): the first argument unless the second is smaller; a NaN second argument is ignored,
   a NaN first argument is replaced *)
Definition fmin (a b : float) : float := if leb a b || is_nan b then a else b.

(* np.nanmin(a) if a.size != 0 else np.nanmin(1.0) *)
Definition nanmin (l : vec) : float :=
  match l with
  | [] => 1
  | x :: r => fold_left fmin r x
  end.

(* ---------------------------------------------------------------------------------------------- *)
(* subspace_minimization                                                                           *)
(* ---------------------------------------------------------------------------------------------- *)
(* the candidate step of one free variable with dHat_j != 0 *)
Definition cand (d ux lx : float) : float := if ltb 0 d then div ux d else div lx d.

(* np.where(dHat[mask] > 0, ubx[mask], lbx[mask]) / dHat[mask], with mask = dHat != 0;
   ubx = (ub - xc)[free_vars], lbx = (lb - xc)[free_vars] *)
Fixpoint cands (d ubx lbx : vec) : vec :=
  match d, ubx, lbx with
  | dj :: d', uj :: u', lj :: l' =>
      if eqb dj 0 then cands d' u' l' else cand dj uj lj :: cands d' u' l'
  | _, _, _ => []
  end.

Record sub_result := mkSR {
  sr_xbar : vec;
  sr_free : list bool;     (* the free mask *)
  sr_early : bool;         (* the early return `len(free_vars) == 0` *)
  sr_r : vec;              (* r after `r -= ...` *)
  sr_rhat : vec;
  sr_dhat : vec;
  sr_cands : vec;          (* the quotients handed to np.nanmin *)
  sr_alpha : float         (* alpha_star *)
}.

Section SUB.
Variable O : sub_oracles.
Variables x xc c g lb ub : vec.
Variable theta : float.
Variable use_factor : bool.

Definition inv_theta : float := div 1 theta.

(* r = grad + mats.theta * (xc - x) *)
Definition rvec0 : vec := vmap2 (fun gi di => add gi (mul theta di)) g (vsub xc x).

(* if mats.use_factor: r -= mats.W.dot(bmv(mats.invMfactors, c)) *)
Definition rvec : vec := if use_factor then vip sub rvec0 (o_Wc O c) else rvec0.

Section Free.
Variable free : list bool.

Definition rhat : vec := gather free rvec.

(* dHat = -invThet * (rHat + invThet * np.transpose(WTZ).dot(v)) *)
Definition dhat : vec :=
  vip (fun rh o => mul (opp inv_theta) (add rh (mul inv_theta o))) rhat (o_corr O free rhat).

Definition step_cands : vec := cands dhat (gather free (vsub ub xc)) (gather free (vsub lb xc)).

Definition alpha_star : float := pymin 1 (nanmin step_cands).

(* np.clip(xc + (alpha * Z) @ dHat, lb, ub); the data of alpha * Z is 1.0 * alpha *)
Definition xbar_of (alpha : float) : vec := vclip (vadd xc (scatter (mul 1 alpha) free dhat)) lb ub.

Definition fsub_core_full : sub_result :=
  if has_free free
  then mkSR (xbar_of alpha_star) free false rvec rhat dhat step_cands alpha_star
  else mkSR xc free true [] [] [] [] 1.
End Free.

Definition fsubspace_full : sub_result := fsub_core_full (ffree xc lb ub).
Definition fsubspace : vec := sr_xbar fsubspace_full.
End SUB.

(* ---------------------------------------------------------------------------------------------- *)
(* correspondence support: table oracles and comparison                                            *)
(* ---------------------------------------------------------------------------------------------- *)
Definition mask_eqb (a b : list bool) : bool := lsame Bool.eqb a b.

Fixpoint look_corr (tab : list (list bool * vec * vec)) (m : list bool) (k : vec) : vec :=
  match tab with
  | [] => [miss]
  | (m', k', v) :: r => if mask_eqb m' m && vbits k' k then v else look_corr r m k
  end.

Definition table_sub_oracles (tWc : list (vec * vec)) (tcorr : list (list bool * vec * vec)) : sub_oracles :=
  mkSO (look1 [miss] tWc) (look_corr tcorr).

(* 0 = identical; +1 xbar differs (bits); +2 the free set differs; +4 alpha_star differs (IEEE ==, see the header);
   +8 dHat differs (bits); +16 the early return differs; +32 r differs (bits).
   After the early return Python has no dHat / alpha_star / r: the harness passes [] , 1 and []. *)
Definition check_sub (r : sub_result) (xbar : vec) (free : list nat) (early : bool) (rv dh : vec) (alpha : float) : nat :=
  ((if vbits (sr_xbar r) xbar then 0 else 1)
   + (if nat_list_eqb (indices_from 0 (sr_free r)) free then 0 else 2)
   + (if fsame (sr_alpha r) alpha then 0 else 4)
   + (if vbits (sr_dhat r) dh then 0 else 8)
   + (if Bool.eqb (sr_early r) early then 0 else 16)
   + (if vbits (sr_r r) rv then 0 else 32))%nat.

(* 1 when alpha_star has not the same bits as Python's (then it is a zero of the other sign), reported apart *)
Definition alpha_bits_differ (r : sub_result) (alpha : float) : nat := if fbits (sr_alpha r) alpha then 0%nat else 1%nat.
