(* Generic (vector-type polymorphic) form of the checkpoint-restore algorithms of Model/Driver.v
   (lbfgsb/main.py : initialize_X_and_G, and the re-insertion of the current point by
   bfgsmats.py : update_X_and_G).  The definitions are syntactically the ones of Driver.v /
   FloatVec.v with [vec], [FloatVec.vadd], [FloatVec.vsub], [maxcor c] abstracted; Proofs/RestoreInst.v
   shows by [reflexivity] that the Driver.v definitions are their instances at V := list float.

   [maxcor] is a parameter taken OUTSIDE the [fix] of [push_bounded] (as the section variable [c] is in
   Driver.v), so that the instance is convertible, not merely provably equal. *)
From Coq Require Import List ZArith Bool.
Import ListNotations.
Open Scope Z_scope.

Section Restore.
  Variable V : Type.
  Variables vadd vsub : V -> V -> V.

  (* FloatVec.diffs : np.diff(np.array(X), axis=0), newer minus older *)
  Fixpoint diffs (X : list V) : list V :=
    match X with
    | a :: ((b :: _) as r) => vsub b a :: diffs r
    | _ => []
    end.

  (* np.cumsum(..., axis=0): running sums, accumulated on the left *)
  Fixpoint cumsum (acc : option V) (rs : list V) : list V :=
    match rs with
    | [] => []
    | s :: r => let a := match acc with None => s | Some a0 => vadd a0 s end in a :: cumsum (Some a) r
    end.

  (* (x - np.cumsum(sk[::-1], axis=0))[::-1] : [x - (s_m + ... + s_1); ...; x - s_m], oldest first, x excluded *)
  Definition restore_points (x : V) (sk : list V) : list V :=
    rev (map (fun cs => vsub x cs) (cumsum None (rev sk))).

  Section Bounded.
    Variable maxcor : Z.

    (* for x in pts: if len(X) > maxcor: X.popleft(); X.append(x) *)
    Fixpoint push_bounded (pts : list V) (acc : list V) : list V :=
      match pts with
      | [] => acc
      | p :: r => push_bounded r ((if Z.of_nat (List.length acc) >? maxcor then tl acc else acc) ++ [p])
      end.

    (* update_X_and_G after the append: if len(X) > maxcor + 1: X.popleft() *)
    Definition trim (l : list V) : list V :=
      if (Z.of_nat (List.length l) >? maxcor + 1) then tl l else l.

    (* initialize_X_and_G on the fields (x, jac, sk, yk) of the checkpoint *)
    Definition restore (x jac : V) (sk yk : list V) : list V * list V :=
      match sk with
      | [] => ([], [])
      | _ => (push_bounded (restore_points x sk) [], push_bounded (restore_points jac yk) [])
      end.
  End Bounded.
End Restore.

Arguments diffs {V} vsub X.
Arguments cumsum {V} vadd acc rs.
Arguments restore_points {V} vadd vsub x sk.
Arguments push_bounded {V} maxcor pts acc.
Arguments trim {V} maxcor l.
Arguments restore {V} vadd vsub maxcor x jac sk yk.
