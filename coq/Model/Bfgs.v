(* Bfgs.v -- executable model, over the exact rationals Q, of the limited-memory BFGS matrices
   built by lbfgsb/bfgsmats.py (update_lbfgs_matrices, lines 254-283, form_invMfactors, bmv)
   and of the textbook dense BFGS recursion.  Definitions only: every proof is in
   BfgsProofs.v.

   Conventions
   - a vector is a [list Q]; a list shorter than the ambient dimension stands for the vector
     padded with zeros ([vadd]/[vsub] pad, [dot_raw] truncates, which is the same thing);
   - a matrix is the list of its ROWS;
   - S, Y and W are kept as the list of their COLUMNS (numpy: S = diff(X).T has the s_k as
     columns, W = hstack([Y, theta*S]) has the y_k then the theta*s_k as columns);
   - [Qred] is applied at a few positions only ([nv], [nm], [c_theta], the scalars of
     [bfgs_step]) to keep numerators small under vm_compute; it is the identity up to [==]. *)
From Coq Require Import QArith List Bool Arith.
Import ListNotations.
Open Scope Q_scope.

Definition vec := list Q.
Definition mat := list vec.

(* ---------------------------------------------------------------- vectors *)

Fixpoint dot_raw (u v : vec) : Q :=
  match u, v with
  | a :: u', b :: v' => a * b + dot_raw u' v'
  | _, _ => 0
  end.

Fixpoint vadd (u v : vec) : vec :=
  match u, v with
  | [], _ => v
  | _, [] => u
  | a :: u', b :: v' => (a + b) :: vadd u' v'
  end.

Definition vscale (c : Q) (u : vec) : vec := map (Qmult c) u.

Fixpoint vsub (u v : vec) : vec :=
  match u, v with
  | [], _ => map Qopp v
  | _, [] => u
  | a :: u', b :: v' => (a - b) :: vsub u' v'
  end.

(* normalisation of the representation (identity up to ==) *)
Definition nv (u : vec) : vec := map Qred u.
Definition nm (A : mat) : mat := map nv A.

(* ---------------------------------------------------------------- matrices *)

Definition mvmul (B : mat) (v : vec) : vec := map (fun r => dot_raw r v) B.

(* u^T B v *)
Definition quad (B : mat) (u v : vec) : Q := dot_raw u (mvmul B v).

Fixpoint madd (A B : mat) : mat :=
  match A, B with
  | [], _ => B
  | _, [] => A
  | r :: A', q :: B' => vadd r q :: madd A' B'
  end.

Definition mscale (c : Q) (A : mat) : mat := map (vscale c) A.

(* p q^T *)
Definition outer (p q : vec) : mat := map (fun a => vscale a q) p.

(* t * I_n *)
Fixpoint sid (n : nat) (t : Q) : mat :=
  match n with
  | O => []
  | S k => (t :: repeat 0 k) :: map (cons 0) (sid k t)
  end.

(* sum_a c_a * W_a *)
Fixpoint lincomb (c : vec) (W : list vec) : vec :=
  match c, W with
  | a :: c', w :: W' => nv (vadd (vscale a w) (lincomb c' W'))
  | _, _ => []
  end.

(* A * B  (row of A times the rows of B) *)
Definition mmul (A B : mat) : mat := map (fun r => lincomb r B) A.

(* gram A B = (a_i . b_j)_{ij}  : for column lists A, B this is A^T B *)
Definition gram (A B : list vec) : mat := map (fun a => map (fun b => dot_raw a b) B) A.

Fixpoint mapi_aux {A B : Type} (f : nat -> A -> B) (i : nat) (l : list A) : list B :=
  match l with
  | [] => []
  | a :: l' => f i a :: mapi_aux f (S i) l'
  end.

(* keep entry (i,j) when p i j, put 0 elsewhere *)
Definition mask (p : nat -> nat -> bool) (A : mat) : mat :=
  mapi_aux (fun i r => mapi_aux (fun j x => if p i j then x else 0) O r) O A.

(* transpose of a matrix with [ncols] columns *)
Fixpoint transpose (ncols : nat) (A : mat) : mat :=
  match ncols with
  | O => []
  | S k => map (hd 0) A :: transpose k (map (@tl Q) A)
  end.

(* [A B] *)
Fixpoint hcat (A B : mat) : mat :=
  match A, B with
  | r :: A', q :: B' => (r ++ q) :: hcat A' B'
  | _, _ => []
  end.

Fixpoint veq_bool (u v : vec) : bool :=
  match u, v with
  | [], [] => true
  | a :: u', b :: v' => Qeq_bool a b && veq_bool u' v'
  | _, _ => false
  end.

Fixpoint meq_bool (A B : mat) : bool :=
  match A, B with
  | [], [] => true
  | r :: A', q :: B' => veq_bool r q && meq_bool A' B'
  | _, _ => false
  end.

(* ---------------------------------------------------------------- the stored pairs *)

(* np.diff(np.array(X), axis=0): x_{k+1} - x_k *)
Fixpoint diffs (X : list vec) : list vec :=
  match X with
  | a :: ((b :: _) as X') => vsub b a :: diffs X'
  | _ => []
  end.

(* the correction pairs (s_k, y_k), oldest first *)
Definition pairs (X G : list vec) : list (vec * vec) := combine (diffs X) (diffs G).

(* X[-1] - X[-2] *)
Definition last_diff (X : list vec) : vec :=
  match rev X with
  | a :: b :: _ => vsub a b
  | _ => []
  end.

(* ---------------------------------------------------------------- compact representation *)

Record compact_t : Type := {
  c_theta : Q;            (* mats.theta *)
  c_S : list vec;         (* columns of mats.S *)
  c_Y : list vec;         (* columns of mats.Y *)
  c_D : mat;              (* mats.D = diag(s_k . y_k) *)
  c_L : mat;              (* mats.L = strictly lower triangle of S^T Y *)
  c_STS : mat;            (* S^T S *)
  c_W : list vec;         (* columns of mats.W = [Y, theta S] *)
  c_Minv : mat            (* [[-D, L^T], [L, theta S^T S]] *)
}.

(* bfgsmats.py:254-283.  The code does not store c_Minv: form_invMfactors returns two
   triangular factors F0 (lower) and F1 (upper),
        F0 = [[ D^(1/2), 0 ], [ -L D^(-1/2), J ]],   F1 = [[ -D^(1/2), D^(-1/2) L^T ], [ 0, J^T ]],
        J J^T = theta S^T S + L D^(-1) L^T   (Cholesky),
   whose PRODUCT F0 F1 is [[-D, L^T], [L, theta S^T S]] (the matrix of the commented-out
   np.linalg.inv and of the is_check_factorization assertion), and bmv solves with F0 then F1,
   i.e. applies the inverse of that product.  c_Minv models the product; the square roots and
   the Cholesky factor are not modelled.
   With fewer than two stored points there is no pair and the matrices keep their initial
   value (LBFGSB_MATRICES.__init__: theta = 1, no factor): theta = 1, everything else empty. *)
Definition compact (X G : list vec) : compact_t :=
  match diffs X with
  | [] => {| c_theta := 1; c_S := []; c_Y := []; c_D := []; c_L := []; c_STS := [];
             c_W := []; c_Minv := [] |}
  | _ :: _ =>
    let yk := last_diff G in                       (* yk = G[-1] - G[-2] *)
    let sTy := dot_raw (last_diff X) yk in          (* sTy = (X[-1] - X[-2]).dot(yk) *)
    let yTy := dot_raw yk yk in                     (* yTy = yk.dot(yk) *)
    let theta := Qred (yTy / sTy) in                (* mats.theta = yTy / sTy *)
    let S := diffs X in                             (* mats.S = np.diff(np.array(X), axis=0).T *)
    let Y := diffs G in                             (* mats.Y = np.diff(np.array(G), axis=0).T *)
    let m := length S in
    let STS := gram S S in                          (* STS = S.T @ S *)
    let SY := gram S Y in                           (* mats.L = S.T @ Y *)
    let D := mask Nat.eqb SY in                     (* mats.D = np.diag(np.diag(mats.L)) *)
    let L := mask (fun i j => Nat.ltb j i) SY in    (* mats.L = np.tril(mats.L, -1) *)
    let W := Y ++ map (vscale theta) S in           (* mats.W = np.hstack([Y, theta * S]) *)
    let Minv := hcat (mscale (-1) D) (transpose m L)        (* [ -D   L^T       ] *)
                ++ hcat L (mscale theta STS) in             (* [  L   theta STS ] *)
    {| c_theta := theta; c_S := S; c_Y := Y; c_D := D; c_L := L; c_STS := STS;
       c_W := W; c_Minv := Minv |}
  end.

(* W M W^T = sum_a w_a (sum_b M_ab w_b)^T, for W given by its columns *)
Fixpoint wmw_aux (W : list vec) (M : mat) (Wall : list vec) : mat :=
  match W, M with
  | w :: W', r :: M' => nm (madd (outer w (lincomb r Wall)) (wmw_aux W' M' Wall))
  | _, _ => []
  end.
Definition wmw (W : list vec) (M : mat) : mat := wmw_aux W M W.

(* B = theta I_n - W M W^T as a dense matrix; M is meant to satisfy Minv * M = I *)
Definition compact_B (n : nat) (theta : Q) (W : list vec) (M : mat) : mat :=
  nm (madd (sid n theta) (mscale (-1) (wmw W M))).

(* ---------------------------------------------------------------- dense BFGS recursion *)

(* B+ = B - (B s)(B s)^T / (s^T B s) + y y^T / (s^T y) *)
Definition bfgs_step (B : mat) (s y : vec) : mat :=
  let Bs := nv (mvmul B s) in
  let a := Qred (dot_raw s Bs) in
  let c := Qred (dot_raw s y) in
  nm (madd (madd B (mscale (- / a) (outer Bs Bs))) (mscale (/ c) (outer y y))).

Definition dense_from (B0 : mat) (ps : list (vec * vec)) : mat :=
  fold_left (fun B p => bfgs_step B (fst p) (snd p)) ps B0.

(* B_0 = theta I_n, then the pairs in order *)
Definition dense_bfgs (n : nat) (theta : Q) (ps : list (vec * vec)) : mat :=
  dense_from (sid n theta) ps.

(* ---------------------------------------------------------------- exact inverse (executable) *)
(* Gauss-Jordan elimination on [A | I] with search of a non-zero pivot.  No theorem is proved
   about it: wherever its result is used the product Minv * M is re-checked (meq_bool). *)

Definition row_elim (p : vec) (k : nat) (r : vec) : vec :=
  let f := nth k r 0 in
  if Qeq_bool f 0 then r else nv (vsub r (vscale f p)).

Fixpoint find_pivot (k : nat) (todo : mat) : option (vec * mat) :=
  match todo with
  | [] => None
  | r :: t =>
    if Qeq_bool (nth k r 0) 0
    then match find_pivot k t with
         | Some (p, rest) => Some (p, r :: rest)
         | None => None
         end
    else Some (r, t)
  end.

Fixpoint gauss_jordan (fuel k : nat) (done todo : mat) : option mat :=
  match fuel with
  | O => match todo with [] => Some done | _ => None end
  | S f =>
    match find_pivot k todo with
    | None => None
    | Some (p, rest) =>
      let p' := nv (vscale (/ nth k p 0) p) in
      gauss_jordan f (S k) (map (row_elim p' k) done ++ [p']) (map (row_elim p' k) rest)
    end
  end.

Definition qinv (A : mat) : option mat :=
  let n := length A in
  match gauss_jordan n O [] (hcat (nm A) (sid n 1)) with
  | Some R => Some (map (skipn n) R)
  | None => None
  end.

(* the dense matrix represented by the compact form of the memory (X, G), when the middle
   matrix is invertible and the computed inverse passes the multiplication check *)
Definition lbfgs_matrix (n : nat) (X G : list vec) : option mat :=
  let C := compact X G in
  match qinv (c_Minv C) with
  | Some M =>
    if meq_bool (nm (mmul (c_Minv C) M)) (sid (length (c_Minv C)) 1)
    then Some (compact_B n (c_theta C) (c_W C) M) else None
  | None => None
  end.
