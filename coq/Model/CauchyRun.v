(* CauchyRun.v -- wrapper used by the generated correspondence case files (corr_cauchy.py).
   One call of [run_case] = one line of output made only of integers:
     (id, ok, minv_ok, fixed, which_bound, nseg, x_cp, c, t_star, margin)
   rationals are exact, written (sign, limbs |numerator|, limbs denominator) with
   little-endian base-2^32 limbs (Coq prints a large Z in decimal through a slow conversion).
   The middle matrix M = Mn / Md handed over by the harness is NOT trusted: W, theta and M^-1 are rebuilt
   here from the correction pairs (S, Y) with the formulas of bfgsmats.py and [minv_ok] is the exact test
   Mn * M^-1 == Md * I (and Md <> 0). *)
From Coq Require Import QArith List ZArith Uint63.
Import ListNotations.
From LBFGSB Require Import Model.Cauchy.

Fixpoint limbs (fuel : nat) (z : Z) : list Z :=
  match fuel with
  | O => []
  | S f => if Z.eqb z 0 then [] else Z.land z 4294967295 :: limbs f (Z.shiftr z 32)
  end.
Definition zl (z : Z) : list Z := limbs (S (Z.to_nat (Z.log2 z) / 32)) z.
Definition qz (q : Q) : Z * list Z * list Z :=
  (Z.sgn (Qnum q), zl (Z.abs (Qnum q)), zl (Zpos (Qden q))).   (* gcp_list returns reduced values *)
Definition bz (b : bool) : Z := if b then 1%Z else 0%Z.

(* np.finfo(float).eps = 2^-52, cauchy.py:151 *)
Definition eps_f_sec : Q := 1 # 4503599627370496.

Definition show (id : Z) (minv_ok : bool) (g : list Q) (o : output) :=
  (id, bz (o_ok o), bz minv_ok,
   map Z.of_nat (o_fixed o),
   map (fun b => if Qltb (nthQ g b) 0 then 1%Z else (-1)%Z) (o_fixed o),
   Z.of_nat (o_nseg o),
   map qz (o_xcp o), map qz (o_c o), qz (o_tstar o), qz (o_margin o)).

(* Big integers come in as a flat stream of primitive 63-bit integers (Coq parses a large Z literal through a
   slow conversion): each integer is a header 2 * (number of limbs) + (1 if negative) followed by its
   little-endian base-2^60 limbs.  The stream is  Md, then the (2m)^2 entries of Mn row by row. *)
Fixpoint take_limbs (k : nat) (l : list int) (shift : Z) : Z * list int :=
  match k with
  | O => (0%Z, l)
  | S k' => match l with
            | [] => (0%Z, [])
            | a :: l' => let (v, r) := take_limbs k' l' (shift + 60)%Z in
                         ((Z.shiftl (Uint63.to_Z a) shift + v)%Z, r)
            end
  end.
Fixpoint decode (fuel : nat) (l : list int) : list Z :=
  match fuel with
  | O => []
  | S f => match l with
           | [] => []
           | h :: l' =>
               let hz := Uint63.to_Z h in
               let (v, r) := take_limbs (Z.to_nat (hz / 2)) l' 0%Z in
               (if Z.odd hz then (- v)%Z else v) :: decode f r
           end
  end.
Fixpoint rows (k : nat) (nrows : nat) (l : list Z) : list (list Q) :=
  match nrows with
  | O => []
  | S r => map (fun z => inject_Z z) (firstn k l) :: rows k r (skipn k l)
  end.
Definition decode_M (m : nat) (stream : list int) : list (list Q) * Q :=
  match decode (S (4 * m * m)) stream with
  | [] => ([], 1)
  | md :: l => (rows (2 * m) (2 * m) l, inject_Z md)
  end.

Definition run_case (id : Z) (x g : list Q) (lb ub : list (option Q))
           (S Y : list (list Q)) (m : nat) (stream : list int) :=
  match m with
  | O =>   (* LBFGSB_MATRICES(n) before any update: W = zeros(n,1), theta = 1, use_factor False *)
      show id true g (gcp_list x g lb ub 1 (map (fun _ => [0]) x) [[0]] 1 false eps_f_sec)
  | _ =>
      let th := theta_of S Y m in
      let W := build_W S Y th in
      let (Mn, Md) := decode_M m stream in
      show id (is_inverse Mn Md (build_Minv S Y th m)) g (gcp_list x g lb ub th W Mn Md true eps_f_sec)
  end.
