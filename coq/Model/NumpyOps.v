(* List versions of the NumPy idioms that the translator (harness/translate.py, class VecExpr) maps array expressions to.
   Hand-written, definitions only; each is the obvious element-wise reading:
     a[mask] (boolean-mask indexing)          bgather / bgather_idx
     np.where(c, a, b)                         bwhere   (bwhere_s: scalar first branch)
     a[mask] = values / a[mask] = scalar       bscatter / bset
     element-wise boolean operations           bmap2                                                   *)
From Coq Require Import List Floats.PrimFloat.
From LBFGSB Require Import Model.FloatVec.
Import ListNotations.

Fixpoint bmap2 {A B} (f : A -> B -> bool) (a : list A) (b : list B) : list bool :=
  match a, b with x_ :: a', y_ :: b' => f x_ y_ :: bmap2 f a' b' | _, _ => [] end.
Fixpoint bgather (m : list bool) (v : vec) : vec :=
  match m, v with b_ :: m', e_ :: v' => if b_ then e_ :: bgather m' v' else bgather m' v' | _, _ => [] end.
Fixpoint bgather_idx (m : list bool) (v : list nat) : list nat :=
  match m, v with b_ :: m', e_ :: v' => if b_ then e_ :: bgather_idx m' v' else bgather_idx m' v' | _, _ => [] end.
Fixpoint bwhere (c : list bool) (a b : vec) : vec :=
  match c, a, b with c_ :: c', p_ :: a', q_ :: b' => (if c_ then p_ else q_) :: bwhere c' a' b' | _, _, _ => [] end.
Fixpoint bwhere_s (c : list bool) (a : float) (b : vec) : vec :=
  match c, b with c_ :: c', q_ :: b' => (if c_ then a else q_) :: bwhere_s c' a b' | _, _ => [] end.
(* t[mask] = values : the k-th True position of the mask receives the k-th value *)
Fixpoint bscatter (m : list bool) (vals base : vec) : vec :=
  match m, base with
  | true :: m', _ :: base' => match vals with v_ :: vals' => v_ :: bscatter m' vals' base' | [] => base end
  | false :: m', e_ :: base' => e_ :: bscatter m' vals base'
  | _, _ => base
  end.
Fixpoint bset (m : list bool) (a : float) (base : vec) : vec :=
  match m, base with b_ :: m', e_ :: base' => (if b_ then a else e_) :: bset m' a base' | _, _ => base end.

(* np.cumsum(rows, axis=0): running sums of the rows; the first row is returned as it is *)
Fixpoint np_cumsum_from (acc : vec) (rs : list vec) : list vec :=
  match rs with [] => [] | r :: rs' => let a := vadd acc r in a :: np_cumsum_from a rs' end.
Definition np_cumsum (rs : list vec) : list vec := match rs with [] => [] | r :: rs' => r :: np_cumsum_from r rs' end.

(* np.nanmin of a non-empty 1-D array: np.fmin.reduce (scalar loop, first element as the start; a NaN operand is ignored).
   Of an empty array NumPy raises; the translator guards every use by the emptiness test of the source. *)
Definition np_fmin (a b : float) : float := if (PrimFloat.leb a b || is_nan b)%bool then a else b.
Definition np_nanmin (l : vec) : float := match l with [] => nan | x_ :: r_ => fold_left np_fmin r_ x_ end.

(* (a * Z) @ d for the selection matrix Z of get_freev: Z = lil_matrix((n, k)); Z[rows, arange(k)] = 1.  SciPy's compressed
   matvec kernels (csr_matvec / csc_matvec) accumulate data * d[col] into a zero-initialised y; row i has its one stored entry
   (a * 1.0) in column j exactly when rows[j] = i, hence y[i] = 0 + (a * 1.0) * d[j], and 0 for a row without entry.
   `a1` is the stored datum (1.0 * a).  Validated bit for bit by the `fsubspace` correspondence. *)
Fixpoint pos_of (i : nat) (rows : list nat) : option nat :=
  match rows with [] => None | r_ :: rs_ => if Nat.eqb r_ i then Some 0 else option_map S (pos_of i rs_) end.
Definition sel_matvec (a1 : float) (n : nat) (rows : list nat) (d : vec) : vec :=
  map (fun i_ => match pos_of i_ rows with Some j_ => PrimFloat.add 0%float (PrimFloat.mul a1 (nth j_ d 0%float)) | None => 0%float end) (seq 0 n).

(* r -= w (in place: the shape of r is kept) *)
Fixpoint vinplace (f : float -> float -> float) (a b : vec) : vec :=
  match a, b with x_ :: a', y_ :: b' => f x_ y_ :: vinplace f a' b' | _, _ => a end.

(* a[i] = v for an integer index inside the array *)
Fixpoint np_setitem (i : nat) (v : float) (a : vec) : vec :=
  match a, i with [], _ => [] | _ :: r_, O => v :: r_ | h_ :: r_, S k_ => h_ :: np_setitem k_ v r_ end.

(* X[-1], X[-2], ... on a deque of arrays (k = 0 is the newest entry) *)
Definition nth_back (k : nat) (l : list vec) : vec := nth k (rev l) [].

(* np.hstack([A, B]) for two matrices with n rows given by their columns: row i = the i-th components of the columns of A,
   then those of the columns of B *)
Definition hstack_cols (n : nat) (A B : list vec) : list vec :=
  map (fun i_ => map (fun c_ => nth i_ c_ nan) A ++ map (fun c_ => nth i_ c_ nan) B) (seq 0 n).
