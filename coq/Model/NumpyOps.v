(* List versions of the NumPy idioms that the translator (harness/translate.py, class VecExpr) maps array expressions to.
   Hand-written, definitions only; each is the obvious element-wise reading:
     a[mask] (boolean-mask indexing)          bgather / bgather_idx
     np.where(c, a, b)                         bwhere   (bwhere_s: scalar first branch)
     a[mask] = values / a[mask] = scalar       bscatter / bset
     element-wise boolean operations           bmap2                                                   *)
From Coq Require Import List Floats.PrimFloat.
From LBFGSB Require Import Model.FloatVec.
Import ListNotations.

Fixpoint bmap2 {A B} (f : A -> B -> bool) (a : list A) (b : list B) : list bool :=
  match a, b with x_ :: a', y_ :: b' => f x_ y_ :: bmap2 f a' b' | _, _ => [] end.
Fixpoint bgather (m : list bool) (v : vec) : vec :=
  match m, v with b_ :: m', e_ :: v' => if b_ then e_ :: bgather m' v' else bgather m' v' | _, _ => [] end.
Fixpoint bgather_idx (m : list bool) (v : list nat) : list nat :=
  match m, v with b_ :: m', e_ :: v' => if b_ then e_ :: bgather_idx m' v' else bgather_idx m' v' | _, _ => [] end.
Fixpoint bwhere (c : list bool) (a b : vec) : vec :=
  match c, a, b with c_ :: c', p_ :: a', q_ :: b' => (if c_ then p_ else q_) :: bwhere c' a' b' | _, _, _ => [] end.
Fixpoint bwhere_s (c : list bool) (a : float) (b : vec) : vec :=
  match c, b with c_ :: c', q_ :: b' => (if c_ then a else q_) :: bwhere_s c' a b' | _, _ => [] end.
(* t[mask] = values : the k-th True position of the mask receives the k-th value *)
Fixpoint bscatter (m : list bool) (vals base : vec) : vec :=
  match m, base with
  | true :: m', _ :: base' => match vals with v_ :: vals' => v_ :: bscatter m' vals' base' | [] => base end
  | false :: m', e_ :: base' => e_ :: bscatter m' vals base'
  | _, _ => base
  end.
Fixpoint bset (m : list bool) (a : float) (base : vec) : vec :=
  match m, base with b_ :: m', e_ :: base' => (if b_ then a else e_) :: bset m' a base' | _, _ => base end.

(* np.cumsum(rows, axis=0): running sums of the rows; the first row is returned as it is *)
Fixpoint np_cumsum_from (acc : vec) (rs : list vec) : list vec :=
  match rs with [] => [] | r :: rs' => let a := vadd acc r in a :: np_cumsum_from a rs' end.
Definition np_cumsum (rs : list vec) : list vec := match rs with [] => [] | r :: rs' => r :: np_cumsum_from r rs' end.
