(* Model of lbfgsb/scalar_function.py : ScalarFunction (hand-written from lines 83-188).
   One memo cell: the cached point, an optional value, an optional gradient, two counters and the
   scaling factor.  The user's objective / gradient are pure functions that may raise.
   Finite-difference modes: the differencing routine (SciPy's approx_derivative) is an oracle that,
   given the point and f there, returns the estimate and the list of stencil points at which it
   called the (counting) objective wrapper. *)
From Coq Require Import List ZArith Bool.
From LBFGSB Require Import Base.Res.
Import ListNotations.
Open Scope Z_scope.

Section SF.
  Variables (P F G S : Type).
  Variable peqb : P -> P -> bool.                 (* np.array_equal *)
  Variable fmul : F -> S -> F.                    (* self.f * self.scaling_factor *)
  Variable gmul : G -> S -> G.
  Variable uf : P -> res F.                       (* user objective *)
  Variable ug : P -> res G.                       (* user gradient (callable mode) *)
  Variable stencil : P -> list P.                 (* stencil points of the differencing scheme at x *)
  Variable fdest : P -> F -> list F -> res G.     (* estimate from f(x) and the stencil values *)
  Variable fdmode : bool.                         (* true = finite differences *)

  Inductive ev := EvF (p : P) (r : res F) | EvG (p : P) (r : res G).

  Record st := mk { sx : P; sf : option F; sg : option G; nfev : Z; ngev : Z; scale : S }.

  Definition init (x0 : P) (s1 : S) : st := mk x0 None None 0 0 s1.
  Definition set_scale (s : S) (t : st) : st := mk (sx t) (sf t) (sg t) (nfev t) (ngev t) s.
  Definition set_counters (nf ng : Z) (t : st) : st := mk (sx t) (sf t) (sg t) nf ng (scale t).

  Definition update_x (p : P) (t : st) : st :=
    if peqb p (sx t) then t else mk p None None (nfev t) (ngev t) (scale t).

  (* fun_wrapped: count, call the user, record *)
  Definition call_f (p : P) : M ev F := call (uf p) (EvF p (uf p)).
  Definition call_g (p : P) : M ev G := call (ug p) (EvG p (ug p)).

  Definition update_fun (t : st) : M ev (F * st) :=
    match sf t with
    | Some v => ret (v, t)
    | None => v <- call_f (sx t) ;; ret (v, mk (sx t) (Some v) (sg t) (nfev t + 1) (ngev t) (scale t))
    end.

  Fixpoint eval_stencil (ps : list P) : M ev (list F) :=
    match ps with
    | [] => ret []
    | p :: r => v <- call_f p ;; vs <- eval_stencil r ;; ret (v :: vs)
    end.

  Definition update_grad (t : st) : M ev (G * st) :=
    match sg t with
    | Some g => ret (g, t)
    | None =>
        if fdmode then
          '(v, t1) <- update_fun t ;;
          vs <- eval_stencil (stencil (sx t1)) ;;
          match fdest (sx t1) v vs with
          | Ok g => ret (g, mk (sx t1) (sf t1) (Some g) (nfev t1 + Z.of_nat (length vs)) (ngev t1 + 1) (scale t1))
          | Raise e => raise e
          | OutOfFuel => (OutOfFuel, [])
          end
        else
          g <- call_g (sx t) ;; ret (g, mk (sx t) (sf t) (Some g) (nfev t) (ngev t + 1) (scale t))
    end.

  Definition sf_fun (p : P) (t : st) : M ev (F * st) :=
    '(v, t1) <- update_fun (update_x p t) ;; ret (fmul v (scale t1), t1).
  Definition sf_grad (p : P) (t : st) : M ev (G * st) :=
    '(g, t1) <- update_grad (update_x p t) ;; ret (gmul g (scale t1), t1).
  Definition sf_fun_and_grad (p : P) (t : st) : M ev (F * G * st) :=
    '(v, t1) <- update_fun (update_x p t) ;;
    '(g, t2) <- update_grad t1 ;;
    ret (fmul v (scale t2), gmul g (scale t2), t2).

  (* histories of requests, for the wrapper-level property *)
  Inductive op := OFun (p : P) | OGrad (p : P) | OBoth (p : P) | OScale (s : S).
  Inductive ans := AFun (v : F) | AGrad (g : G) | ABoth (v : F) (g : G) | ANone.

  Definition step (o : op) (t : st) : M ev (ans * st) :=
    match o with
    | OFun p => '(v, t1) <- sf_fun p t ;; ret (AFun v, t1)
    | OGrad p => '(g, t1) <- sf_grad p t ;; ret (AGrad g, t1)
    | OBoth p => '(v, g, t1) <- sf_fun_and_grad p t ;; ret (ABoth v g, t1)
    | OScale s => ret (ANone, set_scale s t)
    end.

  Fixpoint run (os : list op) (t : st) : M ev (list ans * st) :=
    match os with
    | [] => ret ([], t)
    | o :: r => '(a, t1) <- step o t ;; '(as_, t2) <- run r t1 ;; ret (a :: as_, t2)
    end.
End SF.
