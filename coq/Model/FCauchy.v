(* ================================================================================================
   FCauchy.v -- BIT-EXACT model over binary64 (Coq primitive floats) of
   lbfgsb.cauchy.get_cauchy_point (cauchy.py).  Definitions only; the proofs are in
   Proofs/FCauchyProofs.v, the correspondence harness is corr_fcauchy.py.

   One IEEE-754 binary64 operation per Python/NumPy scalar or element-wise operation, in the evaluation
   order of the source, with the comparisons of the source (NaN compares false, -0.0 == 0.0).

   ORACLES.  Five expressions of the source are BLAS/LAPACK calls whose rounding is not "one IEEE operation
   at a time" (blocked / vectorised accumulation, triangular solves).  They are parameters of the model:

     o_WTd d      : vec     mats.W.T @ d                                           (dgemv)
     o_dd  d      : float   d.dot(d)                                               (ddot)
     o_pMp p      : float   p.dot(bmv(mats.invMfactors, p))                        (2 x dtrsv + ddot)
     o_wMc wb c   : float   W_b.dot(bmv(mats.invMfactors, c))                      (2 x dtrsv + ddot)
     o_wMv wb v   : float   W_b.dot(bmv(mats.invMfactors, 2 * p + g_b * W_b))      (2 x dtrsv + ddot)
                            with  wb = W[ibp, :]  and  v = 2 * p + g_b * W_b  (computed element-wise
                            by the model: two multiplications and one addition per component)

   Every oracle receives all the float inputs of the expression that vary during one call (W and
   invMfactors are fixed during a call), so that an association list keyed on the arguments answers it.

   SHAPES.  NumPy in-place updates (c += ..., p += ..., x_cp[mask] = ...) never change the shape of their
   left-hand side; the model keeps the tail of the left operand when the right operand is shorter ([vip],
   [upd], [final_move]), so that the length statements hold for all inputs.  On well-shaped inputs
   (length x = length g = length lb = length ub = length W, rows of W as long as p) nothing is truncated.
   ================================================================================================ *)
From Coq Require Import List Bool Arith Floats.PrimFloat.
From LBFGSB Require Import Model.FloatVec.
Import ListNotations.
Local Open Scope float_scope.

Record oracles := mkO {
  o_WTd : vec -> vec;
  o_dd  : vec -> float;
  o_pMp : vec -> float;
  o_wMc : vec -> vec -> float;
  o_wMv : vec -> vec -> float }.

(* ---------------------------------------------------------------------------------------------- *)
(* NumPy / Python primitives                                                                       *)
(* ---------------------------------------------------------------------------------------------- *)
Definition feps : float := 0x1p-52.                (* np.finfo(float).eps *)
Definition ftwo : float := 2.

(* a[i] = v *)
Fixpoint upd (i : nat) (v : float) (a : vec) : vec :=
  match a, i with
  | [], _ => []
  | _ :: r, O => v :: r
  | h :: r, S k => h :: upd k v r
  end.

(* a op= b (element-wise, in place): the shape of a is kept *)
Fixpoint vip (f : float -> float -> float) (a b : vec) : vec :=
  match a, b with
  | x :: a', y :: b' => f x y :: vip f a' b'
  | _, _ => a
  end.

(* npy::double_tag::less of numpy/core/src/npysort: NaN is the greatest element *)
Definition np_lt (a b : float) : bool := ltb a b || (is_nan b && negb (is_nan a)).

(* the stable sort: insertion of the elements from the right; an element goes in front of the first entry
   that is not strictly smaller, hence in front of the equal entries that come after it in the input *)
Fixpoint ins (k : nat * float) (l : list (nat * float)) : list (nat * float) :=
  match l with
  | [] => [k]
  | h :: r => if np_lt (snd h) (snd k) then h :: ins k r else k :: l
  end.
Definition isort (l : list (nat * float)) : list (nat * float) := fold_right ins [] l.

(* np.argsort(t, kind="stable") *)
Definition argsort (t : vec) : list nat := map fst (isort (combine (seq 0 (length t)) t)).

(* sorted_t_idx[t[sorted_t_idx] > 0] *)
Definition tnth (t : vec) (i : nat) : float := nth i t nan.
Definition sorted_pos (t : vec) : list nat := filter (fun i => ltb 0 (tnth t i)) (argsort t).

(* ---------------------------------------------------------------------------------------------- *)
(* breakpoints and the Cauchy direction                                                            *)
(* ---------------------------------------------------------------------------------------------- *)
(* t = zeros; mask = grad != 0; t[mask] = where(grad < 0, (x - ub) / grad, (x - lb) / grad)[mask];
   t[grad == 0] = inf.   A NaN gradient is in the mask, is not < 0: t = (x - lb) / NaN = NaN. *)
Definition bp (xi gi li ui : float) : float :=
  if eqb gi 0 then infinity
  else if ltb gi 0 then div (sub xi ui) gi else div (sub xi li) gi.

Fixpoint breakpoints (x g lb ub : vec) : vec :=
  match x, g, lb, ub with
  | xi :: x', gi :: g', li :: lb', ui :: ub' => bp xi gi li ui :: breakpoints x' g' lb' ub'
  | _, _, _, _ => []
  end.

(* d = np.where(t == 0, 0.0, -grad) *)
Definition dir0 (t g : vec) : vec := vmap2 (fun ti gi => if eqb ti 0 then 0 else opp gi) t g.

(* ---------------------------------------------------------------------------------------------- *)
(* the loop                                                                                        *)
(* ---------------------------------------------------------------------------------------------- *)
Record st := mkst {
  s_xcp : vec; s_c : vec; s_p : vec; s_d : vec;
  s_fp : float;        (* f_prime *)
  s_fs : float;        (* f_second *)
  s_dtm : float;       (* delta_t_min *)
  s_told : float;      (* t_old *)
  s_fixed : list nat   (* ghost: the indices fixed so far, in order (the "Variable i is fixed" log lines) *)
}.

Record result := mkres {
  r_xcp : vec; r_c : vec;
  r_fixed : list nat;  (* indices fixed by the loop, in order *)
  r_told : float;      (* t_old after `t_old += delta_t_min` *)
  r_dtm : float;       (* delta_t_min after `0 if delta_t_min < 0 else delta_t_min` *)
  r_found : bool;      (* is_gpc_found: the loop was left through `break` *)
  r_loop : bool        (* false: the early return `nbreak == 0` *)
}.

Section GCP.
Variable O : oracles.
Variables x g lb ub : vec.
Variable theta : float.
Variable W : list vec.        (* the rows of mats.W *)
Variable use_factor : bool.

Definition row (i : nat) : vec := nth i W [].

Section Loop.
Variable t : vec.
Variable f2_org : float.

(* the body of the while loop after the `break` test, for the breakpoint index ibp reached at t_cur *)
Definition step (ibp : nat) (t_cur delta_t : float) (s : st) : st :=
  let dib := nth ibp (s_d s) nan in
  let xcp1 :=
    if ltb 0 dib then upd ibp (nth ibp ub nan) (s_xcp s)
    else if ltb dib 0 then upd ibp (nth ibp lb nan) (s_xcp s)
    else s_xcp s in
  let zb := sub (nth ibp xcp1 nan) (nth ibp x nan) in
  (* c += delta_t * p *)
  let c1 := vip (fun cj pj => add cj (mul delta_t pj)) (s_c s) (s_p s) in
  let wb := row ibp in
  let gb := nth ibp g nan in
  (* f_prime += delta_t * f_second + g_b * (g_b + mats.theta * zb) *)
  let fp1 := add (s_fp s) (add (mul delta_t (s_fs s)) (mul gb (add gb (mul theta zb)))) in
  (* f_second -= g_b * g_b * mats.theta *)
  let fs1 := sub (s_fs s) (mul (mul gb gb) theta) in
  let fp2 := if use_factor then sub fp1 (mul gb (o_wMc O wb c1)) else fp1 in
  let fs2 :=
    if use_factor then
      sub fs1 (mul gb (o_wMv O wb (vmap2 (fun pj wj => add (mul ftwo pj) (mul gb wj)) (s_p s) wb)))
    else fs1 in
  (* f_second = max(f_second, eps_f_sec * f2_org) *)
  let fs3 := pymax fs2 (mul feps f2_org) in
  (* p += g_b * W_b *)
  let p1 := vip (fun pj wj => add pj (mul gb wj)) (s_p s) wb in
  (* d[ibp] = 0 *)
  let d1 := upd ibp 0 (s_d s) in
  (* delta_t_min = -f_prime / f_second ; t_old = t_cur *)
  mkst xcp1 c1 p1 d1 fp2 fs3 (div (opp fp2) fs3) t_cur (s_fixed s ++ [ibp]).

(* while _i < len(sorted_t_idx): ... ; [idx] is sorted_t_idx[_i:], t_cur = t[ibp], delta_t = t_cur - t_old.
   Returns the state and is_gpc_found. *)
Fixpoint loop (idx : list nat) (t_cur delta_t : float) (s : st) : st * bool :=
  match idx with
  | [] => (s, false)
  | ibp :: rest =>
      if ltb (s_dtm s) delta_t then (s, true)
      else
        let s1 := step ibp t_cur delta_t s in
        (* try: ibp = sorted_t_idx[_i]; t_cur = t[ibp]  except IndexError: t_cur = np.inf *)
        let t_next := match rest with [] => infinity | j :: _ => tnth t j end in
        loop rest t_next (sub t_next t_cur) s1
  end.
End Loop.

(* x_cp[is_moving] = np.clip(x + t_old * d, lb, ub)[is_moving]  with  is_moving = d != 0 *)
Fixpoint final_move (told : float) (xcp x' d lb' ub' : vec) : vec :=
  match xcp, x', d, lb', ub' with
  | xc :: xcp1, xi :: x1, di :: d1, li :: lb1, ui :: ub1 =>
      (if eqb di 0 then xc else fclip (add xi (mul told di)) li ui) :: final_move told xcp1 x1 d1 lb1 ub1
  | _, _, _, _, _ => xcp
  end.

Definition fgcp_full : result :=
  let t := breakpoints x g lb ub in
  let d := dir0 t g in
  let idx := sorted_pos t in
  let p := o_WTd O d in
  let c := vzeros p in
  let f_prime := opp (o_dd O d) in
  let f_second := mul (opp theta) f_prime in
  let f2_org := f_second in
  let f_second := if use_factor then sub f_second (o_pMp O p) else f_second in
  let dtm := div (opp f_prime) f_second in
  match idx with
  | [] => mkres x c [] 0 dtm false false
  | i0 :: _ =>
      let t_cur := tnth t i0 in
      let '(s, found) := loop t f2_org idx t_cur (sub t_cur 0) (mkst x c p d f_prime f_second dtm 0 []) in
      (* delta_t_min = 0 if delta_t_min < 0 else delta_t_min ; t_old += delta_t_min *)
      let dtm1 := if ltb (s_dtm s) 0 then 0 else s_dtm s in
      let told := add (s_told s) dtm1 in
      mkres (final_move told (s_xcp s) x (s_d s) lb ub)
            (vip (fun cj pj => add cj (mul dtm1 pj)) (s_c s) (s_p s))
            (s_fixed s) told dtm1 found true
  end.

Definition fgcp : vec * vec := (r_xcp fgcp_full, r_c fgcp_full).
End GCP.

(* ---------------------------------------------------------------------------------------------- *)
(* correspondence support: table oracles and bit-level comparison                                  *)
(* ---------------------------------------------------------------------------------------------- *)
(* same bits up to the NaN payload: IEEE equal with equal zero signs, or both NaN *)
Definition fbits (a b : float) : bool :=
  (is_nan a && is_nan b) || (eqb a b && (negb (eqb a 0) || eqb (div 1 a) (div 1 b))).
Definition vbits (a b : vec) : bool := lsame fbits a b.

Definition miss : float := 0x1.23456789abcdep+123.     (* answer of a table that has no entry *)

Fixpoint look1 {A} (dflt : A) (tab : list (vec * A)) (k : vec) : A :=
  match tab with
  | [] => dflt
  | (k', v) :: r => if vbits k' k then v else look1 dflt r k
  end.
Fixpoint look2 (tab : list (vec * vec * float)) (k1 k2 : vec) : float :=
  match tab with
  | [] => miss
  | (a, b, v) :: r => if vbits a k1 && vbits b k2 then v else look2 r k1 k2
  end.

Definition table_oracles (tWTd : list (vec * vec)) (tdd tpMp : list (vec * float))
                         (twMc twMv : list (vec * vec * float)) : oracles :=
  mkO (look1 [miss] tWTd) (look1 miss tdd) (look1 miss tpMp) (look2 twMc) (look2 twMv).

Definition nat_list_eqb (a b : list nat) : bool := lsame Nat.eqb a b.

(* 0 = identical; +1 x_cp differs; +2 c differs; +4 the fixed indices differ; +8 is_gpc_found differs *)
Definition check (r : result) (xcp c : vec) (fixed : list nat) (found : bool) : nat :=
  ((if vbits (r_xcp r) xcp then 0 else 1) + (if vbits (r_c r) c then 0 else 2)
   + (if nat_list_eqb (r_fixed r) fixed then 0 else 4) + (if Bool.eqb (r_found r) found then 0 else 8))%nat.
