(* Bit-exact model, over primitive binary64 floats, of SciPy's pure-Python More'-Thuente line search
   scipy/optimize/_dcsrch.py (SciPy 1.18): DCSRCH._iterate(stp, f, g, task) and dcstep(...).

   One IEEE operation per Python operation, same evaluation order, same comparisons.  The attributes that
   the Python object keeps between calls are the explicit record [state].

   ONE operation of the source is not an IEEE operation: `(theta / s) ** 2` in dcstep.  For np.float64 and for
   Python floats `x ** 2` is the C library's pow(x, 2.0), which is NOT correctly rounded (glibc 2.36: about
   0.09% of the arguments give a result one ulp away from x * x).  It is therefore a parameter [sq] of the model
   (an oracle, like the BLAS dot of the driver model); [sq_mul] is the instance x * x.  Everything proved in
   DcsrchProofs.v holds for every [sq]. *)
From Coq Require Import List Bool Floats.PrimFloat.
Import ListNotations.
Local Open Scope float_scope.

(* ------------------------------------------------------------------------------------------------ *)
(* Tasks                                                                                            *)
(* ------------------------------------------------------------------------------------------------ *)
Inductive warn := WRounding | WXtol | WStpmax | WStpmin.
  (* ROUNDING ERRORS PREVENT PROGRESS | XTOL TEST SATISFIED | STP = STPMAX | STP = STPMIN *)
Inductive err :=
| EStpLtStpmin | EStpGtStpmax | EInitG | EFtol | EGtol | EXtol | EStpmin | EStpmaxLtStpmin
| ENoCall.     (* not a SciPy task: [run_dcsrch] on the empty history *)
Inductive task_in := Start | FG.
Inductive task_out := TFG | TConv | TWarn (w : warn) | TErr (e : err).

(* the four prefixes the client looks at *)
Inductive tkind := KFG | KConv | KWarn | KErr.
Definition kind_of (t : task_out) : tkind :=
  match t with TFG => KFG | TConv => KConv | TWarn _ => KWarn | TErr _ => KErr end.

(* ------------------------------------------------------------------------------------------------ *)
(* Python / NumPy primitives                                                                        *)
(* ------------------------------------------------------------------------------------------------ *)
(* builtin min(a, b) / max(a, b): the first argument unless the second compares smaller / greater *)
Definition pymin (a b : float) : float := if ltb b a then b else a.
Definition pymax (a b : float) : float := if ltb a b then b else a.
Definition pymax3 (a b c : float) : float := pymax (pymax a b) c.
(* np.clip(x, lo, hi) on scalars (umath/clip.cpp): min(max(x, lo), hi), a NaN first argument propagates *)
Definition fclip (x lo hi : float) : float :=
  let m := if is_nan x then x else if ltb lo x then x else lo in
  if is_nan m then m else if ltb m hi then m else hi.
(* np.sign on a float: x > 0 ? 1 : (x < 0 ? -1 : (x == 0 ? 0 : x)) *)
Definition fsign (x : float) : float :=
  if ltb 0 x then 1 else if ltb x 0 then (-1) else if eqb x 0 then 0 else x.

Definition sq_mul (x : float) : float := mul x x.

Definition p5 : float := 0x1p-1.                       (* 0.5  *)
Definition p66 : float := 0x1.51eb851eb851fp-1.         (* 0.66 *)
Definition xtrapl : float := 0x1.199999999999ap+0.      (* 1.1  *)
Definition xtrapu : float := 4.
Definition three : float := 3.
Definition two : float := 2.
Definition mone : float := (-1).

(* ------------------------------------------------------------------------------------------------ *)
(* dcstep                                                                                           *)
(* ------------------------------------------------------------------------------------------------ *)
Record dcres := mkdc {
  d_stx : float; d_fx : float; d_dx : float; d_sty : float; d_fy : float; d_dy : float;
  d_stp : float; d_brackt : bool }.

Section Model.
Variable sq : float -> float.          (* x ** 2, i.e. libm pow(x, 2.0) *)

(* theta = 3 * (fa - fb) / (sb - sa) + da + db *)
Definition theta_of (fa fb sb sa da db : float) : float :=
  add (add (div (mul three (sub fa fb)) (sub sb sa)) da) db.
(* (theta / s) ** 2 - (da / s) * (db / s) *)
Definition radicand (theta s da db : float) : float :=
  sub (sq (div theta s)) (mul (div da s) (div db s)).

Definition dcstep (stx fx dx sty fy dy stp fp dp : float) (brackt : bool) (stpmin stpmax : float) : dcres :=
  let sgn_dp := fsign dp in
  let sgn_dx := fsign dx in
  let sgnd := mul sgn_dp sgn_dx in
  let '(stpf, brackt') :=
    if ltb fx fp then                                           (* fp > fx *)
      let theta := theta_of fx fp stp stx dx dp in
      let s := pymax3 (abs theta) (abs dx) (abs dp) in
      let gamma := mul s (sqrt (radicand theta s dx dp)) in
      let gamma := if ltb stp stx then mul gamma mone else gamma in
      let p := add (sub gamma dx) theta in
      let q := add (add (sub gamma dx) gamma) dp in
      let r := div p q in
      let stpc := add stx (mul r (sub stp stx)) in
      let stpq := add stx (mul (div (div dx (add (div (sub fx fp) (sub stp stx)) dx)) two) (sub stp stx)) in
      let stpf := if leb (abs (sub stpc stx)) (abs (sub stpq stx)) then stpc
                  else add stpc (div (sub stpq stpc) two) in
      (stpf, true)
    else if ltb sgnd 0 then
      let theta := theta_of fx fp stp stx dx dp in
      let s := pymax3 (abs theta) (abs dx) (abs dp) in
      let gamma := mul s (sqrt (radicand theta s dx dp)) in
      let gamma := if ltb stx stp then mul gamma mone else gamma in      (* stp > stx *)
      let p := add (sub gamma dp) theta in
      let q := add (add (sub gamma dp) gamma) dx in
      let r := div p q in
      let stpc := add stp (mul r (sub stx stp)) in
      let stpq := add stp (mul (div dp (sub dp dx)) (sub stx stp)) in
      let stpf := if ltb (abs (sub stpq stp)) (abs (sub stpc stp)) then stpc else stpq in
      (stpf, true)
    else if ltb (abs dp) (abs dx) then
      let theta := theta_of fx fp stp stx dx dp in
      let s := pymax3 (abs theta) (abs dx) (abs dp) in
      let gamma := mul s (sqrt (pymax 0 (radicand theta s dx dp))) in
      let gamma := if ltb stx stp then opp gamma else gamma in
      let p := add (sub gamma dp) theta in
      let q := add (add gamma (sub dx dp)) gamma in
      let r := div p q in
      let stpc := if ltb r 0 && negb (eqb gamma 0) then add stp (mul r (sub stx stp))
                  else if ltb stx stp then stpmax else stpmin in
      let stpq := add stp (mul (div dp (sub dp dx)) (sub stx stp)) in
      let stpf :=
        if brackt then
          let stpf := if ltb (abs (sub stpc stp)) (abs (sub stpq stp)) then stpc else stpq in
          if ltb stx stp then pymin (add stp (mul p66 (sub sty stp))) stpf
          else pymax (add stp (mul p66 (sub sty stp))) stpf
        else
          let stpf := if ltb (abs (sub stpq stp)) (abs (sub stpc stp)) then stpc else stpq in
          fclip stpf stpmin stpmax in
      (stpf, brackt)
    else
      let stpf :=
        if brackt then
          let theta := theta_of fp fy sty stp dy dp in
          let s := pymax3 (abs theta) (abs dy) (abs dp) in
          let gamma := mul s (sqrt (radicand theta s dy dp)) in
          let gamma := if ltb sty stp then opp gamma else gamma in        (* stp > sty *)
          let p := add (sub gamma dp) theta in
          let q := add (add (sub gamma dp) gamma) dy in
          let r := div p q in
          add stp (mul r (sub sty stp))
        else if ltb stx stp then stpmax else stpmin in
      (stpf, brackt) in
  (* Update the interval which contains a minimizer. *)
  if ltb fx fp then mkdc stx fx dx stp fp dp stpf brackt'
  else if ltb sgnd 0 then mkdc stp fp dp stx fx dx stpf brackt'
  else mkdc stp fp dp sty fy dy stpf brackt'.

(* ------------------------------------------------------------------------------------------------ *)
(* DCSRCH._iterate                                                                                  *)
(* ------------------------------------------------------------------------------------------------ *)
Record params := mkpar { p_ftol : float; p_gtol : float; p_xtol : float; p_stpmin : float; p_stpmax : float }.

Record state := mkst {
  brackt : bool; stage1 : bool;       (* stage1 = (self.stage == 1) *)
  ginit : float; gtest : float; gx : float; gy : float;
  finit : float; fx : float; fy : float;
  stx : float; sty : float; stmin : float; stmax : float;
  width : float; width1 : float }.

(* the attributes before the first successful START (None in Python; never read by the model) *)
Definition st0 : state := mkst false true 0 0 0 0 0 0 0 0 0 0 0 0 0.

(* the sequence of `if ...: task = b"ERROR: ..."`: the last test that fires wins *)
Definition start_err (p : params) (stp g : float) : option err :=
  let t := None in
  let t := if ltb stp (p_stpmin p) then Some EStpLtStpmin else t in
  let t := if ltb (p_stpmax p) stp then Some EStpGtStpmax else t in
  let t := if leb 0 g then Some EInitG else t in
  let t := if ltb (p_ftol p) 0 then Some EFtol else t in
  let t := if ltb (p_gtol p) 0 then Some EGtol else t in
  let t := if ltb (p_xtol p) 0 then Some EXtol else t in
  let t := if ltb (p_stpmin p) 0 then Some EStpmin else t in
  let t := if ltb (p_stpmax p) (p_stpmin p) then Some EStpmaxLtStpmin else t in
  t.

Definition start_state (p : params) (stp f g : float) : state :=
  let gt := mul (p_ftol p) g in
  let w := sub (p_stpmax p) (p_stpmin p) in
  mkst false true g gt g g f f f 0 0 0 (add stp (mul xtrapu stp)) w (div w p5).

(* the warning / convergence tests of a non-START call, in source order (the last one that fires wins) *)
Definition exit_task (p : params) (s : state) (stp f g ftest : float) : option task_out :=
  let t := None in
  let t := if brackt s && (leb stp (stmin s) || leb (stmax s) stp) then Some (TWarn WRounding) else t in
  let t := if brackt s && leb (sub (stmax s) (stmin s)) (mul (p_xtol p) (stmax s)) then Some (TWarn WXtol) else t in
  let t := if eqb stp (p_stpmax p) && leb f ftest && leb g (gtest s) then Some (TWarn WStpmax) else t in
  let t := if eqb stp (p_stpmin p) && (ltb ftest f || leb (gtest s) g) then Some (TWarn WStpmin) else t in
  let t := if leb f ftest && leb (abs g) (mul (p_gtol p) (opp (ginit s))) then Some TConv else t in
  t.

Definition set_stage (s : state) (b : bool) : state :=
  mkst (brackt s) b (ginit s) (gtest s) (gx s) (gy s) (finit s) (fx s) (fy s)
       (stx s) (sty s) (stmin s) (stmax s) (width s) (width1 s).

(* the part of a non-START call after the termination test *)
Definition advance (p : params) (s : state) (stp f g ftest : float) : float * state :=
  (* dcstep on the modified function or on the function; afterwards brackt, stx, fx, gx, sty, fy, gy, stp *)
  let '(bk, nstx, nfx, ngx, nsty, nfy, ngy, stp1) :=
    if stage1 s && leb f (fx s) && ltb ftest f then
      let fm := sub f (mul stp (gtest s)) in
      let fxm := sub (fx s) (mul (stx s) (gtest s)) in
      let fym := sub (fy s) (mul (sty s) (gtest s)) in
      let gm := sub g (gtest s) in
      let gxm := sub (gx s) (gtest s) in
      let gym := sub (gy s) (gtest s) in
      let r := dcstep (stx s) fxm gxm (sty s) fym gym stp fm gm (brackt s) (stmin s) (stmax s) in
      (d_brackt r, d_stx r, add (d_fx r) (mul (d_stx r) (gtest s)), add (d_dx r) (gtest s),
       d_sty r, add (d_fy r) (mul (d_sty r) (gtest s)), add (d_dy r) (gtest s), d_stp r)
    else
      let r := dcstep (stx s) (fx s) (gx s) (sty s) (fy s) (gy s) stp f g (brackt s) (stmin s) (stmax s) in
      (d_brackt r, d_stx r, d_fx r, d_dx r, d_sty r, d_fy r, d_dy r, d_stp r) in
  (* Decide if a bisection step is needed *)
  let '(stp2, w, w1) :=
    if bk then
      let stp2 := if leb (mul p66 (width1 s)) (abs (sub nsty nstx))
                  then add nstx (mul p5 (sub nsty nstx)) else stp1 in
      (stp2, abs (sub nsty nstx), width s)
    else (stp1, width s, width1 s) in
  (* Set the minimum and maximum steps allowed for stp *)
  let '(nmin, nmax) :=
    if bk then (pymin nstx nsty, pymax nstx nsty)
    else (add stp2 (mul xtrapl (sub stp2 nstx)), add stp2 (mul xtrapu (sub stp2 nstx))) in
  (* Force the step to be within the bounds stpmax and stpmin *)
  let stp3 := fclip stp2 (p_stpmin p) (p_stpmax p) in
  (* If further progress is not possible, let stp be the best point obtained during the search *)
  let stp4 :=
    if (bk && (leb stp3 nmin || leb nmax stp3)) || (bk && leb (sub nmax nmin) (mul (p_xtol p) nmax))
    then nstx else stp3 in
  (stp4, mkst bk (stage1 s) (ginit s) (gtest s) ngx ngy (finit s) nfx nfy nstx nsty nmin nmax w w1).

Definition iterate (p : params) (s : state) (stp f g : float) (t : task_in) : float * task_out * state :=
  match t with
  | Start =>
      match start_err p stp g with
      | Some e => (stp, TErr e, s)
      | None => (stp, TFG, start_state p stp f g)
      end
  | FG =>
      let ftest := add (finit s) (mul stp (gtest s)) in
      let s := if stage1 s && leb f ftest && leb 0 g then set_stage s false else s in
      match exit_task p s stp f g ftest with
      | Some tk => (stp, tk, s)
      | None => let '(stp', s') := advance p s stp f g ftest in (stp', TFG, s')
      end
  end.

(* ------------------------------------------------------------------------------------------------ *)
(* Replaying a history of inputs                                                                    *)
(* ------------------------------------------------------------------------------------------------ *)
Definition triple := (float * float * float)%type.

(* later calls, each with task FG; an ERROR answer of the START call is kept (in Python a further call on the
   uninitialised object raises TypeError) *)
Fixpoint run_more (p : params) (cur : float * task_out * state) (h : list triple) : float * task_out * state :=
  match h with
  | [] => cur
  | (stp, f, g) :: r =>
      match cur with
      | (_, TErr _, _) => cur
      | (_, _, s) => run_more p (iterate p s stp f g FG) r
      end
  end.

Definition run_full (p : params) (h : list triple) : float * task_out * state :=
  match h with
  | [] => (0%float, TErr ENoCall, st0)
  | (stp, f, g) :: r => run_more p (iterate p st0 stp f g Start) r
  end.

Definition par_of (q : float * float * float * float) : params :=
  let '(ft, gt, xt, stpmax) := q in mkpar ft gt xt 0 stpmax.

(* the form used by the client model: (ftol, gtol, xtol, stpmax), inputs (stp, f, g) fed so far -> last (stp', task) *)
Definition run_dcsrch_full (q : float * float * float * float) (h : list triple) : float * task_out :=
  fst (run_full (par_of q) h).
End Model.

Definition run_dcsrch (sq : float -> float) (q : float * float * float * float) (h : list triple) : float * task_out :=
  run_dcsrch_full sq q h.
Definition run_dcsrch_mul := run_dcsrch sq_mul.

(* ------------------------------------------------------------------------------------------------ *)
(* Helpers of the correspondence run                                                                *)
(* ------------------------------------------------------------------------------------------------ *)
Definition fsame (a b : float) : bool := eqb a b || (is_nan a && is_nan b).

(* pow(x, 2.0) as recorded from the C library; an argument that was never recorded gives NaN *)
Fixpoint sq_table (t : list (float * float)) (x : float) : float :=
  match t with
  | [] => nan
  | (a, v) :: r => if fsame a x then v else sq_table r x
  end.

Definition kind_eqb (a b : tkind) : bool :=
  match a, b with KFG, KFG | KConv, KConv | KWarn, KWarn | KErr, KErr => true | _, _ => false end.

(* full task codes used by the correspondence: 0 FG, 1 CONV, 2..5 warnings, 10.. errors *)
Definition task_code (t : task_out) : nat :=
  (match t with
  | TFG => 0 | TConv => 1
  | TWarn WRounding => 2 | TWarn WXtol => 3 | TWarn WStpmax => 4 | TWarn WStpmin => 5
  | TErr EStpLtStpmin => 10 | TErr EStpGtStpmax => 11 | TErr EInitG => 12 | TErr EFtol => 13
  | TErr EGtol => 14 | TErr EXtol => 15 | TErr EStpmin => 16 | TErr EStpmaxLtStpmin => 17
  | TErr ENoCall => 99
  end)%nat.

(* outputs of run_dcsrch on every non-empty prefix of a history *)
Fixpoint prefixes_out (sq : float -> float) (q : float * float * float * float) (pre rest : list triple)
  : list (float * task_out) :=
  match rest with
  | [] => []
  | e :: r => let pre' := pre ++ [e] in run_dcsrch sq q pre' :: prefixes_out sq q pre' r
  end.

(* number of positions at which the outputs differ from the expected (stp', task code) list; 0 = agreement *)
Fixpoint count_diff (out : list (float * task_out)) (exp : list (float * nat)) : nat :=
  match out, exp with
  | [], [] => 0%nat
  | (s, t) :: o, (s', c) :: e =>
      ((if fsame s s' && Nat.eqb (task_code t) c then 0 else 1) + count_diff o e)%nat
  | _, _ => 1%nat
  end.

Definition check_history (sq : float -> float) (q : float * float * float * float) (h : list triple)
  (exp : list (float * nat)) : nat :=
  count_diff (prefixes_out sq q [] h) exp.
