(* BenchLib.v -- hand-written.
   The small vector language into which translate_bench.py renders
   lbfgsb/benchmarks.py (file Bench.v), together with the generic calculus
   lemmas (proved once, by induction on lists) used by BenchProofs.v.

   Reading of the NumPy constructs (1-D arrays = lists of reals):
     a (op) b, both arrays          map2 op a b
     s (op) a / a (op) s, s scalar   map (fun u => s op u) a / map (fun u => u op s) a
     np.f(a)                         map f a
     a.sum(), np.prod(a)             vsum a, vprod a
     a[1:], a[:-1]                   tl a, removelast a
     np.arange(1, n + 1)             arange n
     np.zeros_like(a), np.zeros(n)   zeros (length a), zeros n
     g[:-1] += e ; g[1:] += e        acc_init g e ; acc_tail g e
     a.size                          length a   (INR (length a) in real context)
*)
From Coq Require Import Reals Lra Lia List.
From Coquelicot Require Import Coquelicot.
Import ListNotations.
Open Scope R_scope.

(* ------------------------------------------------------------------ *)
(** * The vector language *)

Fixpoint map2 {A B C : Type} (f : A -> B -> C) (l1 : list A) (l2 : list B) : list C :=
  match l1, l2 with
  | a :: t1, b :: t2 => f a b :: map2 f t1 t2
  | _, _ => []
  end.

Definition vsum (l : list R) : R := fold_right Rplus 0 l.
Definition vprod (l : list R) : R := fold_right Rmult 1 l.
Definition arange (n : nat) : list R := map INR (seq 1 n).
Definition zeros (n : nat) : list R := repeat 0 n.
(* g[:-1] += e   and   g[1:] += e *)
Definition acc_init (g e : list R) : list R := map2 Rplus g (e ++ [0]).
Definition acc_tail (g e : list R) : list R := map2 Rplus g (0 :: e).

(* x with its i-th coordinate replaced by t *)
Fixpoint upd (x : list R) (i : nat) (t : R) : list R :=
  match x, i with
  | [], _ => []
  | _ :: xs, O => t :: xs
  | a :: xs, S k => a :: upd xs k t
  end.

(* ------------------------------------------------------------------ *)
(** * Lengths *)

Lemma map2_length {A B C} (f : A -> B -> C) l1 l2 :
  length (map2 f l1 l2) = Nat.min (length l1) (length l2).
Proof.
  revert l2; induction l1 as [|a t1 IH]; intros [|b t2]; simpl; auto.
Qed.

Lemma tl_length {A} (l : list A) : length (tl l) = (length l - 1)%nat.
Proof. destruct l; simpl; lia. Qed.

Lemma removelast_length' {A} (l : list A) : length (removelast l) = (length l - 1)%nat.
Proof.
  induction l as [|a l IH]; simpl; auto.
  destruct l as [|b l]; simpl in *; auto. rewrite IH. lia.
Qed.

Lemma arange_length n : length (arange n) = n.
Proof. unfold arange. now rewrite map_length, seq_length. Qed.

Lemma zeros_length n : length (zeros n) = n.
Proof. apply repeat_length. Qed.

Lemma upd_length x i t : length (upd x i t) = length x.
Proof. revert i; induction x as [|a xs IH]; intros [|k]; simpl; auto. Qed.

Lemma acc_init_length g e :
  length (acc_init g e) = Nat.min (length g) (length e + 1).
Proof. unfold acc_init. now rewrite map2_length, app_length. Qed.

Lemma acc_tail_length g e :
  length (acc_tail g e) = Nat.min (length g) (S (length e)).
Proof. unfold acc_tail. now rewrite map2_length. Qed.

#[export] Hint Rewrite @map_length @map2_length @tl_length @removelast_length'
  @app_length arange_length zeros_length upd_length acc_init_length
  acc_tail_length : vlen.

(* decides (in)equalities between lengths of vector expressions *)
Ltac vlen := autorewrite with vlen; cbn [length]; lia.

(* ------------------------------------------------------------------ *)
(** * Coordinates ([nth] with default 0) *)

Lemma nth_map0 (f : R -> R) l i :
  (i < length l)%nat -> nth i (map f l) 0 = f (nth i l 0).
Proof.
  revert i; induction l as [|a l IH]; intros [|k] H; simpl in *; try lia; auto.
  apply IH; lia.
Qed.

Lemma nth_map2 (f : R -> R -> R) l1 l2 i :
  (i < length l1)%nat -> (i < length l2)%nat ->
  nth i (map2 f l1 l2) 0 = f (nth i l1 0) (nth i l2 0).
Proof.
  revert l2 i; induction l1 as [|a t1 IH]; intros [|b t2] [|k] H1 H2;
    simpl in *; try lia; auto.
  apply IH; lia.
Qed.

Lemma nth_tl (l : list R) i : nth i (tl l) 0 = nth (S i) l 0.
Proof. destruct l; simpl; auto. destruct i; auto. Qed.

Lemma nth_removelast (l : list R) i :
  (i < length l - 1)%nat -> nth i (removelast l) 0 = nth i l 0.
Proof.
  revert i; induction l as [|a l IH]; intros i H; simpl in H; [lia|].
  destruct l as [|b l]; [simpl in H; lia|].
  destruct i as [|k]; [reflexivity|].
  change (nth k (removelast (b :: l)) 0 = nth k (b :: l) 0).
  apply IH. simpl in *. lia.
Qed.

Lemma nth_zeros n i : nth i (zeros n) 0 = 0.
Proof.
  unfold zeros. revert i; induction n as [|n IH]; intros [|k]; simpl; auto.
Qed.

Lemma nth_snoc0 (e : list R) i : nth i (e ++ [0]) 0 = nth i e 0.
Proof.
  revert i; induction e as [|a e IH]; intros [|k]; simpl; auto.
  destruct k; auto.
Qed.

Lemma nth_acc_init g e i :
  (i < length g)%nat -> (i < S (length e))%nat ->
  nth i (acc_init g e) 0 = nth i g 0 + nth i e 0.
Proof.
  intros Hg He. unfold acc_init.
  rewrite nth_map2; [now rewrite nth_snoc0 | exact Hg |].
  rewrite app_length; simpl; lia.
Qed.

Lemma nth_acc_tail g e i :
  (i < length g)%nat -> (i < S (length e))%nat ->
  nth i (acc_tail g e) 0
  = nth i g 0 + match i with O => 0 | S k => nth k e 0 end.
Proof.
  intros Hg He. unfold acc_tail.
  rewrite nth_map2; [ | exact Hg | simpl; lia].
  destruct i; reflexivity.
Qed.

Lemma nth_arange n i : (i < n)%nat -> nth i (arange n) 0 = INR (S i).
Proof.
  intros H. unfold arange.
  change 0 with (INR 0). rewrite (map_nth INR).
  now rewrite seq_nth.
Qed.

Lemma nth_upd_same x i t : (i < length x)%nat -> nth i (upd x i t) 0 = t.
Proof.
  revert i; induction x as [|a xs IH]; intros [|k] H; simpl in *; try lia; auto.
  apply IH; lia.
Qed.

Lemma upd_same x i : upd x i (nth i x 0) = x.
Proof.
  revert i; induction x as [|a xs IH]; intros [|k]; simpl; auto.
  now rewrite IH.
Qed.

(* two lists of reals with the same length and the same coordinates are equal *)
Lemma list_eq_nth (l1 l2 : list R) :
  length l1 = length l2 ->
  (forall j, (j < length l1)%nat -> nth j l1 0 = nth j l2 0) ->
  l1 = l2.
Proof.
  revert l2; induction l1 as [|a t1 IH]; intros [|b t2] HL HN; simpl in HL;
    try discriminate; auto.
  f_equal.
  - apply (HN 0%nat). simpl; lia.
  - apply IH; [lia|]. intros j Hj. apply (HN (S j)). simpl; lia.
Qed.

Lemma nth_over (l : list R) i : (length l <= i)%nat -> nth i l 0 = 0.
Proof. apply nth_overflow. Qed.

(* Push [nth] through the vector operations.  For every [nth i l 0] the
   context must decide whether i is in range (then nth is pushed inside) or
   not (then the default 0 is returned). *)
Ltac vnth1 :=
  match goal with
  | |- context [nth ?i (acc_init ?g ?e) 0] => rewrite (nth_acc_init g e i) by vlen
  | |- context [nth ?i (acc_tail ?g ?e) 0] => rewrite (nth_acc_tail g e i) by vlen
  | |- context [nth ?i (map2 ?f ?a ?b) 0] =>
      first [ rewrite (nth_map2 f a b i) by vlen
            | rewrite (nth_over (map2 f a b) i) by vlen ]
  | |- context [nth ?i (map ?f ?l) 0] =>
      first [ rewrite (nth_map0 f l i) by vlen
            | rewrite (nth_over (map f l) i) by vlen ]
  | |- context [nth ?i (removelast ?l) 0] =>
      first [ rewrite (nth_removelast l i) by vlen
            | rewrite (nth_over (removelast l) i) by vlen ]
  | |- context [nth ?i (tl ?l) 0] => rewrite (nth_tl l i)
  | |- context [nth ?i (zeros ?n) 0] => rewrite (nth_zeros n i)
  end.
Ltac vnth := repeat vnth1; cbv beta iota.

(* prove  l1 = l2  coordinate-wise; leaves the scalar identity *)
Ltac vext j Hj :=
  apply list_eq_nth; [ vlen | intros j Hj; autorewrite with vlen in Hj; vnth ].

(* ------------------------------------------------------------------ *)
(** * R-specialised derivative rules (avoid [zero]/[0] unification failures) *)

Lemma dplus (f g : R -> R) x df dg :
  is_derive f x df -> is_derive g x dg -> is_derive (fun t => f t + g t) x (df + dg).
Proof. intros; now apply @is_derive_plus. Qed.

Lemma dconst (a x : R) : is_derive (fun _ : R => a) x 0.
Proof. apply @is_derive_const. Qed.

Lemma dmult (f g : R -> R) x df dg :
  is_derive f x df -> is_derive g x dg ->
  is_derive (fun t => f t * g t) x (df * g x + f x * dg).
Proof.
  intros Hf Hg.
  evar_last. apply (is_derive_mult f g x df dg Hf Hg).
  - intros a b. apply Rmult_comm.
  - unfold plus, mult; simpl. ring.
Qed.

(* ------------------------------------------------------------------ *)
(** * (a) Separable sums   d/dx_i  sum_j h(x_j)  and  sum_j g(w_j, x_j) *)

Lemma sep_sum_derive (h : R -> R) x i d :
  (i < length x)%nat ->
  is_derive h (nth i x 0) d ->
  is_derive (fun t => vsum (map h (upd x i t))) (nth i x 0) d.
Proof.
  revert i; induction x as [|a xs IH]; intros i Hi Hh; simpl in Hi; [lia|].
  destruct i as [|k]; simpl in *.
  - replace d with (d + 0) by ring.
    apply (dplus h (fun _ => vsum (map h xs))); [exact Hh | apply dconst].
  - replace d with (0 + d) by ring.
    apply (dplus (fun _ => h a) (fun t => vsum (map h (upd xs k t)))); [apply dconst|].
    apply IH; [lia | exact Hh].
Qed.

Lemma wsep_sum_derive (g : R -> R -> R) w x i d :
  (i < length x)%nat -> (i < length w)%nat ->
  is_derive (g (nth i w 0)) (nth i x 0) d ->
  is_derive (fun t => vsum (map2 g w (upd x i t))) (nth i x 0) d.
Proof.
  revert w i; induction x as [|a xs IH]; intros w i Hi Hw Hg; simpl in Hi; [lia|].
  destruct w as [|c ws]; simpl in Hw; [lia|].
  destruct i as [|k]; simpl in *.
  - replace d with (d + 0) by ring.
    apply (dplus (g c) (fun _ => vsum (map2 g ws xs))); [exact Hg | apply dconst].
  - replace d with (0 + d) by ring.
    apply (dplus (fun _ => g c a) (fun t => vsum (map2 g ws (upd xs k t)))); [apply dconst|].
    apply IH; [lia | lia | exact Hg].
Qed.

(* ------------------------------------------------------------------ *)
(** * (c) Products   d/dx_i  prod_j g(w_j, x_j)   (written, as the code does,
      as the full product divided by the i-th factor) *)

Lemma wprod_derive (g : R -> R -> R) w x i d :
  (i < length x)%nat -> (i < length w)%nat ->
  g (nth i w 0) (nth i x 0) <> 0 ->
  is_derive (g (nth i w 0)) (nth i x 0) d ->
  is_derive (fun t => vprod (map2 g w (upd x i t))) (nth i x 0)
            (d * (vprod (map2 g w x) / g (nth i w 0) (nth i x 0))).
Proof.
  revert w i; induction x as [|a xs IH]; intros w i Hi Hw Hnz Hg; simpl in Hi; [lia|].
  destruct w as [|c ws]; simpl in Hw; [lia|].
  destruct i as [|k]; simpl in *.
  - evar_last.
    + apply (dmult (g c) (fun _ => vprod (map2 g ws xs))); [exact Hg | apply dconst].
    + simpl. field. exact Hnz.
  - evar_last.
    + apply (dmult (fun _ => g c a) (fun t => vprod (map2 g ws (upd xs k t)))).
      * apply dconst.
      * apply IH; [lia | lia | exact Hnz | exact Hg].
    + simpl. field. exact Hnz.
Qed.

(* ------------------------------------------------------------------ *)
(** * (b) Chained sums   d/dx_i  sum_j phi(x_j, x_{j+1})
      = d1 phi(x_i, x_{i+1}) [i < n-1]  +  d2 phi(x_{i-1}, x_i) [i >= 1].
      With default-0 [nth] the first bracket is automatic. *)

Lemma chain_cons2 {C} (f : R -> R -> C) a b xs :
  map2 f (removelast (a :: b :: xs)) (tl (a :: b :: xs))
  = f a b :: map2 f (removelast (b :: xs)) (tl (b :: xs)).
Proof. reflexivity. Qed.

Lemma chain_sum_derive (phi phi1 phi2 : R -> R -> R) :
  (forall a b, is_derive (fun u => phi u b) a (phi1 a b)) ->
  (forall a b, is_derive (fun v => phi a v) b (phi2 a b)) ->
  forall x i, (i < length x)%nat ->
  is_derive (fun t => vsum (map2 phi (removelast (upd x i t)) (tl (upd x i t))))
            (nth i x 0)
            (nth i (map2 phi1 (removelast x) (tl x)) 0
             + match i with
               | O => 0
               | S k => nth k (map2 phi2 (removelast x) (tl x)) 0
               end).
Proof.
  intros H1 H2 x.
  induction x as [|a xs IH]; intros i Hi; [simpl in Hi; lia|].
  destruct xs as [|b xs'].
  - (* a single coordinate: the sum is empty *)
    destruct i as [|k]; [|simpl in Hi; lia].
    simpl. replace (0 + 0) with 0 by ring. apply dconst.
  - destruct i as [|k].
    + (* i = 0 : only phi(t, b) depends on t *)
      cbn [upd nth]. rewrite chain_cons2. cbn [nth].
      apply (is_derive_ext
               (fun t => phi t b + vsum (map2 phi (removelast (b :: xs')) (tl (b :: xs'))))).
      { intros t. rewrite chain_cons2. reflexivity. }
      apply (dplus (fun t => phi t b)); [apply H1 | apply dconst].
    + assert (Hk : (k < length (b :: xs'))%nat) by (simpl in *; lia).
      specialize (IH k Hk).
      rewrite !chain_cons2.
      change (nth (S k) (a :: b :: xs') 0) with (nth k (b :: xs') 0).
      cbn [nth].
      destruct k as [|k'].
      * (* i = 1 : phi(a, t) and the tail both depend on t *)
        cbn [nth] in *.
        apply (is_derive_ext
                 (fun t => phi a t
                   + vsum (map2 phi (removelast (upd (b :: xs') 0 t)) (tl (upd (b :: xs') 0 t))))).
        { intros t. cbn [upd]. rewrite chain_cons2. reflexivity. }
        evar_last.
        { apply (dplus (fun t => phi a t)); [apply H2 | exact IH]. }
        ring.
      * (* i >= 2 : only the tail depends on t *)
        apply (is_derive_ext
                 (fun t => phi a b
                   + vsum (map2 phi (removelast (upd (b :: xs') (S k') t))
                                    (tl (upd (b :: xs') (S k') t))))).
        { intros t. cbn [upd]. rewrite chain_cons2. reflexivity. }
        evar_last.
        { apply (dplus (fun _ => phi a b)); [apply dconst | exact IH]. }
        cbn [nth]. ring.
Qed.

(* ------------------------------------------------------------------ *)
(** * Small facts *)

Lemma vsum_sqr_nonneg x : 0 <= vsum (map Rsqr x).
Proof.
  induction x as [|a xs IH]; simpl; [lra|].
  pose proof (Rle_0_sqr a). lra.
Qed.

Lemma vsum_sqr_pos_length x : vsum (map Rsqr x) <> 0 -> (0 < length x)%nat.
Proof. destruct x; simpl; [intros H; now elim H | lia]. Qed.

(* ------------------------------------------------------------------ *)
(** * Composition with opaque differentiable functions.
   After [auto_derive] on a goal mentioning an opaque [S : R -> R] with
   [HS : is_derive S t d], [ex_derive S t] is closed by [derive_ex HS] and the
   occurrences of [Derive (fun u => S u) t] are replaced by [d] with
   [derive_subst HS]. *)

Ltac derive_ex HS := eexists; exact HS.

Ltac derive_subst HS :=
  match type of HS with
  | is_derive _ ?t ?d =>
    match goal with
    | |- context [Derive ?F t] =>
      replace (Derive F t) with d by (symmetry; apply is_derive_unique; exact HS)
    end
  end.
