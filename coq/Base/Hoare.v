(* Reasoning rules for the trace-writer / error monad of Base/Res.v.
   [hoare Pev m R]  : every event m emitted satisfies Pev (whatever the outcome), and a value outcome satisfies R.
   [hoareT m R]     : if m yields value a with trace t then R a t (relation between value and trace). *)
From Coq Require Import List.
From LBFGSB Require Import Base.Res.
Import ListNotations.

Section Hoare.
  Context {E : Type}.

  Definition hoare {A} (Pev : E -> Prop) (m : M E A) (R : A -> Prop) : Prop :=
    Forall Pev (snd m) /\ forall a, fst m = Ok a -> R a.

  Lemma hoare_ret {A} (Pev : E -> Prop) (a : A) (R : A -> Prop) : R a -> hoare Pev (ret a) R.
  Proof. intros H. split; [constructor|]. cbn. intros b Hb. inversion Hb; subst; exact H. Qed.

  Lemma hoare_raise {A} (Pev : E -> Prop) e (R : A -> Prop) : hoare Pev (raise e) R.
  Proof. split; [constructor|]. cbn. intros b Hb. discriminate. Qed.

  Lemma hoare_fuel {A} (Pev : E -> Prop) (R : A -> Prop) : hoare Pev (OutOfFuel, []) R.
  Proof. split; [constructor|]. cbn. intros b Hb. discriminate. Qed.

  Lemma hoare_call {A} (Pev : E -> Prop) (r : res A) (ev : E) (R : A -> Prop) :
    Pev ev -> (forall a, r = Ok a -> R a) -> hoare Pev (call r ev) R.
  Proof. intros H1 H2. split; cbn; [repeat constructor; exact H1|exact H2]. Qed.

  Lemma hoare_bind {A B} (Pev : E -> Prop) (m : M E A) (f : A -> M E B) (R1 : A -> Prop) (R2 : B -> Prop) :
    hoare Pev m R1 -> (forall a, R1 a -> hoare Pev (f a) R2) -> hoare Pev (bind m f) R2.
  Proof.
    intros [F1 H1] Hf. unfold bind. destruct m as [[a|e|] t]; cbn in *.
    - specialize (Hf a (H1 a eq_refl)). destruct (f a) as [r t2]. destruct Hf as [F2 H2]. cbn in *.
      split; [apply Forall_app; auto|exact H2].
    - split; [exact F1|intros; discriminate].
    - split; [exact F1|intros; discriminate].
  Qed.

  Lemma hoare_weaken {A} (Pev : E -> Prop) (m : M E A) (R1 R2 : A -> Prop) :
    hoare Pev m R1 -> (forall a, R1 a -> R2 a) -> hoare Pev m R2.
  Proof. intros [F1 H1] H. split; auto. Qed.

  Lemma hoare_conj {A} (Pev : E -> Prop) (m : M E A) (R1 R2 : A -> Prop) :
    hoare Pev m R1 -> hoare Pev m R2 -> hoare Pev m (fun a => R1 a /\ R2 a).
  Proof. intros [F1 H1] [F2 H2]. split; auto. Qed.

  Lemma hoare_events {A} (Pev : E -> Prop) (m : M E A) R : hoare Pev m R -> Forall Pev (snd m).
  Proof. intros [H _]; exact H. Qed.

  Lemma hoare_value {A} (Pev : E -> Prop) (m : M E A) R a t : hoare Pev m R -> m = (Ok a, t) -> R a /\ Forall Pev t.
  Proof. intros [H1 H2] ->. cbn in *. split; auto. Qed.

  (* value / trace relation *)
  Definition hoareT {A} (m : M E A) (R : A -> list E -> Prop) : Prop := forall a t, m = (Ok a, t) -> R a t.

  Lemma hoareT_ret {A} (a : A) (R : A -> list E -> Prop) : R a [] -> hoareT (ret a) R.
  Proof. intros H b t Hb. inversion Hb; subst; exact H. Qed.

  Lemma hoareT_call {A} (r : res A) (ev : E) (R : A -> list E -> Prop) :
    (forall a, r = Ok a -> R a [ev]) -> hoareT (call r ev) R.
  Proof. intros H b t Hb. unfold call in Hb. inversion Hb; subst. apply H; reflexivity. Qed.

  Lemma hoareT_bind {A B} (m : M E A) (f : A -> M E B) (R1 : A -> list E -> Prop) (R2 : B -> list E -> Prop) :
    hoareT m R1 -> (forall a t1, R1 a t1 -> hoareT (f a) (fun b t2 => R2 b (t1 ++ t2))) -> hoareT (bind m f) R2.
  Proof.
    intros H1 Hf b t Hb. apply bind_ok_inv in Hb as (a & t1 & t2 & Hm & Hfa & ->).
    exact (Hf a t1 (H1 a t1 Hm) b t2 Hfa).
  Qed.

  Lemma hoareT_weaken {A} (m : M E A) (R1 R2 : A -> list E -> Prop) :
    hoareT m R1 -> (forall a t, R1 a t -> R2 a t) -> hoareT m R2.
  Proof. intros H1 H a t Hm. auto. Qed.

  Lemma hoareT_raise {A} e (R : A -> list E -> Prop) : hoareT (raise e) R.
  Proof. intros a t H. discriminate. Qed.

  Lemma hoareT_fuel {A} (R : A -> list E -> Prop) : hoareT (OutOfFuel, []) R.
  Proof. intros a t H. discriminate. Qed.
End Hoare.

(* embedding of a sub-component's events *)
Lemma hoare_lift {E E' A} (g : E' -> E) (Pev : E -> Prop) (Pev' : E' -> Prop) (m : M E' A) (R : A -> Prop) :
  (forall e, Pev' e -> Pev (g e)) -> hoare Pev' m R -> hoare Pev (lift g m) R.
Proof.
  intros Hg [F1 H1]. split; cbn.
  - induction F1; cbn; constructor; auto.
  - exact H1.
Qed.

Lemma hoareT_lift {E E' A} (g : E' -> E) (m : M E' A) (R' : A -> list E' -> Prop) (R : A -> list E -> Prop) :
  (forall a t, R' a t -> R a (map g t)) -> hoareT m R' -> hoareT (lift g m) R.
Proof.
  intros Hg H a t Hm. unfold lift in Hm. destruct m as [r t']. cbn in Hm. inversion Hm; subst. apply Hg, H. reflexivity.
Qed.
