(* Two computations of the trace-writer / error monad that have the same outcome and the same trace up to the erasure of the
   events rejected by [keep]. *)
From Coq Require Import List.
From LBFGSB Require Import Base.Res.
Import ListNotations.

Section Sim.
  Context {E : Type} (keep : E -> bool).
  Definition erase (t : list E) : list E := filter keep t.
  Definition sim {A} (m1 m2 : M E A) : Prop := fst m1 = fst m2 /\ erase (snd m1) = erase (snd m2).

  Lemma erase_app a b : erase (a ++ b) = erase a ++ erase b.
  Proof. unfold erase. apply filter_app. Qed.

  Lemma sim_refl {A} (m : M E A) : sim m m.
  Proof. split; reflexivity. Qed.

  Lemma sim_trans {A} (m1 m2 m3 : M E A) : sim m1 m2 -> sim m2 m3 -> sim m1 m3.
  Proof. intros [A1 A2] [B1 B2]. split; congruence. Qed.

  Lemma sim_bind {A B} (m1 m2 : M E A) (f1 f2 : A -> M E B) :
    sim m1 m2 -> (forall a, fst m1 = Ok a -> sim (f1 a) (f2 a)) -> sim (bind m1 f1) (bind m2 f2).
  Proof.
    intros [H1 H2] Hf. unfold bind. destruct m1 as [r1 t1], m2 as [r2 t2]. cbn [fst snd] in *. subst r2.
    destruct r1 as [a|e|].
    - specialize (Hf a eq_refl). destruct (f1 a) as [x1 u1], (f2 a) as [x2 u2]. destruct Hf as [F1 F2]. cbn [fst snd] in *.
      split; cbn [fst snd]; [exact F1|]. rewrite !erase_app, H2, F2. reflexivity.
    - split; cbn [fst snd]; [reflexivity|exact H2].
    - split; cbn [fst snd]; [reflexivity|exact H2].
  Qed.

  (* a call whose event is erased, against nothing *)
  Lemma sim_erased_call {A B} (a : A) (ev : E) (f1 : A -> M E B) (m2 : M E B) : keep ev = false -> sim (f1 a) m2 ->
    sim (bind (call (Ok a) ev) f1) m2.
  Proof.
    intros Hk [F1 F2]. unfold bind, call. destruct (f1 a) as [x1 u1]. cbn [fst snd] in *. split; cbn [fst snd]; [exact F1|].
    rewrite erase_app. unfold erase at 1. cbn [filter]. rewrite Hk. exact F2.
  Qed.
End Sim.
