(* Order lemmas on primitive binary64 floats (PF.ltb / PF.leb / PF.eqb / PF.is_nan) and
   the neutrality of 1 for PF.mul, derived from the FloatAxioms specification through
   Flocq's IEEE754.PrimFloat bridge.  No axioms besides those of the standard library / Flocq. *)
From Coq Require Import Reals ZArith Lra Lia Bool.
From Coq Require PrimFloat FloatAxioms.
From Flocq Require Import Core.Core IEEE754.BinarySingleNaN.
From Flocq Require IEEE754.PrimFloat.
Module PF := Coq.Floats.PrimFloat.
Module FP := Flocq.IEEE754.PrimFloat.
Notation bf := (binary_float FloatOps.prec FloatOps.emax).
Notation flt := PF.float.

(* ------------------------------------------------------------------------------------ *)
(* key : non-NaN floats into (Z * R), lexicographic; infinities at -1 / +1              *)
(* ------------------------------------------------------------------------------------ *)

Definition key (b : bf) : option (Z * R) :=
  match b with
  | B754_nan => None
  | B754_infinity true => Some ((-1)%Z, 0%R)
  | B754_infinity false => Some (1%Z, 0%R)
  | _ => Some (0%Z, B2R b)
  end.
Definition klt (a b : Z * R) : Prop := (fst a < fst b)%Z \/ (fst a = fst b /\ (snd a < snd b)%R).
Definition kle (a b : Z * R) : Prop := (fst a < fst b)%Z \/ (fst a = fst b /\ (snd a <= snd b)%R).
Definition keq (a b : Z * R) : Prop := fst a = fst b /\ snd a = snd b.

Definition kcmp (a b : Z * R) : comparison :=
  match (fst a ?= fst b)%Z with Eq => Rcompare (snd a) (snd b) | c => c end.

Definition ocmp (x y : option (Z * R)) : option comparison :=
  match x, y with Some a, Some b => Some (kcmp a b) | _, _ => None end.

Lemma key_fin (b : bf) : is_finite b = true -> key b = Some (0%Z, B2R b).
Proof. destruct b as [s|s| |s m e H]; simpl; try discriminate; reflexivity. Qed.

Lemma key_nan (b : bf) : key b = None <-> b = B754_nan.
Proof. destruct b as [s|[|]| |s m e H]; simpl; split; intros; try discriminate; auto. Qed.

Lemma Bcompare_key (x y : bf) : Bcompare x y = ocmp (key x) (key y).
Proof.
  destruct (is_finite x) eqn:Fx; destruct (is_finite y) eqn:Fy.
  - rewrite (Bcompare_correct _ _ x y Fx Fy), (key_fin _ Fx), (key_fin _ Fy).
    reflexivity.
  - destruct x as [sx|sx| |sx mx ex Hx]; destruct y as [sy|[|]| |sy my ey Hy]; try discriminate;
      try reflexivity; destruct sx; reflexivity.
  - destruct x as [sx|[|]| |sx mx ex Hx]; destruct y as [sy|sy| |sy my ey Hy]; try discriminate;
      try reflexivity; destruct sy; reflexivity.
  - destruct x as [sx|[|]| |sx mx ex Hx]; destruct y as [sy|[|]| |sy my ey Hy]; try discriminate;
      try reflexivity; unfold Bcompare, ocmp, kcmp; simpl; rewrite Rcompare_Eq; reflexivity.
Qed.

Lemma kcmp_Lt a b : kcmp a b = Lt <-> klt a b.
Proof.
  unfold kcmp, klt. destruct (Z.compare_spec (fst a) (fst b)); destruct (Rcompare_spec (snd a) (snd b));
    split; intros; try discriminate; try reflexivity; try lia; try (right; split; [lia|lra]);
    try (left; lia); try (destruct H1 as [H1|[H1 H2]]; try lia; try lra);
    try (destruct H0 as [H0|[H0 H2]]; try lia; try lra).
Qed.

Lemma kcmp_Eq a b : kcmp a b = Eq <-> keq a b.
Proof.
  unfold kcmp, keq. destruct (Z.compare_spec (fst a) (fst b)); destruct (Rcompare_spec (snd a) (snd b));
    split; intros; try discriminate; try reflexivity; try (split; [lia|lra]);
    try (destruct H1 as [H1 H2]; try lia; try lra);
    try (destruct H0 as [H0 H2]; try lia; try lra).
Qed.

Lemma kcmp_Gt a b : kcmp a b = Gt <-> klt b a.
Proof.
  unfold kcmp, klt. destruct (Z.compare_spec (fst a) (fst b)); destruct (Rcompare_spec (snd a) (snd b));
    split; intros; try discriminate; try reflexivity; try lia; try (right; split; [lia|lra]);
    try (left; lia); try (destruct H1 as [H1|[H1 H2]]; try lia; try lra);
    try (destruct H0 as [H0|[H0 H2]]; try lia; try lra).
Qed.

(* option-lifted relations: a NaN (key None) is related to nothing *)
Definition oklt (x y : option (Z * R)) : Prop :=
  match x, y with Some a, Some b => klt a b | _, _ => False end.
Definition okle (x y : option (Z * R)) : Prop :=
  match x, y with Some a, Some b => kle a b | _, _ => False end.
Definition okeq (x y : option (Z * R)) : Prop :=
  match x, y with Some a, Some b => keq a b | _, _ => False end.

Lemma kle_lt_eq a b : kle a b <-> klt a b \/ keq a b.
Proof.
  unfold kle, klt, keq. split.
  - intros [H|[H1 [H2|H2]]]; auto.
  - intros [[H|[H1 H2]]|[H1 H2]]; auto; right; split; auto; lra.
Qed.

Lemma Bltb_okey (x y : bf) : Bltb x y = true <-> oklt (key x) (key y).
Proof.
  change (Bltb x y) with (match Bcompare x y with Some Lt => true | _ => false end).
  rewrite Bcompare_key. destruct (key x) as [a|], (key y) as [b|]; simpl; try (split; [discriminate|tauto]).
  rewrite <- kcmp_Lt. destruct (kcmp a b); split; intros; try discriminate; reflexivity.
Qed.

Lemma Beqb_okey (x y : bf) : Beqb x y = true <-> okeq (key x) (key y).
Proof.
  change (Beqb x y) with (match Bcompare x y with Some Eq => true | _ => false end).
  rewrite Bcompare_key. destruct (key x) as [a|], (key y) as [b|]; simpl; try (split; [discriminate|tauto]).
  rewrite <- kcmp_Eq. destruct (kcmp a b); split; intros; try discriminate; reflexivity.
Qed.

Lemma Bleb_okey (x y : bf) : Bleb x y = true <-> okle (key x) (key y).
Proof.
  change (Bleb x y) with (match Bcompare x y with Some (Lt | Eq) => true | _ => false end).
  rewrite Bcompare_key. destruct (key x) as [a|], (key y) as [b|]; simpl; try (split; [discriminate|tauto]).
  rewrite kle_lt_eq, <- kcmp_Lt, <- kcmp_Eq.
  destruct (kcmp a b); split; intros; try discriminate; try reflexivity; auto.
  destruct H; discriminate.
Qed.

(* compatibility with the probe's statement *)
Lemma Bltb_key (x y : bf) a b : key x = Some a -> key y = Some b -> (Bltb x y = true <-> klt a b).
Proof. intros Ha Hb. rewrite Bltb_okey, Ha, Hb. reflexivity. Qed.

Lemma Bleb_key (x y : bf) a b : key x = Some a -> key y = Some b -> (Bleb x y = true <-> kle a b).
Proof. intros Ha Hb. rewrite Bleb_okey, Ha, Hb. reflexivity. Qed.

(* ------------------------------------------------------------------------------------ *)
(* Primitive floats                                                                     *)
(* ------------------------------------------------------------------------------------ *)

Definition pkey (f : flt) : option (Z * R) := key (FP.Prim2B f).

Lemma ltb_iff a b : PF.ltb a b = true <-> oklt (pkey a) (pkey b).
Proof. rewrite FP.ltb_equiv. apply Bltb_okey. Qed.

Lemma leb_iff a b : PF.leb a b = true <-> okle (pkey a) (pkey b).
Proof. rewrite FP.leb_equiv. apply Bleb_okey. Qed.

Lemma eqb_iff a b : PF.eqb a b = true <-> okeq (pkey a) (pkey b).
Proof. rewrite FP.eqb_equiv. apply Beqb_okey. Qed.

Lemma is_nan_iff a : PF.is_nan a = true <-> pkey a = None.
Proof.
  rewrite FP.is_nan_equiv. unfold pkey. rewrite key_nan.
  destruct (FP.Prim2B a); simpl; split; intros; try discriminate; reflexivity.
Qed.

Definition onone (x : option (Z * R)) : Prop := match x with None => True | Some _ => False end.
Definition osome (x : option (Z * R)) : Prop := match x with None => False | Some _ => True end.

Lemma is_nan_iff' a : PF.is_nan a = true <-> onone (pkey a).
Proof. rewrite is_nan_iff. destruct (pkey a); simpl; split; intros; try discriminate; tauto. Qed.

Lemma bool_false_iff (b : bool) (P Q : Prop) : (b = true <-> P) -> (~ P <-> Q) -> (b = false <-> Q).
Proof.
  intros [H1 H2] [H3 H4]. destruct b; split; intros H; try discriminate; auto.
  - exfalso. apply (H4 H). auto.
  - apply H3. intros HP. apply H2 in HP. discriminate.
Qed.

(* negations are turned into positive statements: the order on keys is total *)
Lemma not_klt a b : ~ klt a b <-> kle b a.
Proof.
  unfold klt, kle. destruct a as [za ra], b as [zb rb]; simpl.
  split.
  - intros K. destruct (Z.lt_trichotomy za zb) as [H|[H|H]].
    + exfalso; apply K; left; lia.
    + destruct (Rlt_le_dec ra rb).
      * exfalso; apply K; right; split; [lia|lra].
      * right; split; [lia|lra].
    + left; lia.
  - intros [K|[K1 K2]] [K'|[K1' K2']]; try lia; lra.
Qed.

Lemma not_kle a b : ~ kle a b <-> klt b a.
Proof.
  unfold klt, kle. destruct a as [za ra], b as [zb rb]; simpl.
  split.
  - intros K. destruct (Z.lt_trichotomy za zb) as [H|[H|H]].
    + exfalso; apply K; left; lia.
    + destruct (Rle_lt_dec ra rb).
      * exfalso; apply K; right; split; [lia|lra].
      * right; split; [lia|lra].
    + left; lia.
  - intros [K|[K1 K2]] [K'|[K1' K2']]; try lia; lra.
Qed.

Lemma not_oklt x y : ~ oklt x y <-> (onone x \/ onone y \/ okle y x).
Proof.
  destruct x as [a|], y as [b|]; simpl; try tauto.
  rewrite not_klt. tauto.
Qed.

Lemma not_okle x y : ~ okle x y <-> (onone x \/ onone y \/ oklt y x).
Proof.
  destruct x as [a|], y as [b|]; simpl; try tauto.
  rewrite not_kle. tauto.
Qed.

Lemma not_onone x : ~ onone x <-> osome x.
Proof. destruct x; simpl; tauto. Qed.

Lemma ltb_false_iff a b :
  PF.ltb a b = false <-> (onone (pkey a) \/ onone (pkey b) \/ okle (pkey b) (pkey a)).
Proof. eapply bool_false_iff; [apply ltb_iff | apply not_oklt]. Qed.
Lemma leb_false_iff a b :
  PF.leb a b = false <-> (onone (pkey a) \/ onone (pkey b) \/ oklt (pkey b) (pkey a)).
Proof. eapply bool_false_iff; [apply leb_iff | apply not_okle]. Qed.
Lemma is_nan_false_iff a : PF.is_nan a = false <-> osome (pkey a).
Proof. eapply bool_false_iff; [apply is_nan_iff' | apply not_onone]. Qed.

(* translate every comparison to the key domain, abstract the keys, and decide in Z * R *)
Ltac to_keys :=
  rewrite ?ltb_iff, ?leb_iff, ?eqb_iff, ?is_nan_iff',
          ?ltb_false_iff, ?leb_false_iff, ?is_nan_false_iff in *.

Ltac key_cases :=
  repeat match goal with
  | |- context [pkey ?a] => let k := fresh "k" in let z := fresh "z" in let r := fresh "r" in
      generalize (pkey a); intros k; destruct k as [[z r]|]
  end.

Ltac key_step :=
  intros;
  repeat match goal with
  | H : False |- _ => destruct H
  | H : True |- _ => clear H
  | H : _ /\ _ |- _ => destruct H
  | H : _ \/ _ |- _ => destruct H
  end;
  match goal with
  | |- True => exact I
  | |- _ <-> _ => split; key_step
  | |- _ /\ _ => split; key_step
  | |- _ \/ _ => solve [left; key_step] || solve [right; key_step]
  | |- _ => lia || lra
  end.

Ltac key_solve :=
  unfold oklt, okle, okeq, onone, osome, klt, kle, keq; simpl; key_step.

Ltac key_tac := intros; to_keys;
  repeat match goal with H : ?T |- _ => match type of T with Prop => revert H end end;
  key_cases; key_solve.

Section Order.
Variables a b c : flt.

Lemma ltb_leb : PF.ltb a b = true -> PF.leb a b = true.
Proof. key_tac. Qed.

Lemma leb_refl : PF.is_nan a = false -> PF.leb a a = true.
Proof. key_tac. Qed.

Lemma ltb_irrefl : PF.ltb a a = false.
Proof. key_tac. Qed.

Lemma ltb_trans : PF.ltb a b = true -> PF.ltb b c = true -> PF.ltb a c = true.
Proof. key_tac. Qed.

Lemma leb_trans : PF.leb a b = true -> PF.leb b c = true -> PF.leb a c = true.
Proof. key_tac. Qed.

Lemma ltb_leb_trans : PF.ltb a b = true -> PF.leb b c = true -> PF.ltb a c = true.
Proof. key_tac. Qed.

Lemma leb_ltb_trans : PF.leb a b = true -> PF.ltb b c = true -> PF.ltb a c = true.
Proof. key_tac. Qed.

Lemma ltb_false_leb :
  PF.is_nan a = false -> PF.is_nan b = false -> PF.ltb a b = false -> PF.leb b a = true.
Proof. key_tac. Qed.

Lemma leb_false_ltb :
  PF.is_nan a = false -> PF.is_nan b = false -> PF.leb a b = false -> PF.ltb b a = true.
Proof. key_tac. Qed.

Lemma ltb_not_nan : PF.ltb a b = true -> PF.is_nan a = false /\ PF.is_nan b = false.
Proof. key_tac. Qed.

Lemma leb_not_nan : PF.leb a b = true -> PF.is_nan a = false /\ PF.is_nan b = false.
Proof. key_tac. Qed.

Lemma eqb_not_nan : PF.eqb a b = true -> PF.is_nan a = false /\ PF.is_nan b = false.
Proof. key_tac. Qed.

Lemma eqb_leb : PF.eqb a b = true -> PF.leb a b = true /\ PF.leb b a = true.
Proof. key_tac. Qed.

Lemma leb_antisym : PF.leb a b = true -> PF.leb b a = true -> PF.eqb a b = true.
Proof. key_tac. Qed.

Lemma eqb_ltb_l : PF.eqb a b = true -> PF.ltb a c = PF.ltb b c.
Proof. intros H. apply eq_true_iff_eq. revert H. key_tac. Qed.

Lemma eqb_ltb_r : PF.eqb a b = true -> PF.ltb c a = PF.ltb c b.
Proof. intros H. apply eq_true_iff_eq. revert H. key_tac. Qed.

Lemma eqb_leb_l : PF.eqb a b = true -> PF.leb a c = PF.leb b c.
Proof. intros H. apply eq_true_iff_eq. revert H. key_tac. Qed.

Lemma eqb_leb_r : PF.eqb a b = true -> PF.leb c a = PF.leb c b.
Proof. intros H. apply eq_true_iff_eq. revert H. key_tac. Qed.

Lemma ltb_asym : PF.ltb a b = true -> PF.ltb b a = false.
Proof. key_tac. Qed.

Lemma leb_ltb_false : PF.leb a b = true -> PF.ltb b a = false.
Proof. key_tac. Qed.

Lemma eqb_sym : PF.eqb a b = PF.eqb b a.
Proof. apply eq_true_iff_eq. key_tac. Qed.

Lemma is_nan_eqb : PF.is_nan a = negb (PF.eqb a a).
Proof. reflexivity. Qed.

End Order.

(* ------------------------------------------------------------------------------------ *)
(* 1 is neutral for the (rounded) multiplication, on every float                        *)
(* ------------------------------------------------------------------------------------ *)

Local Existing Instance FP.Hprec.
Local Existing Instance FP.Hmax.

Lemma Prim2B_one : FP.Prim2B PF.one = Bone.
Proof. rewrite FP.one_equiv. apply FP.Prim2B_B2Prim. Qed.

Lemma Bone_finite_pos :
  exists m e H, (Bone : bf) = B754_finite false m e H.
Proof.
  generalize (@Bone_correct _ _ FP.Hprec FP.Hmax) (@is_finite_Bone _ _ FP.Hprec FP.Hmax)
             (@Bsign_Bone _ _ FP.Hprec FP.Hmax).
  destruct (Bone : bf) as [s|s| |s m e H]; simpl; intros H1 H2 H3; try discriminate.
  - exfalso; lra.
  - subst s. eauto.
Qed.

Lemma Bmult_one_r (x : bf) : Bmult mode_NE x Bone = x.
Proof.
  destruct (is_finite x) eqn:Fx.
  - generalize (Bmult_correct _ _ FP.Hprec FP.Hmax mode_NE x Bone).
    rewrite Bone_correct, Rmult_1_r.
    rewrite round_generic; [ | apply valid_rnd_N | apply generic_format_B2R ].
    rewrite Rlt_bool_true by apply abs_B2R_lt_emax.
    rewrite Fx, is_finite_Bone, Bsign_Bone, xorb_false_r.
    intros (H1 & H2 & H3). change (true && true) with true in H2.
    apply B2R_Bsign_inj; [exact H2 | exact Fx | exact H1 | ].
    apply H3. revert H2. destruct (Bmult mode_NE x Bone); try discriminate; reflexivity.
  - destruct Bone_finite_pos as (m & e & H & ->).
    destruct x as [s|s| |s mx ex Hx]; try discriminate; simpl; try reflexivity.
    destruct s; reflexivity.
Qed.

Lemma Bmult_one_l (x : bf) : Bmult mode_NE Bone x = x.
Proof.
  destruct (is_finite x) eqn:Fx.
  - generalize (Bmult_correct _ _ FP.Hprec FP.Hmax mode_NE Bone x).
    rewrite Bone_correct, Rmult_1_l.
    rewrite round_generic; [ | apply valid_rnd_N | apply generic_format_B2R ].
    rewrite Rlt_bool_true by apply abs_B2R_lt_emax.
    rewrite Fx, is_finite_Bone, Bsign_Bone, xorb_false_l.
    intros (H1 & H2 & H3). change (true && true) with true in H2.
    apply B2R_Bsign_inj; [exact H2 | exact Fx | exact H1 | ].
    apply H3. revert H2. destruct (Bmult mode_NE Bone x); try discriminate; reflexivity.
  - destruct Bone_finite_pos as (m & e & H & ->).
    destruct x as [s|s| |s mx ex Hx]; try discriminate; simpl; try reflexivity.
    destruct s; reflexivity.
Qed.

Section MulOne.
(* the literal 1%float needs the PrimFloat notations; the import is local to this section *)
Import PF.

Lemma mul_one_r (a : PF.float) : PF.mul a 1%float = a.
Proof.
  change 1%float with PF.one.
  apply FP.Prim2B_inj. rewrite FP.mul_equiv, Prim2B_one. apply Bmult_one_r.
Qed.

Lemma mul_one_l (a : PF.float) : PF.mul 1%float a = a.
Proof.
  change 1%float with PF.one.
  apply FP.Prim2B_inj. rewrite FP.mul_equiv, Prim2B_one. apply Bmult_one_l.
Qed.

End MulOne.

Check mul_one_r.
Check mul_one_l.
Print Assumptions ltb_trans.
Print Assumptions ltb_false_leb.
Print Assumptions leb_antisym.
Print Assumptions mul_one_r.
