(* Exceptions as values, and the trace-writer / error monad in which the models are written.
   A computation yields either a value or a raised exception, together with the list of
   user-visible events it produced (the trace survives a raise: that is what C20 is about). *)
From Coq Require Import List String.
Import ListNotations.

Definition exn := (string * string)%type.   (* Python exception class name, message *)

(* OutOfFuel is the error value of fuelled loops; the theorems exclude it (Driver: fuel_suffices) *)
Inductive res (A : Type) : Type := Ok (a : A) | Raise (e : exn) | OutOfFuel.
Arguments Ok {A} a.
Arguments Raise {A} e.
Arguments OutOfFuel {A}.

Section Monad.
  Variable Ev : Type.                       (* event type *)
  Definition M (A : Type) : Type := (res A * list Ev)%type.

  Definition ret {A} (a : A) : M A := (Ok a, []).
  Definition raise {A} (e : exn) : M A := (Raise e, []).
  Definition emit (ev : Ev) : M unit := (Ok tt, [ev]).
  Definition bind {A B} (m : M A) (f : A -> M B) : M B :=
    match m with
    | (Ok a, t) => let '(r, t') := f a in (r, t ++ t')
    | (Raise e, t) => (Raise e, t)
    | (OutOfFuel, t) => (OutOfFuel, t)
    end.
  (* events of a sub-component embedded into the events of its client *)
  Definition lift {Ev' A} (f : Ev' -> Ev) (m : res A * list Ev') : M A := (fst m, map f (snd m)).
  (* lift an answer of a user callable, recording the event built from it *)
  Definition call {A} (r : res A) (ev : Ev) : M A := (r, [ev]).
End Monad.
Arguments ret {Ev A} a.
Arguments raise {Ev A} e.
Arguments emit {Ev} ev.
Arguments bind {Ev A B} m f.
Arguments call {Ev A} r ev.
Arguments lift {Ev Ev' A} f m.

Declare Scope monad_scope.
Delimit Scope monad_scope with monad.
Notation "x <- m ;; f" := (bind m (fun x => f)) (at level 61, m at next level, right associativity) : monad_scope.
Notation "' p <- m ;; f" := (bind m (fun p => f)) (at level 61, p pattern, m at next level, right associativity) : monad_scope.
Open Scope monad_scope.

Section Lemmas.
  Context {Ev : Type}.
  Lemma bind_ok_inv {A B} (m : M Ev A) (f : A -> M Ev B) b t :
    bind m f = (Ok b, t) -> exists a t1 t2, m = (Ok a, t1) /\ f a = (Ok b, t2) /\ t = t1 ++ t2.
  Proof.
    unfold bind. destruct m as [[a|e|] t1]; [|discriminate|discriminate].
    destruct (f a) as [r t2] eqn:E. intros H. inversion H; subst. exists a, t1, t2. auto.
  Qed.
  Lemma bind_raise_inv {A B} (m : M Ev A) (f : A -> M Ev B) e t :
    bind m f = (Raise e, t) ->
    m = (Raise e, t) \/ exists a t1 t2, m = (Ok a, t1) /\ f a = (Raise e, t2) /\ t = t1 ++ t2.
  Proof.
    unfold bind. destruct m as [[a|e'|] t1].
    - destruct (f a) as [r t2] eqn:E. intros H. inversion H; subst. right. exists a, t1, t2. auto.
    - intros H. inversion H; subst. now left.
    - discriminate.
  Qed.
  Lemma bind_fuel_inv {A B} (m : M Ev A) (f : A -> M Ev B) t :
    bind m f = (OutOfFuel, t) ->
    m = (OutOfFuel, t) \/ exists a t1 t2, m = (Ok a, t1) /\ f a = (OutOfFuel, t2) /\ t = t1 ++ t2.
  Proof.
    unfold bind. destruct m as [[a|e'|] t1].
    - destruct (f a) as [r t2] eqn:E. intros H. inversion H; subst. right. exists a, t1, t2. auto.
    - discriminate.
    - intros H. inversion H; subst. now left.
  Qed.
  Lemma bind_ret_l {A B} (a : A) (f : A -> M Ev B) : bind (ret a) f = f a.
  Proof. unfold bind, ret. destruct (f a). reflexivity. Qed.
  Lemma bind_assoc {A B C} (m : M Ev A) (f : A -> M Ev B) (g : B -> M Ev C) :
    bind (bind m f) g = bind m (fun a => bind (f a) g).
  Proof.
    unfold bind. destruct m as [[a|e|] t]; try reflexivity.
    destruct (f a) as [[b|e|] t2]; try reflexivity. destruct (g b) as [r t3]. rewrite app_assoc. reflexivity.
  Qed.
End Lemmas.
