(* C09 / C08 inside the driver: the driver model with its Cauchy + subspace kernel instantiated by the bit-exact binary64 kernel
   models (Model/DriverKern.v).  theta and the rows of W = [Y, theta S] are computed from the history the matrices were built
   from; the dense linear algebra of the two kernels stays an oracle indexed by the iteration.  For ANY oracle answers, memory
   and iteration the point handed to the line search lies in the box (exact binary64 comparisons) and has the dimension of x.
   The tie is the correspondence 'driver:kern': whole runs of minimize_lbfgsb reproduced bit for bit by this composed model
   (main.py + linesearch.py + DCSRCH + cauchy.py + subspacemin.py + the matrix parameters of bfgsmats.py). *)
From Coq Require Import List ZArith Bool Floats.PrimFloat.
From LBFGSB Require Import Base.FloatOrd Model.FloatVec Model.Driver Model.DriverKern Proofs.DriverBox Proofs.DriverKernProofs.
Import ListNotations.

Theorem C09_search_point_in_box : forall (B : blas) (vdot : vec -> vec -> float) (c : cfg) x g m nit,
  wfb (lb c) (ub c) -> inbox x (lb c) (ub c) -> inbox (search_model B vdot c x g m nit) (lb c) (ub c).
Proof. exact search_model_inbox. Qed.

Theorem C09_search_point_length : forall (B : blas) (vdot : vec -> vec -> float) (c : cfg) x g m nit,
  length (lb c) = length x -> length (ub c) = length x -> length (search_model B vdot c x g m nit) = length x.
Proof. exact search_model_length. Qed.

(* the kernel of the composed model is the search of a driver kernel: every driver theorem (C02 ... C20), stated for ANY
   kernel, applies to it *)
Theorem C09_composed_kernel : forall B dcs vdot c, search (kern_model B dcs vdot c) = search_model B vdot c.
Proof. reflexivity. Qed.

Print Assumptions C09_search_point_in_box.
Print Assumptions C09_search_point_length.
