(* C10mat.v -- property C10, matrix half: restatements only.  Every theorem below is proved in
   BfgsProofs.v or BfgsGeneral.v; here it is restated in full and closed by [exact], then its
   assumptions are printed. *)
From Coq Require Import QArith List Bool Arith.
Import ListNotations.
From LBFGSB Require Import Model.Bfgs Proofs.BfgsProofs Proofs.BfgsGeneral.
Open Scope Q_scope.

(* ---- (a) one BFGS update, abstract vector space over Q ------------------------------- *)

Theorem C10_bfgs_step_sym :
  forall (V : Type) (add : V -> V -> V) (scal : Q -> V -> V) (dot : V -> V -> Q),
    (forall u v, dot u v == dot v u) ->
    (forall u v w, dot (add u v) w == dot u w + dot v w) ->
    (forall c u w, dot (scal c u) w == c * dot u w) ->
    forall (b : V -> V -> Q) (s y : V),
      bilin_sym V add scal b ->
      forall u v, step V dot b s y u v == step V dot b s y v u.
Proof. exact bfgs_step_sym. Qed.
Print Assumptions C10_bfgs_step_sym.

Theorem C10_bfgs_step_secant :
  forall (V : Type) (add : V -> V -> V) (scal : Q -> V -> V) (dot : V -> V -> Q),
    (forall u v, dot u v == dot v u) ->
    (forall u v w, dot (add u v) w == dot u w + dot v w) ->
    (forall c u w, dot (scal c u) w == c * dot u w) ->
    (forall v, 0 <= dot v v) ->
    forall (b : V -> V -> Q) (s y : V),
      bilin_sym V add scal b -> pd V dot b -> 0 < dot s y ->
      forall v, step V dot b s y s v == dot y v.
Proof. exact bfgs_step_secant. Qed.
Print Assumptions C10_bfgs_step_secant.

Theorem C10_bfgs_step_pd :
  forall (V : Type) (add : V -> V -> V) (scal : Q -> V -> V) (dot : V -> V -> Q),
    (forall u v, dot u v == dot v u) ->
    (forall u v w, dot (add u v) w == dot u w + dot v w) ->
    (forall c u w, dot (scal c u) w == c * dot u w) ->
    (forall v, 0 <= dot v v) ->
    forall (b : V -> V -> Q) (s y : V),
      bilin_sym V add scal b -> psd V b -> pd V dot b -> 0 < dot s y ->
      forall v, 0 < dot v v -> 0 < step V dot b s y v v.
Proof. exact bfgs_step_pd. Qed.
Print Assumptions C10_bfgs_step_pd.

Theorem C10_dense_bfgs_spd_secant :
  forall (V : Type) (add : V -> V -> V) (scal : Q -> V -> V) (dot : V -> V -> Q),
    (forall u v, dot u v == dot v u) ->
    (forall u v w, dot (add u v) w == dot u w + dot v w) ->
    (forall c u w, dot (scal c u) w == c * dot u w) ->
    (forall v, 0 <= dot v v) ->
    forall (theta : Q) (ps : list (V * V)),
      0 < theta ->
      Forall (fun p => 0 < dot (fst p) (snd p)) ps ->
      (bilin_sym V add scal (dense_form V dot theta ps) /\
       (forall v, 0 <= dense_form V dot theta ps v v) /\
       (forall v, 0 < dot v v -> 0 < dense_form V dot theta ps v v)) /\
      (forall ps' s y, ps = ps' ++ [(s, y)] ->
         forall v, dense_form V dot theta ps s v == dot y v).
Proof. exact dense_bfgs_spd_secant. Qed.
Print Assumptions C10_dense_bfgs_spd_secant.

(* ---- (a) the executable dense matrix over list Q -------------------------------------- *)

Theorem C10_dense_matrix_spd_secant :
  forall (n : nat) (theta : Q) (ps : list (vec * vec)),
    0 < theta ->
    Forall (fun p => (length (fst p) <= n)%nat) ps ->
    Forall (fun p => 0 < dot_raw (fst p) (snd p)) ps ->
    let B := dense_bfgs n theta ps in
    (forall u v, (length u <= n)%nat -> (length v <= n)%nat -> quad B u v == quad B v u) /\
    (forall v, (length v <= n)%nat -> 0 < dot_raw v v -> 0 < quad B v v) /\
    (forall ps' s y, ps = ps' ++ [(s, y)] ->
       forall v, (length v <= n)%nat -> quad B v s == dot_raw v y).
Proof. exact dense_bfgs_matrix_spd_secant. Qed.
Print Assumptions C10_dense_matrix_spd_secant.

Theorem C10_nonzero_vector :
  forall v : vec, 0 < dot_raw v v <-> Exists (fun a => ~ a == 0) v.
Proof. exact dot_raw_pos_iff. Qed.
Print Assumptions C10_nonzero_vector.

Theorem C10_memory_matrix_spd_secant :
  forall (n : nat) (X G : list vec) (x0 x1 g0 g1 : vec),
    length X = length G ->
    let X' := X ++ [x0; x1] in
    let G' := G ++ [g0; g1] in
    Forall (fun x => (length x <= n)%nat) X' ->
    Forall (fun p => 0 < dot_raw (fst p) (snd p)) (pairs X' G') ->
    let theta := c_theta (compact X' G') in
    let B := dense_bfgs n theta (pairs X' G') in
    let s := vsub x1 x0 in
    let y := vsub g1 g0 in
    0 < theta /\
    (forall u v, (length u <= n)%nat -> (length v <= n)%nat -> quad B u v == quad B v u) /\
    (forall v, (length v <= n)%nat -> 0 < dot_raw v v -> 0 < quad B v v) /\
    (forall v, (length v <= n)%nat -> quad B v s == dot_raw v y) /\
    (forall i, (i < n)%nat -> nth i (mvmul B s) 0 == nth i y 0).
Proof. exact memory_matrix_spd_secant. Qed.
Print Assumptions C10_memory_matrix_spd_secant.

(* ---- (b) compact = dense for one stored pair ------------------------------------------ *)

Theorem C10_compact_eq_dense_m1 :
  forall (n : nat) (x0 x1 g0 g1 : vec) (m00 m01 m10 m11 : Q),
    let C := compact [x0; x1] [g0; g1] in
    let s := vsub x1 x0 in
    let y := vsub g1 g0 in
    let M := [[m00; m01]; [m10; m11]] in
    (length s <= n)%nat ->
    ~ dot_raw s y == 0 ->
    meq_bool (nm (mmul (c_Minv C) M)) (sid 2 1) = true ->
    forall u v, (length u <= n)%nat -> (length v <= n)%nat ->
      quad (compact_B n (c_theta C) (c_W C) M) u v
      == quad (dense_bfgs n (c_theta C) (pairs [x0; x1] [g0; g1])) u v.
Proof. exact compact_eq_dense_m1. Qed.
Print Assumptions C10_compact_eq_dense_m1.

(* ---- (b') compact = dense for any number of stored pairs ------------------------------- *)

(* abstract, relational form: any solution (pY; pS) of the middle system gives the dense form *)
Theorem C10_compact_form_eq_dense :
  forall (V : Type) (add : V -> V -> V) (scal : Q -> V -> V) (dot : V -> V -> Q),
    (forall u v, dot u v == dot v u) ->
    (forall u v w, dot (add u v) w == dot u w + dot v w) ->
    (forall c u w, dot (scal c u) w == c * dot u w) ->
    forall (theta : Q) (s y : nat -> V) (m : nat),
      (forall k, (k < m)%nat ->
         ~ dot (s k) (y k) == 0 /\ ~ Bidx V dot theta s y k (s k) (s k) == 0) ->
      forall (v : V) (pY pS : nat -> Q),
        (forall i, (i < m)%nat ->
           - dot (s i) (y i) * pY i
           + sumn m (fun j => (if Nat.ltb i j then dot (s j) (y i) else 0) * pS j)
           == dot (y i) v
           /\
           sumn m (fun j => (if Nat.ltb j i then dot (s i) (y j) else 0) * pY j)
           + sumn m (fun j => theta * dot (s i) (s j) * pS j)
           == theta * dot (s i) v) ->
        forall u,
          theta * dot u v
          - (sumn m (fun a => dot u (y a) * pY a) + sumn m (fun a => theta * dot u (s a) * pS a))
          == Bidx V dot theta s y m u v.
Proof. exact compact_form_eq_dense. Qed.
Print Assumptions C10_compact_form_eq_dense.

Theorem C10_compact_eq_dense :
  forall (n : nat) (X G : list vec) (x0 x1 g0 g1 : vec) (M : mat),
    length X = length G ->
    let X' := X ++ [x0; x1] in
    let G' := G ++ [g0; g1] in
    Forall (fun x => (length x <= n)%nat) X' ->
    Forall (fun p => 0 < dot_raw (fst p) (snd p)) (pairs X' G') ->
    let C := compact X' G' in
    meq_bool (nm (mmul (c_Minv C) M)) (sid (2 * length (pairs X' G')) 1) = true ->
    forall u v, (length u <= n)%nat -> (length v <= n)%nat ->
      quad (compact_B n (c_theta C) (c_W C) M) u v
      == quad (dense_bfgs n (c_theta C) (pairs X' G')) u v.
Proof. exact compact_eq_dense. Qed.
Print Assumptions C10_compact_eq_dense.

Theorem C10_lbfgs_matrix_eq_dense :
  forall (n : nat) (X G : list vec) (x0 x1 g0 g1 : vec) (B : mat),
    length X = length G ->
    let X' := X ++ [x0; x1] in
    let G' := G ++ [g0; g1] in
    Forall (fun x => (length x <= n)%nat) X' ->
    Forall (fun p => 0 < dot_raw (fst p) (snd p)) (pairs X' G') ->
    lbfgs_matrix n X' G' = Some B ->
    forall u v, (length u <= n)%nat -> (length v <= n)%nat ->
      quad B u v == quad (dense_bfgs n (c_theta (compact X' G')) (pairs X' G')) u v.
Proof. exact lbfgs_matrix_eq_dense. Qed.
Print Assumptions C10_lbfgs_matrix_eq_dense.

Theorem C10_compact_eq_dense_m0 :
  forall (n : nat) (theta : Q) (M : mat) (u v : vec),
    quad (compact_B n theta [] M) u v == quad (dense_bfgs n theta []) u v.
Proof. exact compact_eq_dense_m0. Qed.
Print Assumptions C10_compact_eq_dense_m0.

(* ---- (c) theta ------------------------------------------------------------------------ *)

Theorem C10_theta_newest :
  forall (X G : list vec) (x0 x1 g0 g1 : vec),
    length X = length G ->
    let s := vsub x1 x0 in
    let y := vsub g1 g0 in
    last (pairs (X ++ [x0; x1]) (G ++ [g0; g1])) ([], []) = (s, y) /\
    c_theta (compact (X ++ [x0; x1]) (G ++ [g0; g1])) == dot_raw y y / dot_raw s y.
Proof. exact theta_newest. Qed.
Print Assumptions C10_theta_newest.

(* Non-vacuity: concrete histories of Proofs/BfgsProofs.v / BfgsGeneral.v evaluated by computation. *)
Example C10_matrix_nonvacuous := (conj ex_curvature (conj ex_theta_newest ex_general)).
