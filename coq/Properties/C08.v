(* C08 -- the Cauchy point: restatements only.  Model: LBFGSB.Cauchy.gcp / gcp_list (exact rationals),
   tied to lbfgsb.cauchy.get_cauchy_point by corr_cauchy.py. *)
From Coq Require Import QArith List Sorted.
Import ListNotations.
From LBFGSB Require Import Model.Cauchy Proofs.CauchyProofs.
Open Scope Q_scope.

Section Statements.
Variables (n m2 : nat) (x g : nat -> Q) (lb ub : nat -> option Q) (theta : Q).
Variables (W Mn : nat -> nat -> Q) (Md : Q) (use_factor : bool) (eps : Q).
Notation gcp := (gcp n m2 x g lb ub theta W Mn Md use_factor eps).
Notation bp := (bp x g lb ub).
Notation d0 := (d0 x g lb ub).
Notation srt := (sorted_idx n x g lb ub).

(* T1: the variables fixed by the loop are a prefix of the indices with t_i > 0 in the order of a stable
   sort by t_i (strictly sorted for the lexicographic order on (t_i, i), which determines the list:
   CauchyProofs.sorted_unique); a fixed variable has a finite positive breakpoint and g_i <> 0 *)
Theorem C08_gcp_order : feasible n lb ub x ->
  forall xcp c fx ts ns mg, gcp = Ok xcp c fx ts ns mg ->
  (exists k, fx = firstn k srt) /\
  StronglySorted (lexlt x g lb ub) srt /\
  (forall i, In i srt <-> (i < n)%nat /\ tpos x g lb ub i = true) /\
  (forall i, In i fx -> exists t, bp i = Some t /\ 0 < t /\ ~ g i == 0).
Proof. exact (gcp_order n m2 x g lb ub theta W Mn Md use_factor eps). Qed.

Theorem C08_sorted_unique : forall l1 l2,
  StronglySorted (lexlt x g lb ub) l1 -> StronglySorted (lexlt x g lb ub) l2 ->
  (forall i, In i l1 <-> In i l2) -> l1 = l2.
Proof. exact (sorted_unique x g lb ub). Qed.

Theorem C08_gcp_never_fixed : feasible n lb ub x ->
  forall xcp c fx ts ns mg i, gcp = Ok xcp c fx ts ns mg ->
  (g i == 0 \/ (exists t, bp i = Some t /\ t == 0)) -> ~ In i fx.
Proof. exact (gcp_never_fixed n m2 x g lb ub theta W Mn Md use_factor eps). Qed.

(* T2: the Cauchy point is on the projected steepest-descent path, at t* >= 0 *)
Theorem C08_gcp_on_path : feasible n lb ub x ->
  forall xcp c fx ts ns mg, gcp = Ok xcp c fx ts ns mg ->
  0 <= ts /\ forall i, (i < n)%nat -> xcp i == clip (x i - ts * g i) (lb i) (ub i).
Proof. exact (gcp_on_path n m2 x g lb ub theta W Mn Md use_factor eps). Qed.

(* T3: feasible; fixed variables are exactly ON the bound they reached; the others moved by t* d_i and
   did not need the final clip *)
Theorem C08_gcp_pinned_feasible : feasible n lb ub x ->
  forall xcp c fx ts ns mg, gcp = Ok xcp c fx ts ns mg ->
  feasible n lb ub xcp /\
  (forall i, In i fx -> (g i < 0 /\ ub i = Some (xcp i)) \/ (0 < g i /\ lb i = Some (xcp i))) /\
  (forall i, (i < n)%nat -> ~ In i fx ->
     xcp i == x i + ts * d0 i /\ within (x i + ts * d0 i) (lb i) (ub i)).
Proof. exact (gcp_pinned_feasible n m2 x g lb ub theta W Mn Md use_factor eps). Qed.

(* T7: c = W^T (x_cp - x), unconditionally in exact arithmetic *)
Theorem C08_gcp_c : feasible n lb ub x ->
  forall xcp c fx ts ns mg, gcp = Ok xcp c fx ts ns mg ->
  forall j, (j < m2)%nat -> c j == sumn n (fun i => W i j * (xcp i - x i)).
Proof. exact (gcp_c n m2 x g lb ub theta W Mn Md use_factor eps). Qed.

(* the model does not end in its error value under the preconditions of the property *)
Theorem C08_gcp_no_error :
  0 < theta -> 0 < eps -> (exists i, (i < n)%nat /\ ~ d0 i == 0) ->
  ~ f2_0 n m2 x g lb ub theta W Mn Md use_factor == 0 ->
  exists xcp c fx ts ns mg, gcp = Ok xcp c fx ts ns mg.
Proof. exact (gcp_no_error n m2 x g lb ub theta W Mn Md use_factor eps). Qed.

(* ---- extension: first local minimiser and model decrease.  M = Mn / Md symmetric, Md <> 0. ---- *)
Notation st_init := (st0 n m2 x g lb ub W (f1_0 n x g lb ub) (f2_0 n m2 x g lb ub theta W Mn Md use_factor)).
Notation explored := (explored n m2 x g lb ub theta W Mn Md use_factor eps).
Notation explored_ns := (explored_ns n m2 x g lb ub theta W Mn Md use_factor eps).
Notation walk := (walk n m2 x g lb ub theta W Mn Md use_factor eps).
Notation F1 := (F1 n m2 x g lb ub theta Mn Md use_factor).
Notation F2 := (F2 n m2 theta Mn Md use_factor).

(* T5, scalar half: the fixed variables are those of the walk that goes through a segment as long as
   delta_t <= -f'/f'' and stops at the first one where -f'/f'' < delta_t (or the breakpoint is infinite,
   or none is left); t* = t_old + max(-f'/f'', 0) there.  The walk is unique. *)
Theorem C08_gcp_stop_first : forall xcp c fx ts ns mg,
  srt <> [] -> gcp = Ok xcp c fx ts ns mg ->
  exists stk, explored srt st_init fx stk /\ s_fixed stk = fx /\
    ts == s_told stk + (if Qltb (s_dtm stk) 0 then 0 else s_dtm stk).
Proof. exact (gcp_stop_first n m2 x g lb ub theta W Mn Md use_factor eps). Qed.

Theorem C08_explored_unique : forall rest st f1 s1 f2 s2,
  explored rest st f1 s1 -> explored rest st f2 s2 -> f1 = f2 /\ s1 = s2.
Proof. exact (explored_unique n m2 x g lb ub theta W Mn Md use_factor eps). Qed.

(* T4: while the safeguard f'' <- max(f'', eps f''_0) leaves f'' unchanged, the stored f', f'' are
   f' = g.d + theta d.z - p^T M c,  f'' = theta d.d - p^T M p  with p = W^T d, c = W^T z (part of Inv),
   i.e. the derivatives of the model along the current segment *)
Theorem C08_gcp_derivs : ~ Md == 0 -> Msym m2 Mn Md -> forall fx stk,
  explored_ns srt st_init fx stk ->
  walk (fun r s => Inv n m2 x g lb ub W r s /\ (s_f1 s == F1 s /\ s_f2 s == F2 s)) srt st_init fx stk.
Proof. exact (gcp_derivs n m2 x g lb ub theta W Mn Md use_factor eps). Qed.

(* T5: with f''_0 > 0 the model decreases strictly along every explored segment and up to the stopping
   point, and its derivative just after the stopping point is >= 0: first local minimiser *)
Theorem C08_gcp_first_local_min : ~ Md == 0 -> Msym m2 Mn Md ->
  0 < eps * f2org n x g lb ub theta -> 0 < f2_0 n m2 x g lb ub theta W Mn Md use_factor ->
  forall fx stk, explored_ns srt st_init fx stk ->
  walk (descent_state n m2 x g lb ub theta W Mn Md use_factor) srt st_init fx stk /\
  0 <= F1 stk + (if Qltb (s_dtm stk) 0 then 0 else s_dtm stk) * F2 stk.
Proof. exact (gcp_first_local_min n m2 x g lb ub theta W Mn Md use_factor eps). Qed.

(* T6: m(x_cp) <= m(x), m(x + s) - m(x) = g.s + s^T (theta I - W M W^T) s / 2; no hypothesis on the safeguard *)
Theorem C08_gcp_model_decrease : feasible n lb ub x -> ~ Md == 0 -> Msym m2 Mn Md ->
  0 < eps * f2org n x g lb ub theta -> 0 < f2_0 n m2 x g lb ub theta W Mn Md use_factor ->
  forall xcp c fx ts ns mg, gcp = Ok xcp c fx ts ns mg ->
  mval n m2 g theta W Mn Md use_factor (fun i => xcp i - x i) <= 0.
Proof. exact (gcp_model_decrease n m2 x g lb ub theta W Mn Md use_factor eps). Qed.
End Statements.

Print Assumptions C08_gcp_order.
Print Assumptions C08_sorted_unique.
Print Assumptions C08_gcp_never_fixed.
Print Assumptions C08_gcp_on_path.
Print Assumptions C08_gcp_pinned_feasible.
Print Assumptions C08_gcp_c.
Print Assumptions C08_gcp_no_error.
Print Assumptions C08_gcp_stop_first.
Print Assumptions C08_explored_unique.
Print Assumptions C08_gcp_derivs.
Print Assumptions C08_gcp_first_local_min.
Print Assumptions C08_gcp_model_decrease.

(* list-level forms (the function the correspondence harness evaluates) *)
Theorem C08_gcp_list_on_path : forall x g lb ub theta W Mn Md use_factor eps,
  feasible_list x lb ub ->
  let o := gcp_list x g lb ub theta W Mn Md use_factor eps in
  o_ok o = true ->
  0 <= o_tstar o /\
  forall i, (i < length x)%nat ->
    nthQ (o_xcp o) i == clip (nthQ x i - o_tstar o * nthQ g i) (ntho lb i) (ntho ub i).
Proof. exact gcp_list_on_path. Qed.

Theorem C08_gcp_list_c : forall x g lb ub theta W Mn Md use_factor eps,
  feasible_list x lb ub ->
  let o := gcp_list x g lb ub theta W Mn Md use_factor eps in
  o_ok o = true ->
  forall j, (j < length Mn)%nat ->
    nthQ (o_c o) j == sumn (length x) (fun i => mat W i j * (nthQ (o_xcp o) i - nthQ x i)).
Proof. exact gcp_list_c. Qed.

Print Assumptions C08_gcp_list_on_path.
Print Assumptions C08_gcp_list_c.
Print Assumptions gcp_list_order.
Print Assumptions gcp_list_pinned_feasible.

(* Non-vacuity: the concrete instances of Proofs/CauchyProofs.v (module Ex: n = 3, two memory columns, one variable on its lower
   bound with outward gradient; theta = 2 and theta = 1) to which the theorems above are applied there by computation. *)
Example C08_nonvacuous := (conj CauchyProofs.Ex.order_applies (conj CauchyProofs.Ex.on_path_applies CauchyProofs.Ex.pinned_theta2)).
