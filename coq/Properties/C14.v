(* C14 - runs are deterministic, isolated from each other and do not touch their inputs.
   The driver model (coq/Model/Driver.v) is a Gallina FUNCTION of (user callables, kernels, configuration): it is
   deterministic, has no state outside its arguments, no logger / iprint input and cannot mutate anything.  The content of
   this property is therefore that the CODE has the model's shape.  What Coq checks are facts about the source re-derived on
   every run by the translator's scan of the whole package (Generated/Handlers.v); threads, nesting, read-only inputs and
   logging levels are exercised on the implementation by the search and by the correspondence (the model, which has no
   logging input, must reproduce runs made at every iprint level with and without a logger). *)
From Coq Require Import List String.
From LBFGSB Require Import Base.Res Model.Driver Generated.Handlers.
Import ListNotations.

(* no function of the package writes into a module-level object, a class attribute or a mutable default argument
   (no state shared between calls: interleaved, nested or concurrent runs cannot influence each other through the package) *)
Theorem C14_no_shared_writes : shared_write_sites = [].
Proof. reflexivity. Qed.

(* no function changes process-wide state (numpy error state, warning filters, logging configuration, PRNG seeds, cwd, ...)
   outside a scoped context manager *)
Theorem C14_no_global_state_mutation : global_state_mutator_calls = [].
Proof. reflexivity. Qed.

(* no in-place write (augmented assignment, item / attribute store, mutating method, out= argument) reaches an object that may
   share memory with the caller's x0, bounds, checkpoint.* or with the array arguments of the kernels (flow-insensitive
   may-alias analysis: views, np.asarray / atleast_nd / reshape / astype(copy=False) propagate, copies and arithmetic do not) *)
Theorem C14_inputs_not_written : input_alias_write_sites = [].
Proof. reflexivity. Qed.

(* the model is a function: equal arguments give equal results and traces, whatever was computed before or in between *)
Theorem C14_model_deterministic : forall U K c, run U K c = run U K c.
Proof. reflexivity. Qed.

Print Assumptions C14_no_shared_writes.
Print Assumptions C14_inputs_not_written.
