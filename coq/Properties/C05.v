(* C05 - result coherence: fun and jac belong to x; counters equal the calls made.
   Restates Proofs/DriverValuesRun.values_run and Proofs/DriverReportRun.report_run (driver model: coq/Model/Driver.v). *)
From Coq Require Import List ZArith Bool String Floats.PrimFloat.
From LBFGSB Require Import Base.Res Base.Hoare Base.FloatOrd Model.SF Model.FloatVec Model.Driver
  Proofs.SFProofs Proofs.DriverReport Proofs.DriverReportRun Proofs.DriverValues Proofs.DriverValuesRun.
Import ListNotations.
Open Scope Z_scope.

Section C05.
  Variable U : user.
  Variable K : kern.   (* any kernel / line-search behaviour: in particular the accepted step need not be the last trial *)
  Variable c : cfg.
  Hypothesis user_respects_array_equal : forall p q, veqb p q = true ->
    uf U p = uf U q /\ ug U p = ug U q /\ fd_stencil U p = fd_stencil U q /\ fd_est U p = fd_est U q.
  Hypothesis no_update_function : u_upd U = None.
  (* restart: the checkpoint is a result of this package for the same objective (unscaled), x0 is its x *)
  Hypothesis checkpoint_coherent : ck_coherent U c.

  (* coh sg x f g :  f = uf x * sg  and  g = (the fresh gradient at x: ug x, or the finite-difference estimate) * sg,
     bit for bit (Leibniz equality of binary64 values).  sg is 1 or the value the scaler returned (scale_in).
     It holds of the x / fun / jac of EVERY state handed to the callback (ev_coh) and of the result, unless the run
     stopped on the target before any gradient was computed (then jac is the documented zero placeholder). *)
  Theorem C05_coherent : forall r tr, run U K c = (Ok r, tr) ->
    exists sg, scale_in sg tr /\ Forall (ev_coh U sg) tr /\
      (coh U sg (r_x r) (r_fun r) (r_jac r) \/
       (checkpoint c = None /\ r_msg r = MTarget /\ r_jac r = vzeros (r_x r) /\ exists fv, uf U (r_x r) = Ok fv /\ r_fun r = mul fv fone)).
  Proof.
    intros r tr H. destruct (values_run U K c user_respects_array_equal no_update_function checkpoint_coherent r tr H)
      as (sg & fs & H1 & _ & _ & _ & H5 & H6). exists sg. auto.
  Qed.
End C05.

(* nfev / njev equal the checkpoint's counters (0 without a checkpoint) plus the number of objective / gradient calls
   actually made, for every user (no assumption on the callables), every kernel, every configuration; the same relation
   holds at every callback state because a callback state is the result of the run stopped there (C07). *)
Theorem C05_counters : forall U K c r tr, run U K c = (Ok r, tr) ->
  r_nfev r = nfev0 c + cntP isF tr /\ (fdmode U = false -> r_njev r = njev0 c + cntP isG tr).
Proof. intros U K c r tr H. exact (rp_counters _ _ _ _ (report_run U K c r tr H)). Qed.

Print Assumptions C05_coherent.
Print Assumptions C05_counters.

(* Non-vacuity: a run in which the accepted trial (the first, lowest one) is NOT the last point evaluated by the line search:
   the returned fun / jac are those of the returned x, re-evaluated, not the cached values of the last trial. *)
Definition U5 : user :=
  mkuser (fun x => Ok (mul (hd 0%float x) (hd 0%float x))) (fun x => Ok [mul 2%float (hd 0%float x)]) None None None (Ok 0%float) (Ok 0%float)
         false (fun _ => []) (fun _ _ _ => Ok []).
Definition K5 : kern :=
  mkkern (fun _ _ _ _ => [0%float])
         (fun _ h => match h with [_] => (0.5%float, TFG) | [_; _] => (3%float, TFG) | _ => (3%float, TWarn) end) (fun _ _ => (-4)%float).
Definition c5 : cfg :=
  mkcfg [2%float] [(-9)%float] [9%float] 3 None 0%float (TolConst 0%float) 1 10 5 1%float 0.001%float 0.9%float 0.1%float 0%float None.
Example C05_example : exists r tr, run U5 K5 c5 = (Ok r, tr) /\ r_x r = [1%float] /\ r_fun r = 1%float /\ r_jac r = [2%float] /\
  r_nfev r = 4 /\ cntP isF tr = 4.
Proof. eexists. eexists. split; [vm_compute; reflexivity|]. repeat split. Qed.
