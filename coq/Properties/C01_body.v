(* C01 (part): ONE PASS OF THE MAIN LOOP, FROM THE SOURCE.  The pass of the driver model (Model/Driver.v: body) with every DECISION
   replaced by the function translated from the source on every run - the line-search budget (Generated/LoopControl), the new
   iterate (Generated/Base.projected_point), the abort / memory-reboot rule after a failed line search (Generated/MainLoop), the
   curvature filter (Generated/FilterGen), the two stop tests (Generated/StopTests, used by the model as they are), the bounded
   history update (Generated/BfgsMem.update_X_and_G), when the matrices are reset and rebuilt (Generated/RebuildRule,
   Generated/MatsGen.rebuild) - is the model's pass, for a memory with as many gradients as points and an update function that
   returns as many gradients as it was given.  What stays hand-written in `body_src` is the ORDER of the effects (evaluation,
   update function, callback), which the bit-exact driver correspondence compares event by event with the implementation. *)
From Coq Require Import List ZArith Bool String Lia Floats.PrimFloat.
From LBFGSB Require Generated.Base Generated.MainLoop Generated.FilterGen Generated.BfgsMem Generated.RebuildRule Generated.MatsGen Generated.LoopControl.
From LBFGSB Require Properties.C02 Properties.C10 Properties.C13.
From LBFGSB Require Import Base.Res Model.SF Model.FloatVec Model.Driver Generated.StopTests Proofs.DriverSplit Proofs.DriverFilter.
Import ListNotations.
Open Scope Z_scope.

Section BodySrc.
  Variable U : user.
  Variable K : kern.
  Variable c : cfg.

  Definition mem_update_src (filt : bool) (x g : vec) (X1 G1 : list vec) (m : mats) : list vec * list vec * mats :=
    let m0 := if RebuildRule.reset_matrices filt X1 then None else m in
    let '(acc, X2, G2) := BfgsMem.update_X_and_G (vdot K) x g X1 G1 (maxcor c) (eps_sy c) in
    (X2, G2, if MatsGen.rebuild (RebuildRule.force_update filt X1) acc then Some (X2, G2) else m0).

  Definition fail_src (s : lst) (t1 : SF.st vec float vec float) : bool * lst :=
    if MainLoop.abort_after_failed_search (s_X s) then
      (false, mklst (s_x s) (s_f s) (s_g s) (s_X s) (s_G s) (s_mats s) (s_nit s) MAbnormal false 2 t1)
    else
      let '(X', G') := MainLoop.reboot_history (s_x s) (s_g s) (s_X s) (s_G s) in
      (true, mklst (s_x s) (s_f s) (s_g s) X' G' None (s_nit s + 1) MRestart (s_succ s) (s_warn s) t1).

  Definition accept_src (ft : option float) (s : lst) (a : float) (d : vec) (t1 : SF.st vec float vec float) : M ev (bool * lst) :=
    let f0_old := s_f s in
    let x := Base.projected_point (s_x s) a d (lb c) (ub c) in
    '(f0, g, t2) <- sf_fun_and_grad U x t1 ;;
    '(f0, f0_old, g, G, filt) <-
       match u_upd U with
       | None => ret (f0, f0_old, g, s_G s, false)
       | Some u => let r := u x f0 f0_old g (s_X s) (s_G s) in
                   '(a1, a2, a3, a4) <- call r (EvUpd x f0 f0_old g (s_X s) (s_G s) r) ;; ret (a1, a2, a3, a4, true)
       end ;;
    let '(X1, G1) := if filt then FilterGen.make_X_and_G_respect_strong_wolfe (vdot K) (eps_sy c) (s_X s) G else (s_X s, G) in
    if is_f0_target_reached (div f0 (SF.scale _ _ _ _ t2)) ft then ret (false, set_stop s f0 g x X1 G1 t2 MTarget 0)
    else if is_f0_min_change_reached f0 f0_old (ftol c) then ret (false, set_stop s f0 g x X1 G1 t2 MFtol 0)
    else
      let '(X2, G2, m2) := mem_update_src filt x g X1 G1 (s_mats s) in
      let s1 := mklst x f0 g X2 G2 m2 (s_nit s) (s_msg s) (s_succ s) (s_warn s) t2 in
      match u_cb U with
      | None => ret (true, mklst x f0 g X2 G2 m2 (s_nit s + 1) (s_msg s) (s_succ s) (s_warn s) t2)
      | Some cb =>
          let snap := snapshot s1 (s_nit s + 1) in
          b <- call (cb snap) (EvCb snap (cb snap)) ;;
          if b then ret (true, mklst x f0 g X2 G2 m2 (s_nit s + 1) MCallback true (s_warn s) t2)
          else ret (true, mklst x f0 g X2 G2 m2 (s_nit s + 1) (s_msg s) (s_succ s) (s_warn s) t2)
      end.

  Definition body_src (ft : option float) (s : lst) : M ev (bool * lst) :=
    let d := vsub (search K (s_x s) (s_g s) (s_mats s) (s_nit s)) (s_x s) in
    '(stp, t1) <- line_search U K c (s_x s) (s_f s) (s_g s) d (s_nit s)
                     (LoopControl.ls_budget (maxls c) (maxfun c) (SF.nfev _ _ _ _ (s_sf s))) (s_sf s) ;;
    match stp with
    | None => ret (fail_src s t1)
    | Some a => accept_src ft s a d t1
    end.

  Lemma mem_update_eq (filt : bool) (x g : vec) (X1 G1 : list vec) (m : mats) : List.length G1 = List.length X1 ->
    mem_update_src filt x g X1 G1 m =
    update_mem_f K c (filt && (1 <? List.length X1)%nat) x g X1 G1 (if filt && (List.length X1 =? 1)%nat then None else m).
  Proof.
    intros HL. unfold mem_update_src, update_mem_f, BfgsMem.update_X_and_G.
    rewrite (C10.C10_curvature_test_from_source K c x g (last X1 []) (last G1 [])). unfold last_or.
    destruct (curvature_ok K c x g (last X1 []) (last G1 [])); cbn [negb].
    - cbv zeta. unfold trim. rewrite !app_length, HL. cbn [List.length].
      destruct (Z.of_nat (List.length X1 + 1) >? maxcor c + 1); unfold MatsGen.rebuild; rewrite orb_true_r; reflexivity.
    - unfold MatsGen.rebuild, RebuildRule.force_update, RebuildRule.reset_matrices. rewrite orb_false_r. destruct (filt && (1 <? List.length X1)%nat); reflexivity.
  Qed.

  Lemma fail_eq (s : lst) t1 : fail_src s t1 = fail_step s t1.
  Proof. unfold fail_src, fail_step, MainLoop.abort_after_failed_search, MainLoop.reboot_history, last_or. destruct (Nat.eqb _ 1); reflexivity. Qed.

  (* the update function returns as many gradients as it was given *)
  Hypothesis upd_keeps_length : forall u x f fo g X G f1 fo1 g1 G1,
    u_upd U = Some u -> u x f fo g X G = Ok (f1, fo1, g1, G1) -> List.length G1 = List.length G.

  Lemma accept_eq ft s a d t1 : s_X s <> [] -> List.length (s_G s) = List.length (s_X s) ->
    accept_src ft s a d t1 = accept_step U K c ft s a d t1.
  Proof.
    intros HX HL. unfold accept_src, accept_step. rewrite C02.C02_projection_from_source.
    apply bind_ext. intros [[f0 g] t2].
    destruct (u_upd U) as [u|] eqn:Eu.
    - remember (u (vclip (vaxpy (s_x s) a d) (lb c) (ub c)) f0 (s_f s) g (s_X s) (s_G s)) as r eqn:Er.
      destruct r as [[[[a1 a2] a3] a4]|e|]; [|reflexivity|reflexivity].
      assert (L4 : List.length a4 = List.length (s_X s)) by (rewrite <- HL; eapply upd_keeps_length; [reflexivity|symmetry; exact Er]).
      cbn [bind call ret]. rewrite (C13.C13_filter_translated K c (s_X s) a4 HX L4).
      destruct (filter_mem K c (s_X s) a4) as [X1 G1] eqn:EF.
      assert (L1 : List.length G1 = List.length X1).
      { destruct (C13.C13_filter_spec K c (s_X s) a4 X1 G1 (eq_sym L4) HX EF) as (_ & _ & _ & _ & L & _). symmetry. exact L. }
      rewrite (mem_update_eq true _ _ X1 G1 (s_mats s) L1). reflexivity.
    - cbn [bind ret]. rewrite (mem_update_eq false _ _ (s_X s) (s_G s) (s_mats s) HL). reflexivity.
  Qed.

  Theorem body_from_source ft s : s_X s <> [] -> List.length (s_G s) = List.length (s_X s) ->
    body_src ft s = body U K c ft s.
  Proof.
    intros HX HL. unfold body_src, body, direction, ls_cap, LoopControl.ls_budget.
    apply bind_ext. intros [[a|] t1]; [apply accept_eq; assumption|rewrite fail_eq; reflexivity].
  Qed.
End BodySrc.

Theorem C01_body_from_source : forall (U : user) (K : kern) (c : cfg) (ft : option float) (s : lst),
  (forall u x f fo g X G f1 fo1 g1 G1, u_upd U = Some u -> u x f fo g X G = Ok (f1, fo1, g1, G1) -> List.length G1 = List.length G) ->
  s_X s <> [] -> List.length (s_G s) = List.length (s_X s) ->
  body_src U K c ft s = body U K c ft s.
Proof. intros U K c ft s Hu HX HL. exact (body_from_source U K c Hu ft s HX HL). Qed.
Print Assumptions C01_body_from_source.

(* the hypotheses are met by the state a fresh run enters its loop with, and the pass performs an iteration (x^2 on [-5, 5] with an
   update function that doubles the objective: the example of Properties/C13.v) *)
Definition KB : kern :=
  mkkern (search C13.KU) (fun _ h => match h with [_] => (1%float, TFG) | _ => (1%float, TConv) end) (vdot C13.KU).
Example C01_body_example :
  body_src C13.UU KB (C13.cU 1%float None) None C13.sU0 = body C13.UU KB (C13.cU 1%float None) None C13.sU0
  /\ s_X C13.sU0 <> [] /\ List.length (s_G C13.sU0) = List.length (s_X C13.sU0)
  /\ exists s1 tr, body_src C13.UU KB (C13.cU 1%float None) None C13.sU0 = (Ok (true, s1), tr) /\ s_nit s1 = 1 /\ s_x s1 = [0.5%float].
Proof.
  split; [vm_compute; reflexivity|]. split; [vm_compute; discriminate|]. split; [vm_compute; reflexivity|].
  eexists. eexists. split; [vm_compute; reflexivity|]. split; reflexivity.
Qed.
