(* C01 - convex box-constrained problems are solved to a first-order (KKT) point.
   Convergence of the floating-point iteration in finitely many steps is NOT a theorem of this development (it would need a
   global-convergence theory of L-BFGS-B plus a rounding analysis of BLAS/LAPACK code that is not modelled): that part is
   explored on the implementation by the search.  Proved here is every MECHANISM through which a run could "stall or report
   abnormal termination at a point that is far from stationary" for a reason of logic rather than rounding:
   (1) the quantity the caller recomputes, max|P(x-g)-x|, vanishes exactly at the KKT points of the box problem and bounds the
       KKT residual (exact rationals, every n, every kind of side);
   (2) a run with ftol = 0 cannot stop on the relative-reduction test, nor on a target / callback it does not have: its message
       is PGTOL (with projgr <= gtol), MAXITER, MAXFUN or ABNORMAL (binary64 driver model, every kernel behaviour);
   (3) ABNORMAL is reported only by a line search that fails from a single-point memory (the memory had been dropped and the
       step retried along the projected steepest-descent path): the result then carries no correction pair;
   (4) at a non-stationary feasible point the generalized Cauchy point makes progress: t* > 0, x_cp <> x, g.(x_cp - x) < 0 and the
       quadratic model strictly decreases; variables resting on a bound with the gradient pushing outward have a zero
       breakpoint, never enter the breakpoint list and do not move (exact model of get_cauchy_point of C08). *)
From Coq Require Import QArith Qabs List Bool Arith ZArith String Lqa Lia Floats.PrimFloat.
From LBFGSB Require Import Base.Res Base.Hoare Base.FloatOrd Model.SF Model.FloatVec Model.Driver Generated.StopTests Generated.Consts
  Model.Cauchy Proofs.CauchyProofs Proofs.CauchyProgress Proofs.Kkt
  Model.Dcsrch Model.DriverDcs Proofs.SFProofs Proofs.DriverReport Proofs.DriverReportRun Proofs.FtolZero Proofs.DriverFtolZero Proofs.DriverAbnormal.
Import ListNotations.

(* ------------------------------------------------------------------ (1) projected gradient and KKT, exact arithmetic *)
Section C01_kkt.
  Open Scope Q_scope.
  Variables (n : nat) (x g : nat -> Q) (lb ub : nat -> option Q).

  Theorem C01_kkt_iff : feasible n lb ub x -> (projgrQ n x g lb ub == 0 <-> Kkt.kkt n x g lb ub).
  Proof. exact (projgr_zero_iff_kkt n x g lb ub). Qed.

  Theorem C01_kkt_eps : forall e, feasible n lb ub x -> projgrQ n x g lb ub <= e -> kkt_eps n x g lb ub e.
  Proof. intros e. exact (projgr_small_kkt_eps n x g lb ub e). Qed.

  (* the same optimality condition, in the vocabulary of the Cauchy-point model: the projected steepest-descent direction vanishes *)
  Theorem C01_stationary_iff_kkt : stationary n x g lb ub <-> CauchyProgress.kkt n x g lb ub.
  Proof. exact (stationary_iff_kkt n x g lb ub). Qed.
End C01_kkt.

(* ------------------------------------------------------------------ (2), (3) exits of the driver *)
Section C01_exits.
  Open Scope Z_scope.
  Variable U : user.   (* any objective with a gradient (callable or finite differences), no update function *)
  Variable K : kern.   (* ANY behaviour of the Cauchy/subspace kernel, the line-search routine and the dot product *)
  Variable c : cfg.    (* any box, start, maxcor, budgets *)
  Hypothesis user_respects_array_equal : forall p q, veqb p q = true ->
    uf U p = uf U q /\ ug U p = ug U q /\ fd_stencil U p = fd_stencil U q /\ fd_est U p = fd_est U q.
  Hypothesis no_update_function : u_upd U = None.
  Hypothesis no_checkpoint : checkpoint c = None.
  Hypothesis ftol_zero : ftol c = 0%float.

  Theorem C01_never_ftol : forall r tr, run U K c = (Res.Ok r, tr) ->
    r_msg r <> MFtol /\ (u_cb U = None -> r_msg r <> MCallback) /\ (ftarget c = None -> r_msg r <> MTarget).
  Proof.
    apply (ftol_never_reported U K c user_respects_array_equal no_update_function no_checkpoint).
    intros f fo H. rewrite ftol_zero. exact (min_change_zero_never f fo H).
  Qed.

  (* limited only by the projected-gradient tolerance and the budgets *)
  Theorem C01_exits : u_cb U = None -> ftarget c = None -> forall gt, gtol c = TolConst gt ->
    forall r tr, run U K c = (Res.Ok r, tr) ->
      (r_msg r = MPgtol /\ leb (projgr (r_x r) (r_jac r) (lb c) (ub c)) gt = true) \/
      (r_msg r = MMaxiter /\ r_nit r >= maxiter c) \/
      (r_msg r = MMaxfun /\ r_nfev r >= maxfun c) \/
      (r_msg r = MAbnormal /\ r_success r = false /\ r_sk r = []) \/
      (* no documented message: only when the comparisons with the projected gradient involve a NaN *)
      ((r_msg r = MStart \/ r_msg r = MRestart) /\ ltb gt (projgr (r_x r) (r_jac r) (lb c) (ub c)) = false /\
       leb (projgr (r_x r) (r_jac r) (lb c) (ub c)) gt = false).
  Proof.
    intros Hcb Hft gt Hgt r tr H.
    destruct (C01_never_ftol r tr H) as (N1 & N2 & N3). specialize (N2 Hcb). specialize (N3 Hft).
    pose proof (report_run U K c r tr H) as R.
    assert (Eg : eff_gt U c = gt) by (unfold eff_gt; rewrite Hgt; reflexivity).
    destruct (r_msg r) eqn:Em; try congruence.
    - right. right. right. right. destruct (rp_doc _ _ _ _ R) as [[D _]|D]; [congruence|]. rewrite Eg in D. split; [left; reflexivity|exact D].
    - right. right. right. right. destruct (rp_doc _ _ _ _ R) as [[_ D]|D]; [congruence|]. rewrite Eg in D. split; [right; reflexivity|exact D].
    - right. right. right. left. destruct (abnormal_without_memory U K c r tr H Em) as [A1 A2]. auto.
    - left. split; [reflexivity|]. rewrite <- Eg. exact (rp_pgtol _ _ _ _ R Em).
    - right. left. split; [reflexivity|exact (rp_maxiter _ _ _ _ R Em)].
    - right. right. left. split; [reflexivity|exact (rp_maxfun _ _ _ _ R Em)].
  Qed.
End C01_exits.

(* (3) without any hypothesis on the run *)
Theorem C01_abnormal_only_without_memory : forall U K c r tr, run U K c = (Res.Ok r, tr) -> r_msg r = MAbnormal ->
  r_sk r = [] /\ r_success r = false.
Proof. exact abnormal_without_memory. Qed.

(* the relative-reduction test with ftol = 0 (as generated from main.py) fires only when the objective strictly INCREASED *)
Theorem C01_ftol_zero_needs_increase : forall f fo : float, is_f0_min_change_reached f fo 0%float = true -> ltb fo f = true.
Proof. intros f fo. exact (min_change_zero_increase f fo). Qed.

(* ------------------------------------------------------------------ (4) progress of the generalized Cauchy point *)
Section C01_cauchy.
  Open Scope Q_scope.
  Variables (n m2 : nat) (x g : nat -> Q) (lb ub : nat -> option Q) (theta : Q).
  Variables (W Mn : nat -> nat -> Q) (Md : Q) (use_factor : bool) (eps : Q).
  Notation gcp := (gcp n m2 x g lb ub theta W Mn Md use_factor eps).

  Theorem C01_cauchy_progress : feasible n lb ub x ->
    (exists i, (i < n)%nat /\ ~ d0 x g lb ub i == 0) ->                 (* x is not stationary *)
    0 < f2_0 n m2 x g lb ub theta W Mn Md use_factor ->                 (* positive model curvature along the first segment *)
    ~ Md == 0 -> Msym m2 Mn Md -> 0 < eps * f2org n x g lb ub theta ->
    forall xcp cc fx ts ns mg, gcp = Cauchy.Ok xcp cc fx ts ns mg ->
      0 < ts /\ (exists i, (i < n)%nat /\ ~ xcp i == x i) /\
      sumn n (fun i => g i * (xcp i - x i)) < 0 /\
      mval n m2 g theta W Mn Md use_factor (fun i => xcp i - x i) < 0.
  Proof. exact (gcp_progress n m2 x g lb ub theta W Mn Md use_factor eps). Qed.

  (* variables resting on a bound with the gradient pushing outward: zero direction, never a breakpoint, do not move *)
  Theorem C01_outward_variables_stay : feasible n lb ub x -> forall i,
    (lb i = Some (x i) /\ 0 < g i) \/ (ub i = Some (x i) /\ g i < 0) ->
    d0 x g lb ub i == 0 /\
    forall xcp cc fx ts ns mg, gcp = Cauchy.Ok xcp cc fx ts ns mg -> ~ In i fx /\ ((i < n)%nat -> xcp i == x i).
  Proof. exact (gcp_outward_bound_stays_eq n m2 x g lb ub theta W Mn Md use_factor eps). Qed.

  (* at a stationary point the Cauchy point is x itself *)
  Theorem C01_stationary_stays : feasible n lb ub x -> stationary n x g lb ub ->
    forall xcp cc fx ts ns mg, gcp = Cauchy.Ok xcp cc fx ts ns mg -> fx = [] /\ forall i, (i < n)%nat -> xcp i == x i.
  Proof. exact (stationary_gcp_stays n m2 x g lb ub theta W Mn Md use_factor eps). Qed.
End C01_cauchy.

(* the stop-test expressions of main.py are the ones the model uses (regenerated on every run) *)
Theorem C01_source_pins :
  min_change_test_argument_src = ["f0, f0_old, ftol"; "f0, f0_old, ftol"]%string.
Proof. reflexivity. Qed.

Print Assumptions C01_kkt_iff.
Print Assumptions C01_kkt_eps.
Print Assumptions C01_never_ftol.
Print Assumptions C01_exits.
Print Assumptions C01_abnormal_only_without_memory.
Print Assumptions C01_ftol_zero_needs_increase.
Print Assumptions C01_cauchy_progress.
Print Assumptions C01_outward_variables_stay.
Print Assumptions C01_stationary_stays.

(* Non-vacuity: a one-variable run of f(x) = x^2 on [-5, 5] from x0 = 1 with ftol = 0, the DCSRCH MODEL as line-search routine and a
   kernel that proposes the minimiser: one iteration (unit step accepted with CONVERGENCE by DCSRCH), then the projected
   gradient is 0 and the run stops with the PGTOL message at the KKT point. *)
Definition U1 : user :=
  mkuser (fun x => Res.Ok (mul (hd 0%float x) (hd 0%float x))) (fun x => Res.Ok [mul 2%float (hd 0%float x)]) None None None
         (Res.Ok 0%float) (Res.Ok 0%float) false (fun _ => []) (fun _ _ _ => Res.Ok []).
Definition K1 : kern :=
  mkkern (fun _ _ _ _ => [0%float]) (DriverDcs.dcs_model Dcsrch.sq_mul) (fun a b => mul (hd 0%float a) (hd 0%float b)).
Definition c1 : cfg :=
  mkcfg [1%float] [(-5)%float] [5%float] 3 None 0%float (TolConst 0x1.0c6f7a0b5ed8dp-20%float) 5 10 20 1e8%float
        0.001%float 0.9%float 0.1%float 0x1.fb4c5b3a1b5bcp-53%float None.
Example C01_example : exists r tr, run U1 K1 c1 = (Res.Ok r, tr) /\ r_x r = [0%float] /\ r_fun r = 0%float /\ r_msg r = MPgtol /\ r_nit r = 1%Z /\
  ftol c1 = 0%float /\ checkpoint c1 = None /\ u_upd U1 = None /\ u_cb U1 = None /\ ftarget c1 = None.
Proof. eexists. eexists. split; [vm_compute; reflexivity|]. repeat split. Qed.
