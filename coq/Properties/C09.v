(* C09 — restatements only.  Model: Subspace.v; proofs: SubspaceProofs.v.
   The MathComp statement (Sherman-Morrison-Woodbury, all sizes, any field) is restated in C09_SMW.v. *)
From Coq Require Import List QArith.
From LBFGSB Require Import Model.Subspace Proofs.SubspaceProofs Proofs.SubspaceDescent.
Import ListNotations.
Open Scope Q_scope.

(* subspace_gen hint inp: hint = None solves the small system by Gaussian elimination inside the model
   (subspace inp := subspace_gen None inp); hint = Some v proposes a solution.  In both cases the model accepts
   the candidate only after the exact certificate, so every statement holds for every hint. *)
Theorem C09_subspace_is_gen_None : forall inp : input, subspace inp = subspace_gen None inp.
Proof. reflexivity. Qed.
Print Assumptions C09_subspace_is_gen_None.

(* free set of get_freev on a feasible Cauchy point = { i | lb_i < x_cp[i] < ub_i } *)
Theorem C09_sub_free_set :
  forall (hint : option (list Q)) (inp : input) (o : output) (n : nat),
    subspace_gen hint inp = SOk o -> wf inp n -> feasible (i_xc inp) (i_lb inp) (i_ub inp) ->
    forall i : nat, (i < n)%nat ->
      (nth i (o_free o) false = true <->
       lb_lt (nth i (i_lb inp) None) (nth i (i_xc inp) 0) /\ ub_lt (nth i (i_xc inp) 0) (nth i (i_ub inp) None)).
Proof. exact sub_free_set. Qed.
Print Assumptions C09_sub_free_set.

(* variables on a bound at the Cauchy point stay fixed *)
Theorem C09_sub_fixed :
  forall (hint : option (list Q)) (inp : input) (o : output) (n : nat),
    subspace_gen hint inp = SOk o -> wf inp n -> feasible (i_xc inp) (i_lb inp) (i_ub inp) ->
    forall i : nat, (i < n)%nat -> nth i (o_free o) false = false -> nth i (o_xbar o) 0 == nth i (i_xc inp) 0.
Proof. exact sub_fixed. Qed.
Print Assumptions C09_sub_fixed.

Theorem C09_sub_fixed_all :
  forall (hint : option (list Q)) (inp : input) (o : output),
    subspace_gen hint inp = SOk o -> (forall i : nat, nth i (o_free o) false = false) -> o_xbar o = i_xc inp.
Proof. exact sub_fixed_all. Qed.
Print Assumptions C09_sub_fixed_all.

(* feasibility, 0 < alpha* <= 1, the clip is the identity, the hit coordinate is exactly on its bound,
   alpha* is the largest factor <= 1 that keeps x_cp + beta Z d_hat in the box *)
Theorem C09_sub_feasible_maximal :
  forall (hint : option (list Q)) (inp : input) (o : output) (n : nat),
    subspace_gen hint inp = SOk o -> wf inp n -> feasible (i_xc inp) (i_lb inp) (i_ub inp) ->
    feasible (o_xbar o) (i_lb inp) (i_ub inp) /\
    (0 < o_alpha o /\ o_alpha o <= 1) /\
    (forall i : nat, (i < n)%nat -> nth i (o_xbar o) 0 == nth i (i_xc inp) 0 + o_alpha o * nth i (o_dfull o) 0) /\
    ((o_hit o = None /\ o_alpha o = 1) \/
     (exists k : nat, o_hit o = Some k /\ (k < n)%nat /\ nth k (o_free o) false = true /\
        ((exists u : Q, 0 < nth k (o_dfull o) 0 /\ nth k (i_ub inp) None = Some u /\ nth k (o_xbar o) 0 == u) \/
         (exists l : Q, nth k (o_dfull o) 0 < 0 /\ nth k (i_lb inp) None = Some l /\ nth k (o_xbar o) 0 == l)))) /\
    (forall beta : Q, o_alpha o < beta -> beta <= 1 ->
       ~ feasible (map2 (fun x d : Q => x + beta * d) (i_xc inp) (o_dfull o)) (i_lb inp) (i_ub inp)).
Proof. exact sub_feasible_maximal. Qed.
Print Assumptions C09_sub_feasible_maximal.

(* a successful run returns the exact minimiser direction of the model restricted to the free variables:
   H d_hat == - r_hat with H = theta I - (Z^T W) M (W^T Z) and r_hat = Z^T (g + theta (x_cp - x) - W M c) *)
Theorem C09_sub_newton_exact :
  forall (hint : option (list Q)) (inp : input) (o : output) (n : nat),
    subspace_gen hint inp = SOk o -> wf inp n -> ~ i_theta inp == 0 ->
    let ZtW := gather (o_free o) (i_W inp) in
    let A := transpose (length (i_M inp)) ZtW in
    o_rhat o = gather (o_free o) (rvec inp) /\
    veq (Hmul (i_theta inp) (i_M inp) A ZtW (o_dhat o)) (vscale (- (1)) (o_rhat o)).
Proof. exact sub_newton_exact. Qed.
Print Assumptions C09_sub_newton_exact.

(* abstract decrease: H d = -r, d^T H d >= 0  ==>  r.d = - d^T H d <= 0 and q(alpha) <= 0 on [0,2] *)
Theorem C09_sub_decrease_rd :
  forall (V : Type) (veqV : V -> V -> Prop) (dotV : V -> V -> Q) (HV oppV : V -> V),
    (forall a b c : V, veqV a b -> dotV a c == dotV b c) ->
    (forall a c : V, dotV (oppV a) c == - dotV a c) ->
    forall r d : V, veqV (HV d) (oppV r) -> 0 <= dotV (HV d) d ->
    dotV r d == - dotV (HV d) d /\ dotV r d <= 0.
Proof. exact decrease_rd. Qed.
Print Assumptions C09_sub_decrease_rd.

Theorem C09_sub_decrease_cond :
  forall (V : Type) (veqV : V -> V -> Prop) (dotV : V -> V -> Q) (HV oppV : V -> V),
    (forall a b c : V, veqV a b -> dotV a c == dotV b c) ->
    (forall a c : V, dotV (oppV a) c == - dotV a c) ->
    forall r d : V, veqV (HV d) (oppV r) -> 0 <= dotV (HV d) d ->
    forall alpha : Q, 0 <= alpha -> alpha <= 2 ->
      alpha * dotV r d + alpha * alpha / 2 * dotV (HV d) d <= 0.
Proof. exact sub_decrease_cond. Qed.
Print Assumptions C09_sub_decrease_cond.

(* on the model: the step actually taken does not increase the quadratic model, given d_hat^T H d_hat >= 0 *)
Theorem C09_sub_model_decrease :
  forall (hint : option (list Q)) (inp : input) (o : output) (n : nat),
    subspace_gen hint inp = SOk o -> wf inp n -> feasible (i_xc inp) (i_lb inp) (i_ub inp) -> ~ i_theta inp == 0 ->
    let ZtW := gather (o_free o) (i_W inp) in
    let A := transpose (length (i_M inp)) ZtW in
    let Hd := Hmul (i_theta inp) (i_M inp) A ZtW (o_dhat o) in
    let kappa := dot_raw Hd (o_dhat o) in
    let rd := dot_raw (o_rhat o) (o_dhat o) in
    0 <= kappa ->
    rd == - kappa /\ rd <= 0 /\ o_alpha o * rd + o_alpha o * o_alpha o / 2 * kappa <= 0.
Proof. exact sub_model_decrease. Qed.
Print Assumptions C09_sub_model_decrease.

(* descent: only the scalar combination is proved (see SubspaceProofs.v for what is missing) *)
Theorem C09_descent_partial :
  forall gd dBd m_cp q : Q, 0 <= dBd -> m_cp < 0 -> q <= 0 -> gd + (1 # 2) * dBd == m_cp + q -> gd < 0.
Proof. exact descent_partial. Qed.
Print Assumptions C09_descent_partial.

(* ---- the quadratic model itself (Proofs/SubspaceDescent.v): m(v) = g.v + 1/2 v^T B v with B = theta I - W M W^T;
   c_ok: the input c is W^T (x_cp - x) (what the Cauchy point hands over: C08_gcp_c); Msym: the middle matrix is symmetric *)
(* exact change of the model value along the subspace step; hence it does not increase the model when the reduced curvature
   along d_hat is non-negative, and strictly decreases it when that curvature is positive *)
Theorem C09_sub_step_model_identity :
  forall (hint : option (list Q)) (inp : input) (o : output) (n : nat),
    subspace_gen hint inp = SOk o -> wf inp n -> feasible (i_xc inp) (i_lb inp) (i_ub inp) -> ~ i_theta inp == 0 ->
    c_ok inp -> Msym (i_M inp) ->
    mval inp (vsub (o_xbar o) (i_x inp)) ==
    mval inp (vsub (i_xc inp) (i_x inp)) + (o_alpha o * o_alpha o / 2 - o_alpha o) * kappa_of inp o.
Proof. exact sub_step_model_identity. Qed.
Print Assumptions C09_sub_step_model_identity.

Theorem C09_sub_step_model_decrease :
  forall (hint : option (list Q)) (inp : input) (o : output) (n : nat),
    subspace_gen hint inp = SOk o -> wf inp n -> feasible (i_xc inp) (i_lb inp) (i_ub inp) -> ~ i_theta inp == 0 ->
    c_ok inp -> Msym (i_M inp) ->
    (0 <= kappa_of inp o -> mval inp (vsub (o_xbar o) (i_x inp)) <= mval inp (vsub (i_xc inp) (i_x inp))) /\
    (0 < kappa_of inp o -> mval inp (vsub (o_xbar o) (i_x inp)) < mval inp (vsub (i_xc inp) (i_x inp))).
Proof.
  intros hint inp o n H1 H2 H3 H4 H5 H6. split.
  - exact (sub_step_model_decrease hint inp o n H1 H2 H3 H4 H5 H6).
  - exact (sub_step_model_strict hint inp o n H1 H2 H3 H4 H5 H6).
Qed.
Print Assumptions C09_sub_step_model_decrease.

(* with B positive semi-definite the step handed to the line search is a descent direction as soon as the Cauchy point
   decreased the model *)
Theorem C09_sub_descent_direction :
  forall (hint : option (list Q)) (inp : input) (o : output) (n : nat),
    subspace_gen hint inp = SOk o -> wf inp n -> feasible (i_xc inp) (i_lb inp) (i_ub inp) -> ~ i_theta inp == 0 ->
    c_ok inp -> Msym (i_M inp) ->
    (forall v, length v = n -> 0 <= qform inp v v) ->
    mval inp (vsub (o_xbar o) (i_x inp)) <= mval inp (vsub (i_xc inp) (i_x inp)) /\
    (mval inp (vsub (i_xc inp) (i_x inp)) < 0 -> dot (i_g inp) (vsub (o_xbar o) (i_x inp)) < 0).
Proof. exact sub_descent_direction_Bpsd. Qed.
Print Assumptions C09_sub_descent_direction.

(* Non-vacuity: the concrete instances of Proofs/SubspaceProofs.v (module Ex: n = 3, one pair; wide box alpha* = 1, truncating
   box alpha* = 7/20, no free variable) to which the theorems above are applied there by computation. *)
Example C09_nonvacuous := (conj SubspaceProofs.Ex.sub_free_set_ex (conj SubspaceProofs.Ex.sub_fixed_ex SubspaceProofs.Ex.sub_fixed_all_ex)).
