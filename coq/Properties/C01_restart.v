(* C01 (part): A WHOLE RESTARTED RUN, FROM THE SOURCE.  minimize_lbfgsb with a checkpoint, as modelled (Model/Driver.v: run_checked),
   with the reconstruction of the history replaced by the translated initialize_X_and_G (Generated/RestoreGen.v), the curvature
   filter by the translated one (Generated/FilterGen.v), the first memory update by the translated update_X_and_G and rebuild rule
   (Generated/BfgsMem, MatsGen, RebuildRule) and the loop by the loop assembled from translated decisions (Properties/C01_loop.v),
   is the model's restarted run, for a checkpoint with as many gradient differences as point differences and an update
   function that returns as many gradients as it was given.  Hand-written in `run_checked_src`: the order of the effects before
   the loop and the construction of the result (compared with the implementation by the `driver:restart` correspondence). *)
From Coq Require Import List ZArith Bool String Lia Floats.PrimFloat.
From LBFGSB Require Generated.RestoreGen Generated.FilterGen Generated.BfgsMem Generated.MatsGen Generated.RebuildRule.
From LBFGSB Require Properties.C01_loop Properties.C06 Properties.C10 Properties.C13.
From LBFGSB Require Import Base.Res Model.SF Model.FloatVec Model.Driver Generated.StopTests Proofs.DriverSplit.
Import ListNotations.
Open Scope Z_scope.

Section RestartSrc.
  Variable U : user.
  Variable K : kern.
  Variable c : cfg.
  Variable ck : result.

  (* the first call of update_lbfgs_matrices (before the loop): is_force_update = len(X) > 1, matrices not yet built *)
  Definition start_update_src (x g : vec) (X G : list vec) : list vec * list vec * mats :=
    let '(acc, X2, G2) := BfgsMem.update_X_and_G (vdot K) x g X G (maxcor c) (eps_sy c) in
    (X2, G2, if MatsGen.rebuild (RebuildRule.force_update_at_start X) acc then Some (X2, G2) else None).

  Definition run_checked_src (x : vec) : M ev result :=
    let '(X, G) := RestoreGen.initialize_X_and_G (maxcor c) (r_x ck) (r_jac ck) (r_sk ck) (r_yk ck) in
    let t0 := SF.set_counters _ _ _ _ (r_nfev ck) (r_njev ck) (SF.init vec float vec float x fone) in
    let f0 := r_fun ck in
    ft <- match ftarget c with
          | None => ret None
          | Some (TolConst v) => ret (Some v)
          | Some TolCall => v <- call (u_ftarget U) (EvFt (u_ftarget U)) ;; ret (Some v)
          end ;;
    gt <- match gtol c with
          | TolConst v => ret v
          | TolCall => call (u_gtol U) (EvGt (u_gtol U))
          end ;;
    if is_f0_target_reached (div f0 (SF.scale _ _ _ _ t0)) ft then
      ret (mkres (r_x ck) (r_fun ck) (r_jac ck) (r_nfev ck) (r_njev ck) (r_nit ck) 0 MTarget true (r_sk ck) (r_yk ck))
    else
      let g := r_jac ck in
      t3 <- match u_scaler U with
            | None => ret t0
            | Some sc => let r := sc x g (lb c) (ub c) in
                         s <- call r (EvScaler x g (lb c) (ub c) r) ;; ret (SF.set_scale _ _ _ _ s t0)
            end ;;
      let f0 := mul f0 (SF.scale _ _ _ _ t3) in
      let g := vscale g (SF.scale _ _ _ _ t3) in
      '(f0, g, G) <- match u_upd U with
                     | None => ret (f0, g, G)
                     | Some u => let r := u x f0 f0 g X G in
                                 '(a1, _, a3, a4) <- call r (EvUpd x f0 f0 g X G r) ;; ret (a1, a3, a4)
                     end ;;
      let '(X, G) := match u_upd U, X with
                     | Some _, _ :: _ => FilterGen.make_X_and_G_respect_strong_wolfe (vdot K) (eps_sy c) X G
                     | _, _ => (X, G)
                     end in
      let '(X1, G1, m1) := match X with
                           | [] => ([x], [g], None)
                           | _ => start_update_src x g X G
                           end in
      s <- C01_loop.loop_src U K c (fuel0 c (r_nit ck)) ft gt (mklst x f0 g X1 G1 m1 (r_nit ck) MStart false 2 t3) ;;
      let s := classify c gt s in
      ret (snapshot s (s_nit s)).

  Lemma start_update_eq (x g : vec) (X G : list vec) : List.length G = List.length X ->
    start_update_src x g X G = update_mem_f K c (1 <? List.length X)%nat x g X G None.
  Proof.
    intros HL. unfold start_update_src, update_mem_f, BfgsMem.update_X_and_G.
    rewrite (C10.C10_curvature_test_from_source K c x g (last X []) (last G [])). unfold last_or.
    destruct (curvature_ok K c x g (last X []) (last G [])); cbn [negb].
    - cbv zeta. unfold trim. rewrite !app_length, HL. cbn [List.length].
      destruct (Z.of_nat (List.length X + 1) >? maxcor c + 1); unfold MatsGen.rebuild; rewrite orb_true_r; reflexivity.
    - unfold MatsGen.rebuild, RebuildRule.force_update_at_start. rewrite orb_false_r. destruct (1 <? List.length X)%nat; reflexivity.
  Qed.

  Lemma push_bounded_lengths : forall (p1 p2 a1 a2 : list vec), List.length p1 = List.length p2 -> List.length a1 = List.length a2 ->
    List.length (push_bounded c p1 a1) = List.length (push_bounded c p2 a2).
  Proof.
    induction p1 as [|x p1 IH]; intros [|y p2] a1 a2 Hp Ha; try discriminate; cbn [push_bounded]; [exact Ha|].
    apply IH; [cbn in Hp; lia|]. rewrite Ha. destruct (Z.of_nat (List.length a2) >? maxcor c); rewrite !app_length; cbn [List.length]; [|lia].
    destruct a1, a2; cbn in *; try discriminate; lia.
  Qed.

  Lemma restore_points_length (x : vec) (sk : list vec) : List.length (restore_points x sk) = List.length sk.
  Proof.
    unfold restore_points. rewrite rev_length, map_length.
    assert (Hc : forall rs acc, List.length (cumsum acc rs) = List.length rs) by (induction rs as [|r rs IH]; intros acc; cbn; [reflexivity|f_equal; apply IH]).
    rewrite Hc, rev_length. reflexivity.
  Qed.

  Lemma restore_lengths : List.length (r_yk ck) = List.length (r_sk ck) -> List.length (snd (restore c ck)) = List.length (fst (restore c ck)).
  Proof.
    intros HL. unfold restore. destruct (r_sk ck) as [|s0 sk] eqn:E; [reflexivity|]. rewrite <- E in *. cbn [fst snd].
    apply push_bounded_lengths; [|reflexivity]. rewrite !restore_points_length. exact HL.
  Qed.

  Hypothesis upd_keeps_length : forall u x f fo g X G f1 fo1 g1 G1,
    u_upd U = Some u -> u x f fo g X G = Ok (f1, fo1, g1, G1) -> List.length G1 = List.length G.
  Hypothesis Hck : checkpoint c = Some ck.
  Hypothesis Hyk : List.length (r_yk ck) = List.length (r_sk ck).

  Lemma restore_tie : RestoreGen.initialize_X_and_G (maxcor c) (r_x ck) (r_jac ck) (r_sk ck) (r_yk ck) = restore c ck.
  Proof.
    destruct (r_sk ck) as [|s0 sk] eqn:E.
    - unfold restore. rewrite E. destruct (r_yk ck); [reflexivity|discriminate].
    - rewrite <- E in *. apply C06.C06_restore_translated; [exact Hyk|rewrite E; discriminate].
  Qed.

  Lemma bind_ret_l {A B} (a : A) (f : A -> M ev B) : bind (ret a) f = f a.
  Proof. unfold bind, ret. destruct (f a) as [r t]. reflexivity. Qed.

  Theorem run_checked_from_source (x : vec) : run_checked_src x = run_checked U K c x.
  Proof.
    unfold run_checked_src, run_checked. rewrite Hck, restore_tie.
    pose proof (restore_lengths Hyk) as HL0. destruct (restore c ck) as [X G]. cbn [fst snd] in HL0.
    rewrite bind_ret_l. apply bind_ext. intros ft. apply bind_ext. intros gt.
    destruct (is_f0_target_reached _ ft); [reflexivity|].
    rewrite bind_ret_l. apply bind_ext. intros t3.
    assert (Fin : forall f1 g1 (X' G' : list vec), List.length G' = List.length X' ->
      (let '(X1, G1, m1) := match X' with [] => ([x], [g1], None) | _ :: _ => start_update_src x g1 X' G' end in
       s <- C01_loop.loop_src U K c (fuel0 c (r_nit ck)) ft gt (mklst x f1 g1 X1 G1 m1 (r_nit ck) MStart false 2 t3) ;;
       (let s0 := classify c gt s in ret (snapshot s0 (s_nit s0)))) =
      (let '(X1, G1, m1) := match X' with [] => ([x], [g1], None) | _ :: _ => update_mem_f K c (1 <? List.length X')%nat x g1 X' G' None end in
       s <- loop U K c (fuel0 c (r_nit ck)) ft gt (mklst x f1 g1 X1 G1 m1 (r_nit ck) MStart false 2 t3) ;;
       (let s0 := classify c gt s in ret (snapshot s0 (s_nit s0))))).
    { intros f1 g1 X' G' HL'. destruct X' as [|p X'].
      - rewrite (C01_loop.C01_loop_from_source U K c _ ft gt _ upd_keeps_length); [reflexivity|cbn; discriminate|reflexivity].
      - rewrite (start_update_eq x g1 (p :: X') G' HL').
        destruct (update_mem_f K c (1 <? List.length (p :: X'))%nat x g1 (p :: X') G' None) as [[X1 G1] m1] eqn:EU.
        destruct (C01_loop.update_mem_f_inv K c _ _ _ _ _ _ _ _ _ (ltac:(discriminate) : p :: X' <> []) HL' EU) as [N1 L1].
        rewrite (C01_loop.C01_loop_from_source U K c _ ft gt _ upd_keeps_length); [reflexivity|exact N1|exact L1]. }
    destruct (u_upd U) as [u|] eqn:Eu.
    - remember (u x (mul (r_fun ck) (SF.scale _ _ _ _ t3)) (mul (r_fun ck) (SF.scale _ _ _ _ t3)) (vscale (r_jac ck) (SF.scale _ _ _ _ t3)) X G) as r eqn:Er.
      destruct r as [[[[a1 a2] a3] a4]|e|]; [|reflexivity|reflexivity].
      assert (L4 : List.length a4 = List.length X) by (rewrite <- HL0; eapply upd_keeps_length; [reflexivity|symmetry; exact Er]).
      cbn [bind call ret]. destruct X as [|p X].
      + match goal with |- (let '(r, t') := ?A in _) = (let '(r, t') := ?B in _) => assert (HAB : A = B); [|rewrite HAB; reflexivity] end.
        refine (Fin a1 a3 [] a4 _). destruct a4; [reflexivity|discriminate].
      + rewrite (C13.C13_filter_translated K c (p :: X) a4 (ltac:(discriminate)) L4).
        destruct (filter_mem K c (p :: X) a4) as [Xf Gf] eqn:EF.
        destruct (C13.C13_filter_spec K c (p :: X) a4 Xf Gf (eq_sym L4) (ltac:(discriminate)) EF) as (_ & _ & _ & _ & L & _).
        match goal with |- (let '(r, t') := ?A in _) = (let '(r, t') := ?B in _) => assert (HAB : A = B); [|rewrite HAB; reflexivity] end.
        refine (Fin a1 a3 Xf Gf _). symmetry. exact L.
    - rewrite !bind_ret_l. destruct X as [|p X]; [exact (Fin _ _ [] G HL0)|exact (Fin _ _ (p :: X) G HL0)].
  Qed.
End RestartSrc.

Theorem C01_restart_from_source : forall (U : user) (K : kern) (c : cfg) (ck : result) (x : vec),
  (forall u x f fo g X G f1 fo1 g1 G1, u_upd U = Some u -> u x f fo g X G = Ok (f1, fo1, g1, G1) -> List.length G1 = List.length G) ->
  checkpoint c = Some ck -> List.length (r_yk ck) = List.length (r_sk ck) ->
  run_checked_src U K c ck x = run_checked U K c x.
Proof. intros U K c ck x Hu Hc Hy. exact (run_checked_from_source U K c ck Hu Hc Hy x). Qed.
Print Assumptions C01_restart_from_source.

(* the hypotheses are met by the checkpoint of the example of Properties/C06.v (x^2 interrupted after one iteration, restarted with
   maxiter 4): both sides are the same restarted run, which performs three more iterations *)
Example C01_restart_example :
  let c := C06.cE 4 0.5%float (Some C06.ckE) in
  checkpoint c = Some C06.ckE /\ List.length (r_yk C06.ckE) = List.length (r_sk C06.ckE) /\ r_sk C06.ckE <> [] /\
  run_checked_src C06.UE C06.KE c C06.ckE [0.5%float] = run_checked C06.UE C06.KE c [0.5%float] /\
  exists r tr, run_checked_src C06.UE C06.KE c C06.ckE [0.5%float] = (Ok r, tr) /\ r_nit r = 4 /\ r_x r = [0.0625%float].
Proof.
  cbv zeta. split; [reflexivity|]. split; [vm_compute; reflexivity|]. split; [vm_compute; discriminate|]. split; [vm_compute; reflexivity|].
  eexists. eexists. split; [vm_compute; reflexivity|]. split; reflexivity.
Qed.
