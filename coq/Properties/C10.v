(* C10 - the limited-memory matrix is the BFGS matrix of the stored pairs and stays SPD: MEMORY DISCIPLINE half
   (the matrix half is Properties/C10_matrix.v).  Restates Proofs/DriverMemory.v on the memory functions of the driver
   model (update_mem = update_lbfgs_matrices's effect on X, G and on which history the matrices are built from). *)
From Coq Require Import List ZArith Bool String Lia Floats.PrimFloat.
From LBFGSB Require Generated.BfgsMem Generated.MatsGen Model.DriverKern Proofs.MatsTie.
From LBFGSB Require Import Base.Res Model.SF Model.FloatVec Model.Driver Generated.Memory Proofs.DriverMemory.
Import ListNotations.
Open Scope Z_scope.

Section C10.
  Variable K : kern.   (* any dot product *)
  Variable c : cfg.    (* any maxcor >= 0, any eps_SY *)
  Hypothesis maxcor_nonneg : 0 <= maxcor c.

  (* After ANY sequence of candidate updates (accepted and rejected mixed), starting from a one-point memory:
     X and G have the same length, between 1 and maxcor + 1 (at most maxcor pairs); every adjacent stored pair passed the
     curvature test s.y > eps * y.y; and the matrices are either the initial ones (no accepted update yet) or were built from
     exactly the current history. *)
  Theorem C10_memory_history : forall cands x0 g0,
    let '(X, G, m) := fold_left (feed K c) cands ([x0], [g0], None) in
    mem_ok K c X G /\ (m = None \/ m = Some (X, G)).
  Proof. intros cands x0 g0. exact (mem_history K c maxcor_nonneg cands x0 g0). Qed.

  (* a rejected candidate leaves the memory AND the matrices untouched *)
  Theorem C10_reject_inert : forall (xk gk : vec) (X G : list vec) m,
    curvature_ok K c xk gk (last X []) (last G []) = false -> update_mem K c xk gk X G m = (X, G, m).
  Proof. exact (mem_reject_inert K c). Qed.

  (* an accepted candidate is appended at the end; when the memory is full the OLDEST entry is the one discarded; the
     matrices are rebuilt from the new history *)
  Theorem C10_accept_fifo : forall (xk gk : vec) (X G : list vec) m,
    curvature_ok K c xk gk (last X []) (last G []) = true -> List.length X = List.length G ->
    Z.of_nat (List.length X) <= maxcor c + 1 ->
    let '(X', G', m') := update_mem K c xk gk X G m in
    m' = Some (X', G') /\
    (Z.of_nat (List.length X) <= maxcor c -> X' = X ++ [xk] /\ G' = G ++ [gk]) /\
    (Z.of_nat (List.length X) = maxcor c + 1 -> X' = tl X ++ [xk] /\ G' = tl G ++ [gk]).
  Proof. exact (mem_accept K c maxcor_nonneg). Qed.
End C10.

(* the functions the model mirrors are the ones in the source (Generated/Memory.v is rewritten from bfgsmats.py on every run) *)
Theorem C10_memory_source :
  is_update_X_and_G_src = ["yk = gk - g_old"; "sTy = (xk - x_old).dot(yk)"; "yTy = yk.dot(yk)"; "if sTy > eps * yTy: return True"; "return False"]%string /\
  update_X_and_G_src = ["if not is_update_X_and_G(xk, gk, X[-1], G[-1], eps): return False"; "X.append(xk)"; "G.append(gk)";
                        "if len(X) > maxcor + 1: X.popleft() G.popleft()"; "return True"]%string /\
  update_lbfgs_matrices_memory_calls = ["update_X_and_G(xk, gk, X, G, maxcor, eps)"]%string /\
  update_lbfgs_matrices_tests = ["is_force_update or is_current_update_accepted"; "is_check_factorization"]%string.
Proof. repeat split; reflexivity. Qed.

(* the curvature test of the model IS bfgsmats.is_update_X_and_G, translated from its source on every run (the two dot products
   are the BLAS oracle of the kernel record) *)
Theorem C10_curvature_test_from_source : forall (K : kern) (c : cfg) xk gk x_old g_old,
  LBFGSB.Generated.BfgsMem.is_update_X_and_G (vdot K) xk gk x_old g_old (eps_sy c) = curvature_ok K c xk gk x_old g_old.
Proof. intros. unfold LBFGSB.Generated.BfgsMem.is_update_X_and_G, curvature_ok. destruct (ltb _ _); reflexivity. Qed.

(* ... and so is the bounded history: bfgsmats.update_X_and_G (append, drop the oldest when more than maxcor + 1 points), translated
   on every run, is the history part of the model's update_mem for histories of equal length *)
Theorem C10_update_X_and_G_from_source : forall (K : kern) (c : cfg) xk gk (X G : list vec) m,
  List.length G = List.length X ->
  let '(acc, X1, G1) := LBFGSB.Generated.BfgsMem.update_X_and_G (vdot K) xk gk X G (maxcor c) (eps_sy c) in
  let '(X2, G2, m2) := update_mem K c xk gk X G m in
  X1 = X2 /\ G1 = G2 /\ (acc = false -> m2 = m) /\ (acc = true -> m2 = Some (X2, G2)).
Proof.
  intros K c xk gk X G m HL. unfold LBFGSB.Generated.BfgsMem.update_X_and_G, update_mem, last_or.
  rewrite (C10_curvature_test_from_source K c xk gk (last X []) (last G [])).
  destruct (curvature_ok K c xk gk (last X []) (last G [])); cbn [negb].
  - unfold trim. rewrite !app_length, HL. cbn [List.length].
    destruct (Z.of_nat (List.length X + 1) >? maxcor c + 1); repeat split; auto; discriminate.
  - repeat split; auto. discriminate.
Qed.

(* TRANSLATION TIE for update_lbfgs_matrices outside its dense linear algebra (Generated/MatsGen.v, regenerated on every run):
   WHEN the matrices are rebuilt (`if is_force_update or is_current_update_accepted`) is the rule of the model's memory update;
   theta = y.y / s.y of the NEWEST stored pair (X[-1] - X[-2], G[-1] - G[-2]) and W = [Y, theta * S] with S, Y the differences
   of the stored points and gradients, oldest first, are the parameters (Model/DriverKern.v: mats_params) that the composed
   binary64 model hands to the Cauchy and subspace kernels. *)
Theorem C10_rebuild_rule_from_source : forall (K : kern) (c : cfg) (force : bool) xk gk (X G : list vec) m,
  let acc := curvature_ok K c xk gk (last X []) (last G []) in
  let '(X2, G2, m2) := update_mem_f K c force xk gk X G m in
  m2 = if LBFGSB.Generated.MatsGen.rebuild force acc then Some (X2, G2) else m.
Proof.
  intros K c force xk gk X G m. cbv zeta. unfold update_mem_f, last_or, LBFGSB.Generated.MatsGen.rebuild.
  destruct (curvature_ok K c xk gk (last X []) (last G [])); [rewrite orb_true_r; reflexivity|]. rewrite orb_false_r. destruct force; reflexivity.
Qed.
Theorem C10_theta_from_source : forall (vdot : vec -> vec -> float) (n : nat) (X0 G0 : list vec) (x0 x1 g0 g1 : vec),
  let X := X0 ++ [x0; x1] in let G := G0 ++ [g0; g1] in
  LBFGSB.Generated.MatsGen.theta vdot X G = fst (fst (DriverKern.mats_params vdot n (Some (X, G)))) /\
  LBFGSB.Generated.MatsGen.theta vdot X G = div (vdot (vsub g1 g0) (vsub g1 g0)) (vdot (vsub x1 x0) (vsub g1 g0)).
Proof.
  intros. split; [exact (MatsTie.theta_eq vdot n X0 G0 x0 x1 g0 g1)|].
  unfold LBFGSB.Generated.MatsGen.theta, X, G. destruct (MatsTie.nth_back_snoc2 X0 x0 x1) as [-> ->]. destruct (MatsTie.nth_back_snoc2 G0 g0 g1) as [-> ->]. reflexivity.
Qed.
Theorem C10_W_from_source : forall (vdot : vec -> vec -> float) (n : nat) (X G : list vec),
  Forall (fun s => List.length s = n) (diffs X) ->
  LBFGSB.Generated.MatsGen.w_matrix n (fst (fst (DriverKern.mats_params vdot n (Some (X, G))))) X G = snd (fst (DriverKern.mats_params vdot n (Some (X, G)))).
Proof. exact MatsTie.w_eq. Qed.

Print Assumptions C10_memory_history.
Print Assumptions C10_reject_inert.
Print Assumptions C10_accept_fifo.

(* Non-vacuity: maxcor = 1, three candidates: accepted, rejected, accepted (the oldest point is dropped). *)
Definition Km : kern := mkkern (fun x _ _ _ => x) (fun _ _ => (1%float, TConv))
  (fun a b => match a, b with [u], [v] => mul u v | _, _ => 0%float end).
Definition cm : cfg :=
  mkcfg [0%float] [0%float] [1%float] 1 None 0%float (TolConst 0%float) 5 10 20 1%float 0.001%float 0.9%float 0.1%float 0%float None.
Example C10_example :
  fold_left (feed Km cm) [([1%float], [1%float]); ([2%float], [0.5%float]); ([3%float], [4%float])] ([[0%float]], [[0%float]], None)
  = ([[1%float]; [3%float]], [[1%float]; [4%float]], Some ([[1%float]; [3%float]], [[1%float]; [4%float]])).
Proof. vm_compute. reflexivity. Qed.
