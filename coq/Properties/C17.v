(* C17 - a gradient scaler is equivalent to minimising the explicitly scaled objective.
   Restates Proofs/DriverScaler.scaler_run / scaler_once and the target clause of the report (C04). *)
From Coq Require Import List ZArith Bool String Floats.PrimFloat.
From LBFGSB Require Import Base.Res Model.SF Model.FloatVec Model.Driver Generated.StopTests
  Proofs.DriverShape Proofs.DriverReport Proofs.DriverReportRun Proofs.DriverScaler.
Import ListNotations.
Open Scope Z_scope.

(* UA U sg : U's objective and gradient, with a scaler returning sg.     UB U sg : no scaler, objective p |-> uf p * sg and
   gradient p |-> ug p * sg (binary64 products).  simR (img sg) eq m1 m2 : the two computations have the SAME outcome (equal
   results - x, fun, jac, nfev, njev, nit, status, message, success, correction pairs - or the same exception) and the trace
   of m2 is the trace of m1 with the scaler call removed and the values returned by the user's functions multiplied by sg: so
   the two runs visit exactly the same points, in the same order.  For ANY binary64 sg (positive or not, the equality does not
   need the sign), every kernel and line-search behaviour, every callback, every budget; callable gradient, fresh run, no
   target (the target clause is below). *)
Theorem C17_scaler_equiv : forall U K c sg,
  fdmode U = false -> u_upd U = None -> u_scaler U = None -> ftarget c = None -> checkpoint c = None ->
  simR (img sg) eq (run (UA U sg) K c) (run (UB U sg) K c).
Proof. intros U K c sg H1 H2 H3 H4 H5. exact (scaler_run U K c sg H4 H5). Qed.

(* the scaler is invoked at most once; its arguments are the clipped start point, the gradient there as returned by the user
   (the wrapper's scaling factor is still 1 at that moment) and the bounds *)
Theorem C17_scaler_once : forall U K c r tr, run U K c = (Ok r, tr) ->
  cntP isSc tr <= 1 /\
  forall x g l u res, In (EvScaler x g l u res) tr ->
    x = vclip (x0 c) (lb c) (ub c) /\ l = lb c /\ u = ub c /\
    exists t1 t2 tr4, step_g U c x t1 = (Ok (g, t2), tr4) /\ SF.scale _ _ _ _ t1 = fone.
Proof. exact scaler_once. Qed.

(* the target stop is tested on the unscaled value: a TARGET message means fun / s <= ftarget, s being the scaler's value *)
Theorem C17_target_unscaled : forall U K c r tr, run U K c = (Ok r, tr) -> r_msg r = MTarget ->
  exists s, scale_in s tr /\ is_f0_target_reached (div (r_fun r) s) (eff_ft U c) = true.
Proof. intros U K c r tr H Hm. exact (rp_target _ _ _ _ (report_run U K c r tr H) Hm). Qed.

(* and the three call sites of the target test in the source all pass f0 / sf.scaling_factor *)
Theorem C17_target_sites : target_test_argument_src = ["f0 / sf.scaling_factor"; "f0 / sf.scaling_factor"; "f0 / sf.scaling_factor"]%string.
Proof. reflexivity. Qed.

Print Assumptions C17_scaler_equiv.
Print Assumptions C17_scaler_once.

(* Non-vacuity: the same one-variable problem run with a scaler 0.25 and run on the explicitly scaled objective. *)
Definition U17 : user :=
  mkuser (fun x => Ok (mul (hd 0%float x) (hd 0%float x))) (fun x => Ok [mul 2%float (hd 0%float x)]) None None None (Ok 0%float) (Ok 0%float)
         false (fun _ => []) (fun _ _ _ => Ok []).
Definition K17 : kern :=
  mkkern (fun x _ _ _ => [mul 0.5%float (hd 0%float x)]) (fun _ h => match h with [_] => (1%float, TFG) | _ => (1%float, TConv) end)
         (fun a b => mul (hd 0%float a) (hd 0%float b)).
Definition c17 : cfg :=
  mkcfg [4%float] [(-9)%float] [9%float] 3 None 0%float (TolConst 0%float) 2 50 5 1%float 0.001%float 0.9%float 0.1%float 0%float None.
Example C17_example : exists r trA trB,
  run (UA U17 0.25%float) K17 c17 = (Ok r, trA) /\ run (UB U17 0.25%float) K17 c17 = (Ok r, trB) /\ r_fun r = 0.25%float /\ r_x r = [1%float].
Proof. eexists. eexists. eexists. split; [vm_compute; reflexivity|]. split; [vm_compute; reflexivity|]. split; reflexivity. Qed.
