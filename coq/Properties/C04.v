(* C04 - the termination report is truthful and the run budgets are respected.
   Restates Proofs/DriverReportRun.report_run (driver model: coq/Model/Driver.v; stop tests: Generated/StopTests.v). *)
From Coq Require Import List ZArith Bool String Lia Floats.PrimFloat.
From LBFGSB Require Import Base.Res Base.Hoare Base.FloatOrd Model.SF Model.FloatVec Model.Driver Generated.StopTests Generated.Consts
  Proofs.DriverReport Proofs.DriverReportRun Proofs.DriverFuel.
From LBFGSB Require Generated.Base Generated.LoopControl.
Import ListNotations.
Open Scope Z_scope.

Section C04.
  Variable U : user.   (* any objective / gradient / callback / update function / scaler / ftarget() / gtol() *)
  Variable K : kern.   (* any search-point kernel, any line-search routine, any dot product *)
  Variable c : cfg.    (* any x0, bounds, maxcor, ftol, gtol, ftarget, maxiter, maxfun, maxls, optional checkpoint *)

  (* For every run that returns a result r with user-visible trace tr (report_ok, Proofs/DriverReport.v):
     - PGTOL message   -> projgr(r.x, r.jac) <= gtol'          (gtol' = the float, or the value the single gtol() call returned)
     - TARGET message  -> r.fun / s <= ftarget'                  (s = 1 or the value the scaler returned)
     - MAXITER message -> r.nit >= maxiter;  MAXFUN message -> r.nfev >= maxfun
     - CALLBACK message-> some callback call returned True;  FTOL message -> the relative-reduction test held for r.fun
     - ABNORMAL message-> success = False;  success = False -> ABNORMAL message (or a NaN comparison, see C04_documented)
     - nit0 <= r.nit <= max(maxiter, nit0);  callable gradient: r.nfev <= max(maxfun, n0) + 1
     - r.nfev = nfev0 + number of objective calls in tr;  callable gradient: r.njev = njev0 + number of gradient calls in tr
     - callable ftarget / gtol are invoked exactly once (and not at all when they are floats). *)
  Theorem C04_report : forall r tr, run U K c = (Ok r, tr) -> report_ok U c r tr.
  Proof. intros r tr H. exact (report_run U K c r tr H). Qed.

  (* When no NaN enters the projected-gradient test of the returned point, the message is one of the seven documented
     ones (never the placeholders START / RESTART_FROM_LNSRCH) and success is False exactly for abnormal termination. *)
  Theorem C04_documented : forall r tr, run U K c = (Ok r, tr) ->
    is_nan (eff_gt U c) = false -> is_nan (projgr (r_x r) (r_jac r) (lb c) (ub c)) = false ->
    documented (r_msg r) /\ (r_success r = false <-> r_msg r = MAbnormal).
  Proof.
    intros r tr H Ng Np. pose proof (report_run U K c r tr H) as R.
    assert (Hno : ~ (ltb (eff_gt U c) (projgr (r_x r) (r_jac r) (lb c) (ub c)) = false /\
                     leb (projgr (r_x r) (r_jac r) (lb c) (ub c)) (eff_gt U c) = false)).
    { intros [H1 H2]. pose proof (leb_false_ltb _ _ Np Ng H2). congruence. }
    split.
    - destruct (rp_doc _ _ _ _ R) as [D|D]; [exact D|contradiction].
    - split.
      + intros Hs. destruct (rp_success _ _ _ _ R Hs) as [E|(_ & E)]; [exact E|contradiction].
      + exact (rp_abnormal _ _ _ _ R).
  Qed.

  (* The model's loop fuel suffices: when the user's callables answer (a value or an exception; OutOfFuel is an error value of
     the model that no Python callable can produce) a run NEVER ends in the model's out-of-fuel value - the while loop makes at
     most maxiter - nit0 passes.  So the theorems stated for runs that return or raise cover every run. *)
  Theorem C04_fuel_suffices :
    (forall p, uf U p <> OutOfFuel) -> (forall p, ug U p <> OutOfFuel) -> (forall p v vs, fd_est U p v vs <> OutOfFuel) ->
    (forall cb s, u_cb U = Some cb -> cb s <> OutOfFuel) ->
    (forall u x f fo g X G, u_upd U = Some u -> u x f fo g X G <> OutOfFuel) ->
    (forall sc x g l u, u_scaler U = Some sc -> sc x g l u <> OutOfFuel) ->
    u_ftarget U <> OutOfFuel -> u_gtol U <> OutOfFuel ->
    fst (run U K c) <> OutOfFuel.
  Proof. exact (fuel_suffices U K c). Qed.
End C04.

(* the messages of the model are the strings of the source (Generated/Consts.v is rewritten from main.py on every run) *)
Theorem C04_messages_from_source :
  map (fun t => snd (fst (fst t))) task_assignments =
  map msg_string [MAbnormal; MRestart; MCallback; MPgtol; MMaxiter; MMaxfun; MFtol; MTarget] /\
  istate_task_str = msg_string MStart /\ istate_is_success = false /\ istate_warnflag = 2 /\ istate_nit = 0.
Proof. repeat split; reflexivity. Qed.

(* the loop guard, the final classification and the line-search budget the model implements are the ones in the source *)
Theorem C04_control_flow_from_source :
  loop_guard_src = "projgr(x, grad, lb, ub) > _gtol and istate.nit < maxiter and (sf.nfev < maxfun) and (not istate.is_success)"%string /\
  final_classification_src =
    [("projgr(x, grad, lb, ub) <= _gtol", msg_string MPgtol); ("istate.nit >= maxiter", msg_string MMaxiter); ("sf.nfev >= maxfun", msg_string MMaxfun)]%string /\
  nth 13 line_search_args_src ""%string = "min(maxls, maxfun - sf.nfev)"%string.
Proof. repeat split; reflexivity. Qed.

(* the projected-gradient norm and the boxedness test of the model ARE the functions of base.py, translated on every run from
   their source (NumPy vector expressions -> the element-wise operations of Model/FloatVec.v), and they are called with the
   arguments the model passes *)
Theorem C04_projgr_from_source : forall x g lb ub, Generated.Base.projgr x g lb ub = projgr x g lb ub.
Proof. reflexivity. Qed.
Theorem C04_is_boxed_from_source : forall c : cfg, negb (Generated.Base.is_any_inf [lb c; ub c]) = is_boxed c.
Proof. intros c. unfold Generated.Base.is_any_inf, is_boxed. cbn [existsb]. rewrite orb_false_r. reflexivity. Qed.
Theorem C04_clip2bounds_from_source : forall x l u, Generated.Base.clip2bounds x l u = vclip x l u.
Proof. reflexivity. Qed.
Theorem C04_leaf_call_sites_from_source :
  Generated.Base.is_boxed_src = "not is_any_inf([lb, ub])"%string /\ Generated.Base.projgr_call_sites_src = ["projgr(x, grad, lb, ub)"%string] /\
  Generated.Base.clip2bounds_call_sites_src = ["x = clip2bounds(x0, lb, ub)"%string].
Proof. repeat split; reflexivity. Qed.

(* TRANSLATION TIE for the control of the outer loop: the test of `while`, the if / elif chain that writes the report after the
   loop, and the budget handed to the line search are translated from main.py on every run (Generated/LoopControl.v: float,
   integer and boolean expressions; the three constants of every branch of the chain) and ARE the model's guard, classify and
   ls_cap - classify changes nothing else. *)
Module LC := LBFGSB.Generated.LoopControl.
Theorem C04_guard_from_source : forall (c : cfg) (gt : float) (s : lst),
  guard c gt s = LC.loop_guard (projgr (s_x s) (s_g s) (lb c) (ub c)) gt (s_nit s) (maxiter c) (SF.nfev _ _ _ _ (s_sf s)) (maxfun c) (s_succ s).
Proof. reflexivity. Qed.

Theorem C04_final_report_from_source : forall (c : cfg) (gt : float) (s : lst),
  let s' := classify c gt s in
  (msg_string (s_msg s'), s_succ s', s_warn s')
  = LC.final_report (projgr (s_x s) (s_g s) (lb c) (ub c)) gt (s_nit s) (maxiter c) (SF.nfev _ _ _ _ (s_sf s)) (maxfun c) (msg_string (s_msg s), s_succ s, s_warn s)
  /\ (s_x s', s_f s', s_g s', s_X s', s_G s', s_mats s', s_nit s', s_sf s') = (s_x s, s_f s, s_g s, s_X s, s_G s, s_mats s, s_nit s, s_sf s).
Proof.
  intros c gt s. cbv zeta. unfold classify, LC.final_report.
  destruct (leb _ gt); [split; reflexivity|]. destruct (s_nit s >=? maxiter c); [split; reflexivity|].
  destruct (_ >=? maxfun c); split; reflexivity.
Qed.

Theorem C04_ls_budget_from_source : forall (c : cfg) (s : lst), ls_cap c s = LC.ls_budget (maxls c) (maxfun c) (SF.nfev _ _ _ _ (s_sf s)).
Proof. reflexivity. Qed.

Print Assumptions C04_report.
Print Assumptions C04_fuel_suffices.
Print Assumptions C04_documented.
Print Assumptions C04_messages_from_source.

(* Non-vacuity: a restart with maxiter below the checkpoint's nit reports the iteration limit (the case that returned
   START on the pinned tree), and a run stopped by maxfun in the middle of its first line search. *)
Definition Uq : user :=
  mkuser (fun x => Ok (opp (hd 0%float x))) (fun x => Ok [(-1)%float]) None None None (Ok 0%float) (Ok 0%float) false (fun _ => []) (fun _ _ _ => Ok []).
Definition Kq : kern :=
  mkkern (fun _ _ _ _ => [2%float]) (fun _ h => match h with [_] => (1%float, TFG) | _ => (1%float, TConv) end) (fun _ _ => (-1)%float).
Definition ckq : result := mkres [0.5%float] (-0.5)%float [(-1)%float] 7 7 5 1 MMaxiter true [] [].
Definition cq : cfg :=
  mkcfg [0.5%float] [0%float] [1%float] 3 None 0%float (TolConst 0%float) 2 10 20 1%float 0.001%float 0.9%float 0.1%float 0%float (Some ckq).
Example C04_example_restart : exists r tr, run Uq Kq cq = (Ok r, tr) /\ r_msg r = MMaxiter /\ r_nit r = 5 /\ r_nfev r = 7.
Proof. eexists. eexists. split; [vm_compute; reflexivity|]. repeat split. Qed.
