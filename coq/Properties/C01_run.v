(* C01 (part): A WHOLE FRESH RUN, FROM THE SOURCE.  minimize_lbfgsb without checkpoint, as modelled (Model/Driver.v: run), with the
   validation of the bounds replaced by the translated base.get_bounds (Generated/GetBounds.v), the projection of x0 by the
   translated clip2bounds (Generated/Base.v) and the loop by the loop assembled from translated decisions (Properties/C01_loop.v),
   is the model's run.  What remains hand-written in `run_src` is the order of the effects before the loop (first evaluation,
   callable tolerances, early target test, first gradient, scaler, update function) and the construction of the result, which
   the bit-exact driver correspondence compares event by event and field by field with the implementation. *)
From Coq Require Import List ZArith Bool String Lia Floats.PrimFloat.
From LBFGSB Require Generated.GetBounds Generated.Base Properties.C01_loop Properties.C01_body Properties.C13 Properties.C20 Properties.C04.
From LBFGSB Require Import Base.Res Model.SF Model.FloatVec Model.Driver Generated.StopTests Proofs.DriverSplit.
Import ListNotations.
Open Scope Z_scope.

Section RunSrc.
  Variable U : user.
  Variable K : kern.
  Variable c : cfg.

  (* run_checked for checkpoint = None, with the translated loop *)
  Definition run_checked_src (x : vec) : M ev result :=
    let t0 := SF.init vec float vec float x fone in
    '(f0, t1) <- sf_fun U x t0 ;;
    ft <- match ftarget c with
          | None => ret None
          | Some (TolConst v) => ret (Some v)
          | Some TolCall => v <- call (u_ftarget U) (EvFt (u_ftarget U)) ;; ret (Some v)
          end ;;
    gt <- match gtol c with
          | TolConst v => ret v
          | TolCall => call (u_gtol U) (EvGt (u_gtol U))
          end ;;
    if is_f0_target_reached (div f0 (SF.scale _ _ _ _ t1)) ft then
      ret (mkres x f0 (vzeros x) (SF.nfev _ _ _ _ t1) (SF.ngev _ _ _ _ t1) 0 0 MTarget true [] [])
    else
      '(g, t2) <- sf_grad U x t1 ;;
      t3 <- match u_scaler U with
            | None => ret t2
            | Some sc => let r := sc x g (lb c) (ub c) in
                         s <- call r (EvScaler x g (lb c) (ub c) r) ;; ret (SF.set_scale _ _ _ _ s t2)
            end ;;
      let f0 := mul f0 (SF.scale _ _ _ _ t3) in
      let g := vscale g (SF.scale _ _ _ _ t3) in
      '(f0, g, G) <- match u_upd U with
                     | None => ret (f0, g, @nil vec)
                     | Some u => let r := u x f0 f0 g [] [] in
                                 '(a1, _, a3, a4) <- call r (EvUpd x f0 f0 g [] [] r) ;; ret (a1, a3, a4)
                     end ;;
      s <- C01_loop.loop_src U K c (fuel0 c 0) ft gt (mklst x f0 g [x] [g] None 0 MStart false 2 t3) ;;
      let s := classify c gt s in
      ret (snapshot s (s_nit s)).

  Definition run_src : M ev result :=
    match GetBounds.get_bounds_error (x0 c) (lb c) (ub c) with
    | Some e => raise e
    | None => run_checked_src (Base.clip2bounds (x0 c) (lb c) (ub c))
    end.

  Hypothesis upd_keeps_length : forall u x f fo g X G f1 fo1 g1 G1,
    u_upd U = Some u -> u x f fo g X G = Ok (f1, fo1, g1, G1) -> List.length G1 = List.length G.
  Hypothesis fresh : checkpoint c = None.

  Lemma run_checked_from_source (x : vec) : run_checked_src x = run_checked U K c x.
  Proof.
    unfold run_checked_src, run_checked. rewrite fresh.
    apply bind_ext. intros [f0 t1]. apply bind_ext. intros ft. apply bind_ext. intros gt.
    destruct (is_f0_target_reached _ ft); [reflexivity|].
    apply bind_ext. intros [g t2]. apply bind_ext. intros t3.
    apply bind_ext. intros [[f1 g1] G1].
    assert (E : (match u_upd U, @nil vec with Some _, _ :: _ => filter_mem K c [] G1 | _, _ => ([], G1) end) = (@nil vec, G1)) by (destruct (u_upd U); reflexivity).
    rewrite E. cbv beta iota.
    rewrite (C01_loop.C01_loop_from_source U K c (fuel0 c 0) ft gt (mklst x f1 g1 [x] [g1] None 0 MStart false 2 t3) upd_keeps_length);
      [reflexivity|cbn; discriminate|reflexivity].
  Qed.

  Theorem run_from_source : run_src = run U K c.
  Proof.
    unfold run_src, run. rewrite C20.C20_get_bounds_from_source. destruct (bounds_error c); [reflexivity|].
    rewrite C04.C04_clip2bounds_from_source. unfold ck_ok. rewrite fresh. apply run_checked_from_source.
  Qed.
End RunSrc.

Theorem C01_run_from_source : forall (U : user) (K : kern) (c : cfg),
  (forall u x f fo g X G f1 fo1 g1 G1, u_upd U = Some u -> u x f fo g X G = Ok (f1, fo1, g1, G1) -> List.length G1 = List.length G) ->
  checkpoint c = None ->
  run_src U K c = run U K c.
Proof. intros U K c Hu Hc. exact (run_from_source U K c Hu Hc). Qed.
Print Assumptions C01_run_from_source.

(* the hypotheses are met (x^2 on [-5, 5] from 1, an update function doubling the objective at every iteration): both sides are the
   same run, which stops on its ten iterations *)
Example C01_run_example :
  run_src C13.UU C01_body.KB (C13.cU 1%float None) = run C13.UU C01_body.KB (C13.cU 1%float None)
  /\ exists r tr, run_src C13.UU C01_body.KB (C13.cU 1%float None) = (Ok r, tr) /\ r_nit r = 10 /\ r_msg r = MMaxiter /\ r_x r = [0x1p-10%float].
Proof. split; [vm_compute; reflexivity|]. eexists. eexists. split; [vm_compute; reflexivity|]. repeat split. Qed.
