(* C01 (part): THE WHOLE MAIN LOOP, FROM THE SOURCE.  The loop of the driver model with its test replaced by the translated test of
   `while` (Generated/LoopControl.loop_guard) and its body by the pass assembled from translated decisions (Properties/C01_body.v:
   body_src) is the model's loop, from every state whose memory is non-empty with as many gradients as points - an invariant of
   the pass, proved here - and for an update function that returns as many gradients as it was given. *)
From Coq Require Import List ZArith Bool String Lia Floats.PrimFloat.
From LBFGSB Require Generated.LoopControl Properties.C01_body Properties.C04 Properties.C13.
From LBFGSB Require Import Base.Res Model.SF Model.FloatVec Model.Driver Generated.StopTests Proofs.DriverSplit Proofs.DriverFilter.
Import ListNotations.
Open Scope Z_scope.

Section LoopSrc.
  Variable U : user.
  Variable K : kern.
  Variable c : cfg.
  Hypothesis upd_keeps_length : forall u x f fo g X G f1 fo1 g1 G1,
    u_upd U = Some u -> u x f fo g X G = Ok (f1, fo1, g1, G1) -> List.length G1 = List.length G.

  Definition Inv (s : lst) : Prop := s_X s <> [] /\ List.length (s_G s) = List.length (s_X s).

  Fixpoint loop_src (fuel : nat) (ft : option float) (gt : float) (s : lst) : M ev lst :=
    if LoopControl.loop_guard (projgr (s_x s) (s_g s) (lb c) (ub c)) gt (s_nit s) (maxiter c) (SF.nfev _ _ _ _ (s_sf s)) (maxfun c) (s_succ s) then
      match fuel with
      | O => (OutOfFuel, [])
      | S k => '(cont, s1) <- C01_body.body_src U K c ft s ;; if cont then loop_src k ft gt s1 else ret s1
      end
    else ret s.

  Lemma update_mem_f_inv force x g X G m X2 G2 m2 : X <> [] -> List.length G = List.length X ->
    update_mem_f K c force x g X G m = (X2, G2, m2) -> X2 <> [] /\ List.length G2 = List.length X2.
  Proof.
    intros HX HL H. unfold update_mem_f in H. destruct (curvature_ok K c x g _ _).
    - inversion H; subst. unfold trim. rewrite !app_length, HL. cbn [List.length].
      destruct (Z.of_nat (List.length X + 1) >? maxcor c + 1).
      + destruct X as [|p X]; [contradiction|]. destruct G as [|q G]; [discriminate|]. cbn [app tl]. cbn in HL. split.
        * destruct X; discriminate.
        * rewrite !app_length. cbn. lia.
      + split; [destruct X; discriminate|rewrite !app_length; cbn; lia].
    - inversion H; subst. auto.
  Qed.

  Lemma accept_inv ft s a d t1 cont s1 tr : Inv s -> accept_step U K c ft s a d t1 = (Ok (cont, s1), tr) -> Inv s1.
  Proof.
    intros [HX HL] H. unfold accept_step in H.
    apply bind_ok_inv in H as ([[f0 g] t2] & tr1 & trA & _ & H & _).
    apply bind_ok_inv in H as ([[[[f1 fo] g1] G] filt] & tr2 & trB & H2 & H & _).
    assert (HM : exists X1 G1, (if filt then filter_mem K c (s_X s) G else (s_X s, G)) = (X1, G1) /\ X1 <> [] /\ List.length G1 = List.length X1).
    { destruct (u_upd U) as [u|] eqn:Eu.
      - apply bind_ok_inv in H2 as ([[[a1 a2] a3] a4] & q1 & q2 & Q1 & Q2 & _). unfold call in Q1. inversion Q1 as [[Hr Hq]].
        unfold ret in Q2. inversion Q2; subst.
        assert (L4 : List.length G = List.length (s_X s)) by (rewrite <- HL; eapply upd_keeps_length; [reflexivity|exact Hr]).
        destruct (filter_mem K c (s_X s) G) as [X1 G1] eqn:EF. exists X1, G1. split; [reflexivity|].
        destruct (C13.C13_filter_spec K c (s_X s) G X1 G1 (eq_sym L4) HX EF) as (_ & _ & _ & _ & L & N). split; [exact N|symmetry; exact L].
      - unfold ret in H2. inversion H2; subst. exists (s_X s), (s_G s). auto. }
    destruct HM as (X1 & G1 & EM & N1 & L1). rewrite EM in H.
    destruct (is_f0_target_reached _ _); [unfold ret in H; inversion H; subst; split; assumption|].
    destruct (is_f0_min_change_reached _ _ _); [unfold ret in H; inversion H; subst; split; assumption|].
    destruct (update_mem_f K c _ _ g1 X1 G1 _) as [[X2 G2] m2] eqn:EU.
    destruct (update_mem_f_inv _ _ _ _ _ _ _ _ _ N1 L1 EU) as [N2 L2].
    destruct (u_cb U) as [cb|].
    - apply bind_ok_inv in H as (b' & r1 & r2 & _ & R2 & _). destruct b'; unfold ret in R2; inversion R2; subst; split; assumption.
    - unfold ret in H. inversion H; subst. split; assumption.
  Qed.

  Lemma body_inv ft s cont s1 tr : Inv s -> body U K c ft s = (Ok (cont, s1), tr) -> Inv s1.
  Proof.
    intros I H. unfold body in H. apply bind_ok_inv in H as ([stp t1] & tr1 & tr2 & _ & H & _). destruct stp as [a|].
    - eapply accept_inv; eassumption.
    - unfold ret, fail_step in H. destruct I as [HX HL]. destruct (List.length (s_X s) =? 1)%nat; inversion H; subst; split; cbn; auto; discriminate.
  Qed.

  Theorem loop_from_source : forall fuel ft gt s, Inv s -> loop_src fuel ft gt s = loop U K c fuel ft gt s.
  Proof.
    induction fuel as [|k IH]; intros ft gt s I; cbn [loop_src loop]; rewrite <- C04.C04_guard_from_source; [reflexivity|].
    destruct (guard c gt s); [|reflexivity].
    rewrite (C01_body.C01_body_from_source U K c ft s upd_keeps_length (proj1 I) (proj2 I)).
    destruct (body U K c ft s) as [[[cont s1]|e|] tr] eqn:EB; [|reflexivity|reflexivity].
    cbn [bind]. destruct cont; [|reflexivity]. rewrite (IH ft gt s1 (body_inv ft s true s1 tr I EB)). reflexivity.
  Qed.
End LoopSrc.

Theorem C01_loop_from_source : forall (U : user) (K : kern) (c : cfg) (fuel : nat) (ft : option float) (gt : float) (s : lst),
  (forall u x f fo g X G f1 fo1 g1 G1, u_upd U = Some u -> u x f fo g X G = Ok (f1, fo1, g1, G1) -> List.length G1 = List.length G) ->
  s_X s <> [] -> List.length (s_G s) = List.length (s_X s) ->
  loop_src U K c fuel ft gt s = loop U K c fuel ft gt s.
Proof. intros U K c fuel ft gt s Hu HX HL. exact (loop_from_source U K c Hu fuel ft gt s (conj HX HL)). Qed.
Print Assumptions C01_loop_from_source.

(* the hypotheses are met by the state a fresh run enters its loop with; the run performs its ten iterations (maxiter = 10) *)
Example C01_loop_example :
  let gt := 0x1p-20%float in
  loop_src C13.UU C01_body.KB (C13.cU 1%float None) 11 None gt C13.sU0 = loop C13.UU C01_body.KB (C13.cU 1%float None) 11 None gt C13.sU0
  /\ s_X C13.sU0 <> [] /\ List.length (s_G C13.sU0) = List.length (s_X C13.sU0)
  /\ exists s tr, loop_src C13.UU C01_body.KB (C13.cU 1%float None) 11 None gt C13.sU0 = (Ok s, tr) /\ s_nit s = 10 /\ s_x s = [0x1p-10%float].
Proof.
  cbv zeta. split; [vm_compute; reflexivity|]. split; [vm_compute; discriminate|]. split; [vm_compute; reflexivity|].
  eexists. eexists. split; [vm_compute; reflexivity|]. split; reflexivity.
Qed.
