(* C18 - the returned inverse-Hessian operator is built from genuine curvature pairs.
   Restates Proofs/DriverPairs.pairs_run, Proofs/DriverMemory and Proofs/Utils.diag_spec. *)
From Coq Require Import List ZArith QArith Bool String Lia Floats.PrimFloat.
From LBFGSB Require Generated.MainLoop.
From LBFGSB Require Import Base.Res Base.Hoare Model.SF Model.FloatVec Model.Driver Generated.Memory
  Proofs.SFProofs Proofs.DriverValues Proofs.DriverMemory Proofs.DriverPairs Proofs.Utils.
From LBFGSB Require Model.Bfgs.
Import ListNotations.
Open Scope Z_scope.

Section C18.
  Variable U : user.
  Variable K : kern.   (* any kernel / line-search / dot-product behaviour *)
  Variable c : cfg.
  Hypothesis maxcor_nonneg : 0 <= maxcor c.
  Hypothesis user_respects_array_equal : forall p q, veqb p q = true ->
    uf U p = uf U q /\ ug U p = ug U q /\ fd_stencil U p = fd_stencil U q /\ fd_est U p = fd_est U q.
  Hypothesis no_update_function : u_upd U = None.
  Hypothesis no_checkpoint : checkpoint c = None.

  (* hist_ok sg X G : X and G have the same length between 1 and maxcor+1, every adjacent pair of (X, G) passed the
     curvature test s.y > eps*y.y (pairs_ok), and every g of G is the user's (scaled) gradient at the x of X beside it (gen).
     pairs_of sg sk yk : sk = diffs X and yk = diffs G (element-wise binary64 subtraction of neighbours, oldest first) for
     such a history.  It holds of the pairs of EVERY callback state (ev_pairs) and of the result; a run that stops on the
     target before its first gradient returns no pair. *)
  Theorem C18_pairs : forall r tr, run U K c = (Ok r, tr) ->
    exists sg, Forall (ev_pairs U K c sg) tr /\
      (pairs_of U K c sg (r_sk r) (r_yk r) \/ (r_sk r = [] /\ r_yk r = [] /\ r_msg r = MTarget)).
  Proof. exact (pairs_run U K c maxcor_nonneg user_respects_array_equal no_update_function no_checkpoint). Qed.

  (* at most maxcor pairs *)
  Theorem C18_at_most_maxcor : forall sg sk yk, pairs_of U K c sg sk yk ->
    Z.of_nat (List.length sk) <= maxcor c /\ List.length yk = List.length sk.
  Proof.
    intros sg sk yk (X & G & -> & -> & (L & N & B & _) & _).
    assert (HL : forall l : list vec, List.length (diffs l) = (List.length l - 1)%nat).
    { induction l as [|a [|b l] IH]; cbn [diffs List.length] in *; try reflexivity. rewrite IH. cbn. lia. }
    rewrite !HL, <- L. split; lia.
  Qed.
End C18.

(* the history is chronological: an accepted point is appended at the end, the oldest is dropped when full *)
Theorem C18_chronological : forall K c (xk gk : vec) (X G : list vec) m,
  0 <= maxcor c -> curvature_ok K c xk gk (last X []) (last G []) = true -> List.length X = List.length G ->
  Z.of_nat (List.length X) <= maxcor c + 1 ->
  let '(X', G', m') := update_mem K c xk gk X G m in
  (Z.of_nat (List.length X) <= maxcor c -> X' = X ++ [xk] /\ G' = G ++ [gk]) /\
  (Z.of_nat (List.length X) = maxcor c + 1 -> X' = tl X ++ [xk] /\ G' = tl G ++ [gk]).
Proof.
  intros K c xk gk X G m Hm H L B. pose proof (mem_accept K c Hm xk gk X G m H L B) as A.
  destruct (update_mem K c xk gk X G m) as [[X' G'] m']. tauto.
Qed.

(* extract_hess_inv_diag (regenerated from utils.py) returns exactly the diagonal of the dense matrix of the operator,
   for every square matrix H (the operator being v |-> H v) in every dimension *)
Theorem C18_diag_spec : forall H : list (list Q), let n := List.length H in
  Forall (fun row => List.length row = n) H ->
  List.length (extract_hess_inv_diag n (Bfgs.mvmul H)) = n /\
  forall i, (i < n)%nat -> (nth i (extract_hess_inv_diag n (Bfgs.mvmul H)) 0 == nth i (nth i H []) 0)%Q.
Proof. exact diag_spec. Qed.

(* the translator accepted utils.py because it has exactly this shape *)
Theorem C18_diag_source :
  extract_hess_inv_diag_src =
  ["n_params = hess_inv.shape[0]"; "hess_inv_diag = np.zeros(n_params)";
   "for i in range(n_params): v = np.zeros(n_params) v[i] = 1.0 hess_inv_diag[i] = hess_inv.matvec(v)[i]"; "return hess_inv_diag"]%string.
Proof. reflexivity. Qed.

(* TRANSLATION TIE: the branch of minimize_lbfgsb taken after a failed line search - the abort test len(X) == 1 and the memory reboot
   X = Deque([X[-1]]); G = Deque([G[-1]]); mats = LBFGSB_MATRICES(n) - is translated from main.py on every run and IS the model's
   fail_step: the rebooted history restarts from the last STORED point and ITS gradient (not from the current gradient). *)
Theorem C18_reboot_from_source : forall (s : lst) t1,
  let '(cont, s1) := fail_step s t1 in
  if LBFGSB.Generated.MainLoop.abort_after_failed_search (s_X s)
  then cont = false /\ s_msg s1 = MAbnormal /\ s_X s1 = s_X s /\ s_G s1 = s_G s
  else cont = true /\ (s_X s1, s_G s1) = LBFGSB.Generated.MainLoop.reboot_history (s_x s) (s_g s) (s_X s) (s_G s) /\ s_mats s1 = None.
Proof.
  intros s t1. unfold fail_step, LBFGSB.Generated.MainLoop.abort_after_failed_search, LBFGSB.Generated.MainLoop.reboot_history, last_or.
  destruct (Nat.eqb (List.length (s_X s)) 1); cbn; auto.
Qed.

Print Assumptions C18_pairs.
Print Assumptions C18_at_most_maxcor.
Print Assumptions C18_diag_spec.

Example C18_diag_example :
  extract_hess_inv_diag 2 (Bfgs.mvmul [[2#1; 1#3]; [1#3; 5#1]])%Q = [(2#1) * 1 + ((1#3) * 0 + 0); (1#3) * 0 + ((5#1) * 1 + 0)]%Q.
Proof. reflexivity. Qed.
