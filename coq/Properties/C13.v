(* C13 - redefining the objective on the fly acts as a restart on the new objective.
   Restates Proofs/DriverInert.ident_run, Proofs/DriverFilter.filter_spec and accept_step_upd_shape. *)
From LBFGSB Require Generated.FilterGen Generated.BfgsMem Generated.RebuildRule.
From Coq Require Import List ZArith Bool String Lia Floats.PrimFloat.
From LBFGSB Require Import Base.Res Base.Sim Model.SF Model.FloatVec Model.Driver Generated.Memory Generated.StopTests
  Proofs.DriverMemory Proofs.DriverInert Proofs.DriverFilter Proofs.DriverShape Proofs.DriverUpdateRestart.
Import ListNotations.
Open Scope Z_scope.

(* 1. An update function that returns its inputs unchanged leaves the whole run identical: same outcome (result or exception)
      and the same trace of user-visible events once the calls to the update function itself are erased.  For every user,
      kernel, line-search behaviour and configuration of a fresh run. *)
Theorem C13_identity : forall U K c, 1 <= maxcor c -> u_upd U = None -> checkpoint c = None ->
  (forall a ga b gb, curvature_ok K c a ga b gb = curvature_ok K c b gb a ga) ->
  sim not_upd (run (with_upd (Some idu) U) K c) (run U K c).
Proof. intros U K c H1 H2 H3 H4. apply ident_run; auto. clear - H1. apply Z.le_trans with 1; [discriminate|exact H1]. Qed.

(* the filter is the identity on a history all of whose adjacent pairs passed the curvature test *)
Theorem C13_filter_identity : forall K c, (forall a ga b gb, curvature_ok K c a ga b gb = curvature_ok K c b gb a ga) ->
  forall X G, mem_ok K c X G -> filter_mem K c X G = (X, G).
Proof. exact filter_id. Qed.

(* 2. For ARBITRARY rewrites of the stored gradients (equal non-zero lengths is all that is assumed): what the filter retains
      is a sub-history of the given one in chronological order (same positions deleted in X and in the rewritten G), the
      newest point is always retained, and every adjacent retained pair satisfies the curvature condition. *)
Theorem C13_filter_spec : forall K c (X G X' G' : list vec), List.length X = List.length G -> X <> [] ->
  filter_mem K c X G = (X', G') ->
  subhist X' G' X G /\ last X' [] = last X [] /\ last G' [] = last G [] /\ pairs_rev_ok K c X' G' /\
  List.length X' = List.length G' /\ X' <> [].
Proof. exact filter_spec. Qed.

(* 3. After the update function has been called at an iteration, the history the run goes on with (and, if the run stops at
      that iteration, the history carried by the result) is the FILTERED REWRITTEN history, extended by the new point with the
      gradient the function returned for it: no stale gradient survives, the pairs carried by subsequent states are differences
      of retained points and of rewritten gradients; and the matrices are rebuilt from that history even when the new pair is
      rejected (update_mem_f with force = 'more than one point left'; reset to the initial ones when a single point is left). *)
Theorem C13_pairs_rewritten : forall U K c u ft s a d t1 cont s1 tr, u_upd U = Some u ->
  accept_step U K c ft s a d t1 = (Ok (cont, s1), tr) ->
  exists f0 g f1 fo g1 G1 X1 G2,
    In (EvUpd (s_x s1) f0 (s_f s) g (s_X s) (s_G s) (Ok (f1, fo, g1, G1))) tr /\
    filter_mem K c (s_X s) G1 = (X1, G2) /\ s_g s1 = g1 /\ s_f s1 = f1 /\
    ((cont = false /\ s_X s1 = X1 /\ s_G s1 = G2) \/
     (cont = true /\ (s_X s1, s_G s1, s_mats s1) =
                     update_mem_f K c (1 <? List.length X1)%nat (s_x s1) g1 X1 G2 (if (List.length X1 =? 1)%nat then None else s_mats s))).
Proof. exact accept_step_upd_shape. Qed.

(* the filter the model mirrors is the one in the source; both call sites are followed by it *)
Theorem C13_filter_source :
  make_X_and_G_respect_strong_wolfe_src =
  ["ncor: int = len(X) - 1"; "_X, _G = (Deque([X[-1]]), Deque([G[-1]]))";
   "for i in range(ncor): k = ncor - i - 1 if not is_update_X_and_G(X[k], G[k], _X[0], _G[0], eps): if logger is not None: logger.info(f'Dropping update #{-i - 2}') else: _X.appendleft(X[k]) _G.appendleft(G[k])";
   "return (_X, _G)"]%string.
Proof. reflexivity. Qed.

(* 4. THE UPDATE ACTS AS A RESTART.  After the update function has answered at an iteration, the run goes on from exactly the
      state with which a restarted run - another user U' without update function (the new objective), another configuration c'
      with the same eps_SY and maxcor - enters its loop, when the checkpoint of that restart carries the iteration count and its
      differences rebuild the rewritten, filtered history (X1, G2) exactly.  That last hypothesis is the one of C06: it holds
      over any abelian group (C06_restore_exact) and in binary64 up to the rounding of x - cumsum(sk), which is the "up to
      rounding" of the property.  Everything else agrees exactly: which points survive the filter, the new point with the
      values the function returned for it, the matrices (rebuilt from the filtered history even when the new pair is rejected,
      reset when a single point is left - what a restart does), the iteration counter.  The two states differ in the message
      placeholder and in the function wrapper only; from equal states the loops take equal steps (C06_restart_continues). *)
Theorem C13_update_is_restart : forall K U c U' c' u ck ft s a d t1 s1 tr,
  u_upd U = Some u -> u_upd U' = None -> checkpoint c' = Some ck -> eps_sy c' = eps_sy c -> maxcor c' = maxcor c ->
  s_X s <> [] ->
  accept_step U K c ft s a d t1 = (Ok (true, s1), tr) ->
  exists f0 g f1 fo g1 G1 X1 G2,
    In (EvUpd (s_x s1) f0 (s_f s) g (s_X s) (s_G s) (Ok (f1, fo, g1, G1))) tr /\
    filter_mem K c (s_X s) G1 = (X1, G2) /\ s_f s1 = f1 /\ s_g s1 = g1 /\
    (r_nit ck = s_nit s + 1 -> restore c' ck = (X1, G2) ->
     forall t3, DriverShape.first_state U' K c' (s_x s1) (s_f s1) (s_g s1) (snd (DriverShape.restored c')) t3
                = mklst (s_x s1) (s_f s1) (s_g s1) (s_X s1) (s_G s1) (s_mats s1) (s_nit s1) MStart false 2 t3).
Proof. intros K U c U' c' u ck ft s a d t1 s1 tr H1 H2 H3 H4 H5. exact (DriverUpdateRestart.update_is_restart K U c U' c' u ck H1 H2 H3 H4 H5 ft s a d t1 s1 tr). Qed.

(* the hypotheses are met: x^2 on [-5, 5] from x = 1, an update function that doubles the objective (values, gradients, stored
   gradients), the step to x = 1/2; the restart minimises 2 x^2 from the result of that iteration *)
Definition updE (x : vec) (f fo : float) (g : vec) (X G : list vec) : res (float * float * vec * list vec) :=
  Res.Ok (mul 2 f, mul 2 fo, map (mul 2) g, map (map (mul 2)) G)%float.
Definition UU : user :=
  mkuser (fun x => Res.Ok (mul (hd 0%float x) (hd 0%float x))) (fun x => Res.Ok [mul 2%float (hd 0%float x)]) None (Some updE) None
         (Res.Ok 0%float) (Res.Ok 0%float) false (fun _ => []) (fun _ _ _ => Res.Ok []).
Definition U2 : user :=
  mkuser (fun x => Res.Ok (mul 2 (mul (hd 0%float x) (hd 0%float x)))) (fun x => Res.Ok [mul 4%float (hd 0%float x)]) None None None
         (Res.Ok 0%float) (Res.Ok 0%float) false (fun _ => []) (fun _ _ _ => Res.Ok []).
Definition KU : kern :=
  mkkern (fun x _ _ _ => map (fun v => mul v 0.5%float) x) (fun _ _ => (1%float, TConv)) (fun a b => mul (hd 0%float a) (hd 0%float b)).
Definition cU (x0 : float) (ck : option result) : cfg :=
  mkcfg [x0] [(-5)%float] [5%float] 3 None 0%float (TolConst 0x1.0c6f7a0b5ed8dp-20%float) 10 100 20 1e8%float
        0x1.0624dd2f1a9fcp-10%float 0x1.ccccccccccccdp-1%float 0x1.999999999999ap-4%float 0x1.fb4c5b3a1b5bcp-53%float ck.
Definition sU0 : lst :=
  DriverShape.first_state UU KU (cU 1%float None) [1%float] 1%float [2%float] [] (SF.mk _ _ _ _ [1%float] (Some 1%float) (Some [2%float]) 1 1 fone).
Example C13_update_is_restart_example :
  exists s1 tr, accept_step UU KU (cU 1%float None) None sU0 1%float [(-0.5)%float] (s_sf sU0) = (Res.Ok (true, s1), tr) /\
    s_X sU0 <> [] /\
    let ck := snapshot s1 1 in let c' := cU 0.5%float (Some ck) in
    r_nit ck = s_nit sU0 + 1 /\
    filter_mem KU (cU 1%float None) (s_X sU0) [[4%float]] = ([[1%float]], [[4%float]]) /\
    restore c' ck = ([[1%float]], [[4%float]]) /\
    s_X s1 = [[1%float]; [0.5%float]] /\ s_G s1 = [[4%float]; [2%float]] /\ s_f s1 = 0.5%float /\
    s_mats s1 = Some ([[1%float]; [0.5%float]], [[4%float]; [2%float]]) /\
    forall t3, DriverShape.first_state U2 KU c' (s_x s1) (s_f s1) (s_g s1) (snd (DriverShape.restored c')) t3
               = mklst (s_x s1) (s_f s1) (s_g s1) (s_X s1) (s_G s1) (s_mats s1) (s_nit s1) MStart false 2 t3.
Proof.
  eexists. eexists. split; [vm_compute; reflexivity|]. split; [vm_compute; discriminate|]. cbv zeta.
  split; [vm_compute; reflexivity|]. split; [vm_compute; reflexivity|]. split; [vm_compute; reflexivity|].
  split; [vm_compute; reflexivity|]. split; [vm_compute; reflexivity|]. split; [vm_compute; reflexivity|]. split; [vm_compute; reflexivity|].
  intros t3. vm_compute. reflexivity.
Qed.

(* TRANSLATION TIE for the rebuild rule on which (4) rests: the `is_force_update` argument of the two calls of
   update_lbfgs_matrices and the test of the reset `mats = LBFGSB_MATRICES(n)`, translated from main.py on every run
   (Generated/RebuildRule.v), are the booleans of the model's accept_step / first_state; the pinned tree (is_force_update=False)
   and seeded variants that drop the rebuild do not give these terms. *)
Theorem C13_rebuild_rule_from_source : forall (filt : bool) (X : list vec),
  RebuildRule.force_update filt X = (filt && (1 <? List.length X)%nat) /\
  RebuildRule.reset_matrices filt X = (filt && (List.length X =? 1)%nat) /\
  RebuildRule.force_update_at_start X = (1 <? List.length X)%nat.
Proof. intros. repeat split; reflexivity. Qed.
Theorem C13_rebuild_rule_in_model : forall U K c u ft s a d t1 s1 tr, u_upd U = Some u ->
  accept_step U K c ft s a d t1 = (Ok (true, s1), tr) ->
  exists g1 X1 G2, (s_X s1, s_G s1, s_mats s1) =
    update_mem_f K c (RebuildRule.force_update true X1) (s_x s1) g1 X1 G2 (if RebuildRule.reset_matrices true X1 then None else s_mats s).
Proof.
  intros U K c u ft s a d t1 s1 tr Hu H.
  destruct (accept_step_upd_shape U K c u ft s a d t1 true s1 tr Hu H) as (f0 & g & f1 & fo & g1 & G1 & X1 & G2 & _ & _ & _ & _ & [[Hc _]|[_ Hs]]); [discriminate|].
  exists g1, X1, G2. exact Hs.
Qed.

(* TRANSLATION TIE: the curvature filter bfgsmats.make_X_and_G_respect_strong_wolfe - the backwards walk
     for i in range(ncor): k = ncor - i - 1; if not is_update_X_and_G(X[k], G[k], _X[0], _G[0], eps): (drop) else: appendleft
   which tests every stored point against the OLDEST POINT KEPT SO FAR (not against its original neighbour) - is translated from the
   source on every run (Generated/FilterGen.v; logging statements ignored) and IS the model's filter_mem. *)
Lemma curv_src : forall (K : kern) (c : cfg) xk gk xo go,
  BfgsMem.is_update_X_and_G (vdot K) xk gk xo go (eps_sy c) = curvature_ok K c xk gk xo go.
Proof. intros. unfold BfgsMem.is_update_X_and_G, curvature_ok. destruct (ltb _ _); reflexivity. Qed.

Section FilterTranslated.
  Variable K : kern.
  Variable c : cfg.
  Variables X G : list vec.
  Notation walk := (FilterGen.walk (vdot K) (eps_sy c) X G).
  Notation ncor := (FilterGen.ncor X).

  Lemma walk_filter_back : forall (rX rG : list vec) (i : nat) (aX aG : list vec),
    List.length rG = List.length rX ->
    (forall j, (j < List.length rX)%nat -> List.nth (ncor - (i + j) - 1) X [] = List.nth j rX [] /\ List.nth (ncor - (i + j) - 1) G [] = List.nth j rG []) ->
    walk (List.length rX) i aX aG = filter_back K c rX rG aX aG.
  Proof.
    induction rX as [|xk rX IH]; intros rG i aX aG HL H; destruct rG as [|gk rG]; try discriminate; [reflexivity|].
    cbn [List.length FilterGen.walk filter_back]. destruct (H 0%nat ltac:(cbn; lia)) as [Hx Hg]. rewrite Nat.add_0_r in Hx, Hg. cbn [List.nth] in Hx, Hg.
    rewrite Hx, Hg. rewrite (curv_src K c xk gk (List.hd [] aX) (List.hd [] aG)).
    injection HL as HL.
    assert (H' : forall j, (j < List.length rX)%nat -> List.nth (ncor - (S i + j) - 1) X [] = List.nth j rX [] /\ List.nth (ncor - (S i + j) - 1) G [] = List.nth j rG []).
    { intros j Hj. specialize (H (S j) ltac:(cbn; lia)). cbn [List.nth] in H. replace (S i + j)%nat with (i + S j)%nat by lia. exact H. }
    destruct (curvature_ok K c xk gk (List.hd [] aX) (List.hd [] aG)); cbn [negb]; apply IH; assumption.
  Qed.
End FilterTranslated.

Theorem C13_filter_translated : forall (K : kern) (c : cfg) (X G : list vec), X <> [] -> List.length G = List.length X ->
  FilterGen.make_X_and_G_respect_strong_wolfe (vdot K) (eps_sy c) X G = filter_mem K c X G.
Proof.
  intros K c X G HX HL.
  destruct (exists_last HX) as (P & xl & ->).
  assert (HG : G <> []) by (destruct G; [rewrite app_length in HL; cbn in HL; lia|discriminate]).
  destruct (exists_last HG) as (Q & gl & ->).
  rewrite !app_length in HL. cbn [List.length] in HL. assert (HPQ : List.length Q = List.length P) by lia.
  unfold FilterGen.make_X_and_G_respect_strong_wolfe, filter_mem. rewrite !rev_app_distr. cbn [rev app].
  rewrite !last_last.
  assert (Hn : FilterGen.ncor (P ++ [xl]) = List.length (rev P)) by (unfold FilterGen.ncor; rewrite app_length, rev_length; cbn; lia).
  rewrite Hn. apply walk_filter_back; [rewrite !rev_length; exact HPQ|].
  intros j Hj. rewrite rev_length in Hj. unfold FilterGen.ncor. rewrite !app_length. cbn [List.length Nat.add].
  cbn [Nat.add]. replace (List.length P + 1 - 1 - j - 1)%nat with (List.length P - S j)%nat by lia.
  split.
  - rewrite app_nth1 by lia. rewrite rev_nth by lia. reflexivity.
  - rewrite app_nth1 by lia. rewrite rev_nth by lia. rewrite HPQ. reflexivity.
Qed.

Print Assumptions C13_identity.
Print Assumptions C13_filter_spec.
Print Assumptions C13_pairs_rewritten.
Print Assumptions C13_update_is_restart.

(* Non-vacuity: a three-point history whose middle gradient is rewritten so that the pair it closes fails the test: the middle
   point is dropped, the newest point stays, the bridging pair passes. *)
Definition Kf : kern := mkkern (fun x _ _ _ => x) (fun _ _ => (1%float, TConv))
  (fun a b => match a, b with [u], [v] => mul u v | _, _ => 0%float end).
Definition cf0 : cfg :=
  mkcfg [0%float] [0%float] [1%float] 5 None 0%float (TolConst 0%float) 5 10 20 1%float 0.001%float 0.9%float 0.1%float 0%float None.
Example C13_filter_example :
  filter_mem Kf cf0 [[0%float]; [1%float]; [2%float]] [[0%float]; [5%float]; [2%float]] = ([[0%float]; [2%float]], [[0%float]; [2%float]]).
Proof. vm_compute. reflexivity. Qed.
