(* C13 - redefining the objective on the fly acts as a restart on the new objective.
   Restates Proofs/DriverInert.ident_run, Proofs/DriverFilter.filter_spec and accept_step_upd_shape. *)
From LBFGSB Require Generated.FilterGen Generated.BfgsMem.
From Coq Require Import List ZArith Bool String Lia Floats.PrimFloat.
From LBFGSB Require Import Base.Res Base.Sim Model.SF Model.FloatVec Model.Driver Generated.Memory Generated.StopTests
  Proofs.DriverMemory Proofs.DriverInert Proofs.DriverFilter.
Import ListNotations.
Open Scope Z_scope.

(* 1. An update function that returns its inputs unchanged leaves the whole run identical: same outcome (result or exception)
      and the same trace of user-visible events once the calls to the update function itself are erased.  For every user,
      kernel, line-search behaviour and configuration of a fresh run. *)
Theorem C13_identity : forall U K c, 1 <= maxcor c -> u_upd U = None -> checkpoint c = None ->
  (forall a ga b gb, curvature_ok K c a ga b gb = curvature_ok K c b gb a ga) ->
  sim not_upd (run (with_upd (Some idu) U) K c) (run U K c).
Proof. intros U K c H1 H2 H3 H4. apply ident_run; auto. clear - H1. apply Z.le_trans with 1; [discriminate|exact H1]. Qed.

(* the filter is the identity on a history all of whose adjacent pairs passed the curvature test *)
Theorem C13_filter_identity : forall K c, (forall a ga b gb, curvature_ok K c a ga b gb = curvature_ok K c b gb a ga) ->
  forall X G, mem_ok K c X G -> filter_mem K c X G = (X, G).
Proof. exact filter_id. Qed.

(* 2. For ARBITRARY rewrites of the stored gradients (equal non-zero lengths is all that is assumed): what the filter retains
      is a sub-history of the given one in chronological order (same positions deleted in X and in the rewritten G), the
      newest point is always retained, and every adjacent retained pair satisfies the curvature condition. *)
Theorem C13_filter_spec : forall K c (X G X' G' : list vec), List.length X = List.length G -> X <> [] ->
  filter_mem K c X G = (X', G') ->
  subhist X' G' X G /\ last X' [] = last X [] /\ last G' [] = last G [] /\ pairs_rev_ok K c X' G' /\
  List.length X' = List.length G' /\ X' <> [].
Proof. exact filter_spec. Qed.

(* 3. After the update function has been called at an iteration, the history the run goes on with (and, if the run stops at
      that iteration, the history carried by the result) is the FILTERED REWRITTEN history, extended by the new point with the
      gradient the function returned for it: no stale gradient survives, the pairs carried by subsequent states are differences
      of retained points and of rewritten gradients; and the matrices are rebuilt from that history even when the new pair is
      rejected (update_mem_f with force = 'more than one point left'; reset to the initial ones when a single point is left). *)
Theorem C13_pairs_rewritten : forall U K c u ft s a d t1 cont s1 tr, u_upd U = Some u ->
  accept_step U K c ft s a d t1 = (Ok (cont, s1), tr) ->
  exists f0 g f1 fo g1 G1 X1 G2,
    In (EvUpd (s_x s1) f0 (s_f s) g (s_X s) (s_G s) (Ok (f1, fo, g1, G1))) tr /\
    filter_mem K c (s_X s) G1 = (X1, G2) /\ s_g s1 = g1 /\ s_f s1 = f1 /\
    ((cont = false /\ s_X s1 = X1 /\ s_G s1 = G2) \/
     (cont = true /\ (s_X s1, s_G s1, s_mats s1) =
                     update_mem_f K c (1 <? List.length X1)%nat (s_x s1) g1 X1 G2 (if (List.length X1 =? 1)%nat then None else s_mats s))).
Proof. exact accept_step_upd_shape. Qed.

(* the filter the model mirrors is the one in the source; both call sites are followed by it *)
Theorem C13_filter_source :
  make_X_and_G_respect_strong_wolfe_src =
  ["ncor: int = len(X) - 1"; "_X, _G = (Deque([X[-1]]), Deque([G[-1]]))";
   "for i in range(ncor): k = ncor - i - 1 if not is_update_X_and_G(X[k], G[k], _X[0], _G[0], eps): if logger is not None: logger.info(f'Dropping update #{-i - 2}') else: _X.appendleft(X[k]) _G.appendleft(G[k])";
   "return (_X, _G)"]%string.
Proof. reflexivity. Qed.

(* NOT proved: "the next iterate equals, up to rounding, the one obtained by restarting on the new objective from a checkpoint
   holding the rewritten history" - it relates the state after update + filter + memory update with what initialize_X_and_G
   rebuilds from differences, which is exact only in exact arithmetic, and it needs the matrices to be rebuilt even when the
   newest pair is rejected (is_force_update=False keeps the old ones: Q1 of DESIGN.md).  It is explored by the search. *)

(* TRANSLATION TIE: the curvature filter bfgsmats.make_X_and_G_respect_strong_wolfe - the backwards walk
     for i in range(ncor): k = ncor - i - 1; if not is_update_X_and_G(X[k], G[k], _X[0], _G[0], eps): (drop) else: appendleft
   which tests every stored point against the OLDEST POINT KEPT SO FAR (not against its original neighbour) - is translated from the
   source on every run (Generated/FilterGen.v; logging statements ignored) and IS the model's filter_mem. *)
Lemma curv_src : forall (K : kern) (c : cfg) xk gk xo go,
  BfgsMem.is_update_X_and_G (vdot K) xk gk xo go (eps_sy c) = curvature_ok K c xk gk xo go.
Proof. intros. unfold BfgsMem.is_update_X_and_G, curvature_ok. destruct (ltb _ _); reflexivity. Qed.

Section FilterTranslated.
  Variable K : kern.
  Variable c : cfg.
  Variables X G : list vec.
  Notation walk := (FilterGen.walk (vdot K) (eps_sy c) X G).
  Notation ncor := (FilterGen.ncor X).

  Lemma walk_filter_back : forall (rX rG : list vec) (i : nat) (aX aG : list vec),
    List.length rG = List.length rX ->
    (forall j, (j < List.length rX)%nat -> List.nth (ncor - (i + j) - 1) X [] = List.nth j rX [] /\ List.nth (ncor - (i + j) - 1) G [] = List.nth j rG []) ->
    walk (List.length rX) i aX aG = filter_back K c rX rG aX aG.
  Proof.
    induction rX as [|xk rX IH]; intros rG i aX aG HL H; destruct rG as [|gk rG]; try discriminate; [reflexivity|].
    cbn [List.length FilterGen.walk filter_back]. destruct (H 0%nat ltac:(cbn; lia)) as [Hx Hg]. rewrite Nat.add_0_r in Hx, Hg. cbn [List.nth] in Hx, Hg.
    rewrite Hx, Hg. rewrite (curv_src K c xk gk (List.hd [] aX) (List.hd [] aG)).
    injection HL as HL.
    assert (H' : forall j, (j < List.length rX)%nat -> List.nth (ncor - (S i + j) - 1) X [] = List.nth j rX [] /\ List.nth (ncor - (S i + j) - 1) G [] = List.nth j rG []).
    { intros j Hj. specialize (H (S j) ltac:(cbn; lia)). cbn [List.nth] in H. replace (S i + j)%nat with (i + S j)%nat by lia. exact H. }
    destruct (curvature_ok K c xk gk (List.hd [] aX) (List.hd [] aG)); cbn [negb]; apply IH; assumption.
  Qed.
End FilterTranslated.

Theorem C13_filter_translated : forall (K : kern) (c : cfg) (X G : list vec), X <> [] -> List.length G = List.length X ->
  FilterGen.make_X_and_G_respect_strong_wolfe (vdot K) (eps_sy c) X G = filter_mem K c X G.
Proof.
  intros K c X G HX HL.
  destruct (exists_last HX) as (P & xl & ->).
  assert (HG : G <> []) by (destruct G; [rewrite app_length in HL; cbn in HL; lia|discriminate]).
  destruct (exists_last HG) as (Q & gl & ->).
  rewrite !app_length in HL. cbn [List.length] in HL. assert (HPQ : List.length Q = List.length P) by lia.
  unfold FilterGen.make_X_and_G_respect_strong_wolfe, filter_mem. rewrite !rev_app_distr. cbn [rev app].
  rewrite !last_last.
  assert (Hn : FilterGen.ncor (P ++ [xl]) = List.length (rev P)) by (unfold FilterGen.ncor; rewrite app_length, rev_length; cbn; lia).
  rewrite Hn. apply walk_filter_back; [rewrite !rev_length; exact HPQ|].
  intros j Hj. rewrite rev_length in Hj. unfold FilterGen.ncor. rewrite !app_length. cbn [List.length Nat.add].
  cbn [Nat.add]. replace (List.length P + 1 - 1 - j - 1)%nat with (List.length P - S j)%nat by lia.
  split.
  - rewrite app_nth1 by lia. rewrite rev_nth by lia. reflexivity.
  - rewrite app_nth1 by lia. rewrite rev_nth by lia. rewrite HPQ. reflexivity.
Qed.

Print Assumptions C13_identity.
Print Assumptions C13_filter_spec.
Print Assumptions C13_pairs_rewritten.

(* Non-vacuity: a three-point history whose middle gradient is rewritten so that the pair it closes fails the test: the middle
   point is dropped, the newest point stays, the bridging pair passes. *)
Definition Kf : kern := mkkern (fun x _ _ _ => x) (fun _ _ => (1%float, TConv))
  (fun a b => match a, b with [u], [v] => mul u v | _, _ => 0%float end).
Definition cf0 : cfg :=
  mkcfg [0%float] [0%float] [1%float] 5 None 0%float (TolConst 0%float) 5 10 20 1%float 0.001%float 0.9%float 0.1%float 0%float None.
Example C13_filter_example :
  filter_mem Kf cf0 [[0%float]; [1%float]; [2%float]] [[0%float]; [5%float]; [2%float]] = ([[0%float]; [2%float]], [[0%float]; [2%float]]).
Proof. vm_compute. reflexivity. Qed.
