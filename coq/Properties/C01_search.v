(* C01 (part): the search direction of one iteration, from the source.  Restates nothing; composes the two whole-function
   translation ties of the kernels (Properties/C08_float.v: C08f_whole_from_source, Properties/C09_float.v: C09f_tail_from_source). *)
From Coq Require Import List Bool Arith Floats.PrimFloat.
From LBFGSB Require Generated.FreeSet Generated.SubspaceTail Proofs.SubspaceTail Proofs.CauchyWhole Proofs.FCauchyProofs Model.DriverKern Properties.C08_float Properties.C09_float.
From LBFGSB Require Import Model.FloatVec Model.FCauchy Model.FSubspace.
Import ListNotations.

(* THE SEARCH DIRECTION OF ONE ITERATION, FROM THE SOURCE.  get_cauchy_point, get_freev and subspace_minimization as translated
   (Proofs/CauchyWhole.get_cauchy_point_src, Generated/FreeSet.free_mask, Generated/SubspaceTail.subspace_minimization), chained
   as the main loop chains them, compute the search kernel of the composed binary64 driver model (Model/DriverKern.search_model)
   - the model whose whole runs are compared bit for bit with the implementation by the `driver:kern` correspondence - for
   arrays of one length and a reduced solve that answers with one number per free variable. *)
Definition search_src (B : DriverKern.blas) (vdot : vec -> vec -> float) (c : Driver.cfg) (x g : vec) (m : Driver.mats) (nit : BinNums.Z) : vec :=
  let '(theta, W, uf) := DriverKern.mats_params vdot (length x) m in
  let '(xcp, cc) := CauchyWhole.get_cauchy_point_src (DriverKern.b_gcp B nit) x g (Driver.lb c) (Driver.ub c) theta W uf in
  let free_vars := indices_from 0 (LBFGSB.Generated.FreeSet.free_mask xcp (Driver.lb c) (Driver.ub c)) in
  LBFGSB.Generated.SubspaceTail.subspace_minimization (o_Wc (DriverKern.b_sub B nit))
    (fun _ rh => o_corr (DriverKern.b_sub B nit) (ffree xcp (Driver.lb c) (Driver.ub c)) rh) theta uf x xcp cc g (Driver.lb c) (Driver.ub c) free_vars.

Theorem C01_search_from_source : forall (B : DriverKern.blas) (vdot : vec -> vec -> float) (c : Driver.cfg) (x g : vec) (m : Driver.mats) (nit : BinNums.Z),
  length g = length x -> length (Driver.lb c) = length x -> length (Driver.ub c) = length x ->
  (forall theta W uf xcp cc, (theta, W, uf) = DriverKern.mats_params vdot (length x) m ->
     (xcp, cc) = fgcp (DriverKern.b_gcp B nit) x g (Driver.lb c) (Driver.ub c) theta W uf ->
     length (o_corr (DriverKern.b_sub B nit) (ffree xcp (Driver.lb c) (Driver.ub c))
               (rhat (DriverKern.b_sub B nit) x xcp cc g theta uf (ffree xcp (Driver.lb c) (Driver.ub c))))
     = Proofs.SubspaceTail.count (ffree xcp (Driver.lb c) (Driver.ub c))) ->
  search_src B vdot c x g m nit = DriverKern.search_model B vdot c x g m nit.
Proof.
  intros B vdot c x g m nit Hg Hl Hu Hc. unfold search_src, DriverKern.search_model.
  destruct (DriverKern.mats_params vdot (length x) m) as [[theta W] uf] eqn:EM.
  rewrite (C08_float.C08f_whole_from_source (DriverKern.b_gcp B nit) x g (Driver.lb c) (Driver.ub c) theta W uf Hg Hl Hu).
  destruct (fgcp (DriverKern.b_gcp B nit) x g (Driver.lb c) (Driver.ub c) theta W uf) as [xcp cc] eqn:EG.
  assert (Lx : length xcp = length x).
  { pose proof (FCauchyProofs.fgcp_length_xcp (DriverKern.b_gcp B nit) x g (Driver.lb c) (Driver.ub c) theta W uf) as L.
    unfold fgcp in EG. inversion EG; subst. exact L. }
  apply C09_float.C09f_tail_from_source; try congruence.
  apply (Hc theta W uf xcp cc eq_refl (eq_sym EG)).
Qed.

(* the hypotheses are met: two variables, no pair stored yet, both variables free at the Cauchy point *)
From Coq Require Import ZArith.
Example C01_search_example :
  let B := DriverKern.mkblas (fun _ => mkO (fun d => [0%float]) (fun d => fold_right (fun e a => add (mul e e) a) 0%float d) (fun _ => 0%float) (fun _ _ => 0%float) (fun _ _ => 0%float))
                             (fun _ => mkSO (fun _ => [0%float]) (fun _ rh => map (fun _ => 0%float) rh)) in
  let c := Driver.mkcfg [0; 0]%float [-10; -10]%float [10; 10]%float 3%Z None 0%float (Driver.TolConst 0%float) 10%Z 100%Z 20%Z 1e8%float
             0x1.0624dd2f1a9fcp-10%float 0x1.ccccccccccccdp-1%float 0x1.999999999999ap-4%float 0x1.fb4c5b3a1b5bcp-53%float None in
  let vdot := fun a b : vec => 0%float in
  search_src B vdot c [0; 0]%float [1; 1]%float None 0%Z = DriverKern.search_model B vdot c [0; 0]%float [1; 1]%float None 0%Z
  /\ search_src B vdot c [0; 0]%float [1; 1]%float None 0%Z = [-1; -1]%float.
Proof.
  cbv zeta. split; [|vm_compute; reflexivity].
  apply C01_search_from_source; try reflexivity.
  intros theta W uf xcp cc HM HG. vm_compute in HM. inversion HM; subst. vm_compute in HG. inversion HG; subst. vm_compute. reflexivity.
Qed.

Print Assumptions C01_search_from_source.
