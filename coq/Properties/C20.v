(* C20 - failures of user callables surface unchanged and leave nothing behind.
   Restates Proofs/DriverWf.wf_run on the driver model, for every user, every kernel behaviour,
   every configuration (checkpoint, scaler, update function, callable tolerances included). *)
From Coq Require Import List ZArith Bool String Floats.PrimFloat.
From LBFGSB Require Import Base.Res Model.SF Model.FloatVec Model.Driver Proofs.DriverWf.
Import ListNotations.
Open Scope Z_scope.

Section C20.
  Variable U : user.
  Variable K : kern.
  Variable c : cfg.
  (* answers of user callables are values or exceptions *)
  Hypothesis uf_total : forall x, uf U x <> OutOfFuel.
  Hypothesis ug_total : forall x, ug U x <> OutOfFuel.
  Hypothesis fd_ok : forall x v vs, exists g, fd_est U x v vs = Ok g.
  Hypothesis cb_total : forall cb s, u_cb U = Some cb -> cb s <> OutOfFuel.
  Hypothesis upd_total : forall u x a b g X G, u_upd U = Some u -> u x a b g X G <> OutOfFuel.
  Hypothesis sc_total : forall sc x g l u, u_scaler U = Some sc -> sc x g l u <> OutOfFuel.
  Hypothesis ft_total : u_ftarget U <> OutOfFuel.
  Hypothesis gt_total : u_gtol U <> OutOfFuel.

  (* If the run ends with exception e, then e is the exception raised by the last user call of the trace,
     every earlier user call returned normally and (the trace ending there) nothing was called afterwards. *)
  Theorem C20_propagation : forall e tr, run U K c = (Raise e, tr) ->
    exists tr0 ev, tr = tr0 ++ [ev] /\ all_ok ev_status tr0 /\ ev_status ev = Some e.
  Proof.
    intros e tr H.
    pose proof (wf_run U K c uf_total ug_total fd_ok cb_total upd_total sc_total ft_total gt_total) as W.
    rewrite H in W. exact W.
  Qed.

  (* Conversely a run that returns a result has seen no failing user call: no exception is swallowed or
     converted into a result. *)
  Theorem C20_nothing_swallowed : forall r tr, run U K c = (Ok r, tr) -> all_ok ev_status tr.
  Proof.
    intros r tr H.
    pose proof (wf_run U K c uf_total ug_total fd_ok cb_total upd_total sc_total ft_total gt_total) as W.
    rewrite H in W. exact W.
  Qed.
End C20.

Print Assumptions C20_propagation.
Print Assumptions C20_nothing_swallowed.

(* Non-vacuity: a one-variable run whose gradient raises at its first call. *)
Definition boom : exn := ("TypeError"%string, "boom"%string).
Definition U_ex : user :=
  mkuser (fun x => Ok 1%float) (fun x => Raise boom) None None None (Ok 0%float) (Ok 0%float) false (fun _ => []) (fun _ _ _ => Ok []).
Definition K_ex : kern := mkkern (fun x _ _ _ => x) (fun _ _ => (1%float, TConv)) (fun _ _ => 0%float).
Definition c_ex : cfg :=
  mkcfg [0.5%float] [0%float] [1%float] 3 None 0%float (TolConst 0%float) 5 10 20 1%float 0.001%float 0.9%float 0.1%float 0%float None.
Example C20_example : run U_ex K_ex c_ex = (Raise boom, [EvF [0.5%float] (Ok 1%float); EvG [0.5%float] (Raise boom)]).
Proof. vm_compute. reflexivity. Qed.
