(* C20 - failures of user callables surface unchanged and leave nothing behind.
   Restates Proofs/DriverWf.wf_run on the driver model, for every user, every kernel behaviour,
   every configuration (checkpoint, scaler, update function, callable tolerances included). *)
From Coq Require Import List ZArith Bool String Floats.PrimFloat.
From LBFGSB Require Generated.GetBounds Model.NumpyOps.
From LBFGSB Require Import Base.Res Model.SF Model.FloatVec Model.Driver Proofs.DriverWf Generated.Handlers.
Import ListNotations.
Open Scope Z_scope.

Section C20.
  Variable U : user.
  Variable K : kern.
  Variable c : cfg.
  (* answers of user callables are values or exceptions *)
  Hypothesis uf_total : forall x, uf U x <> OutOfFuel.
  Hypothesis ug_total : forall x, ug U x <> OutOfFuel.
  Hypothesis fd_ok : forall x v vs, exists g, fd_est U x v vs = Ok g.
  Hypothesis cb_total : forall cb s, u_cb U = Some cb -> cb s <> OutOfFuel.
  Hypothesis upd_total : forall u x a b g X G, u_upd U = Some u -> u x a b g X G <> OutOfFuel.
  Hypothesis sc_total : forall sc x g l u, u_scaler U = Some sc -> sc x g l u <> OutOfFuel.
  Hypothesis ft_total : u_ftarget U <> OutOfFuel.
  Hypothesis gt_total : u_gtol U <> OutOfFuel.

  (* Whatever the run does, a user call that raises is the LAST user call of the run and the exception it
     raised (same class name, same message) is the outcome of the run: it is neither swallowed, nor converted
     into a result, nor replaced by another exception, and nothing is called afterwards.
     Holds for every kind of callable (objective, gradient, callback, update function, scaler, ftarget(), gtol()),
     every call index, every kernel / line-search behaviour, with or without checkpoint. *)
  Theorem C20_propagation : forall out tr tr0 ev tr1 e,
    run U K c = (out, tr) -> tr = tr0 ++ ev :: tr1 -> ev_status ev = Some e -> tr1 = [] /\ out = Raise e.
  Proof.
    intros out tr tr0 ev tr1 e H Ht He.
    pose proof (wf_run U K c uf_total ug_total fd_ok cb_total upd_total sc_total ft_total gt_total) as W.
    pose proof (wf_failing_call_is_last ev_status (internal c) _ W tr0 ev tr1 e) as L. rewrite H in L. cbn in L. auto.
  Qed.

  (* Conversely an exception that reaches the caller is the one raised by the last user call, unless it is the
     package's own argument validation (x0 differs from checkpoint.x, x0 outside the bounds, lb > ub, empty x0),
     which is raised when no user call has failed. *)
  Theorem C20_only_user_exceptions : forall e tr, run U K c = (Raise e, tr) ->
    (exists tr0 ev, tr = tr0 ++ [ev] /\ all_ok ev_status tr0 /\ ev_status ev = Some e) \/ (all_ok ev_status tr /\ (e = ck_mismatch \/ bounds_error c = Some e)).
  Proof.
    intros e tr H.
    pose proof (wf_run U K c uf_total ug_total fd_ok cb_total upd_total sc_total ft_total gt_total) as W.
    rewrite H in W. exact W.
  Qed.

  (* A run that returns a result has seen no failing user call. *)
  Theorem C20_nothing_swallowed : forall r tr, run U K c = (Ok r, tr) -> all_ok ev_status tr.
  Proof.
    intros r tr H.
    pose proof (wf_run U K c uf_total ug_total fd_ok cb_total upd_total sc_total ft_total gt_total) as W.
    rewrite H in W. exact W.
  Qed.
End C20.

(* Code side of the same statement, re-derived from the source on every run (Generated/Handlers.v is rewritten by the
   translator's scan of every try/except, `with` and call site of the package): no exception handler guards a block that can
   reach a user callable, no exception-suppressing context manager is used, and nothing changes process-wide state
   (numpy error state, warning filters, logging configuration, PRNG seeds): "leaves nothing behind". *)
Theorem C20_no_handler_around_user_code :
  except_sites_reaching_user_code = [] /\ suppressing_with_sites = [] /\ global_state_mutator_calls = [] /\ shared_write_sites = [].
Proof. repeat split; reflexivity. Qed.

(* TRANSLATION TIE: the only exceptions of the package's own that a run can end with (C20_propagation: a checkpoint mismatch or
   `bounds_error`) - the validation of x0 against the bounds in base.get_bounds - which ValueError, in which order, with which
   message, the f-string of the last one translated piece by piece (Generated/GetBounds.v, regenerated on every run), is the
   model's bounds_error. *)
Lemma any_count : forall (p : float -> float -> bool) (a b : vec), existsb (fun t => t) (NumpyOps.bmap2 p a b) = (0 <? count2 p a b)%nat.
Proof. induction a as [|x a IH]; intros [|y b]; cbn [NumpyOps.bmap2 existsb count2]; auto. destruct (p x y); cbn [orb Nat.add]; [reflexivity|apply IH]. Qed.
Lemma filter_count : forall (p : float -> float -> bool) (a b : vec), List.length (List.filter (fun t => t) (NumpyOps.bmap2 p a b)) = count2 p a b.
Proof. induction a as [|x a IH]; intros [|y b]; cbn [NumpyOps.bmap2 filter count2 List.length]; auto. destruct (p x y); cbn [List.length Nat.add]; [f_equal|]; apply IH. Qed.

Theorem C20_get_bounds_from_source : forall c : cfg,
  GetBounds.get_bounds_error (x0 c) (lb c) (ub c) = bounds_error c.
Proof.
  intros c. unfold GetBounds.get_bounds_error, bounds_error. destruct (x0 c) as [|a x]; [reflexivity|].
  rewrite !any_count, !filter_count. destruct (0 <? count2 ltb (ub c) (lb c))%nat; [reflexivity|].
  assert (E : ((0 <? count2 ltb (a :: x) (lb c))%nat || (0 <? count2 ltb (ub c) (a :: x))%nat) = (0 <? count2 ltb (a :: x) (lb c) + count2 ltb (ub c) (a :: x))%nat).
  { destruct (count2 ltb (a :: x) (lb c)); destruct (count2 ltb (ub c) (a :: x)); reflexivity. }
  rewrite E. destruct (0 <? _ + _)%nat; reflexivity.
Qed.

Print Assumptions C20_get_bounds_from_source.
Print Assumptions C20_propagation.
Print Assumptions C20_only_user_exceptions.
Print Assumptions C20_nothing_swallowed.

(* Non-vacuity: a one-variable run whose gradient raises at its first call. *)
Definition boom : exn := ("TypeError"%string, "boom"%string).
Definition U_ex : user :=
  mkuser (fun x => Ok 1%float) (fun x => Raise boom) None None None (Ok 0%float) (Ok 0%float) false (fun _ => []) (fun _ _ _ => Ok []).
Definition K_ex : kern := mkkern (fun x _ _ _ => x) (fun _ _ => (1%float, TConv)) (fun _ _ => 0%float).
Definition c_ex : cfg :=
  mkcfg [0.5%float] [0%float] [1%float] 3 None 0%float (TolConst 0%float) 5 10 20 1%float 0.001%float 0.9%float 0.1%float 0%float None.
Example C20_example : run U_ex K_ex c_ex = (Raise boom, [EvF [0.5%float] (Ok 1%float); EvG [0.5%float] (Raise boom)]).
Proof. vm_compute. reflexivity. Qed.
