(* C12 - on unconstrained problems the iterates are those of reference Algorithm 778.
   The reference is a compiled binary without a model: "coincides with the reference" is not a theorem here.  What Coq
   decides is what is about THIS package: its constants, first-step rule, scaling theta and documented deviations, all
   re-extracted from the source on every run (Generated/Consts.v), and the algebra that makes the unconstrained step the
   BFGS quasi-Newton step (C10 matrix half).  Agreement with the binary is explored by the search (see DESIGN.md). *)
From Coq Require Import List ZArith QArith Bool String Floats.PrimFloat.
From LBFGSB Require Import Generated.Consts Model.FloatVec Model.Driver.
From LBFGSB Require Model.Bfgs Proofs.BfgsProofs.
Import ListNotations.
Open Scope Z_scope.

(* the default constants are Algorithm 778's (as the nearest binary64 values): ftol = 1e-3, gtol = 0.9, xtol = 0.1 for the
   line search, eps for the curvature test 2.2e-16, maxls = 20, m = 10, step cap 1e8, machine epsilon in the Cauchy safeguard *)
Theorem C12_constants :
  default_ftol_linesearch = 0x1.0624dd2f1a9fcp-10%float /\
  default_gtol_linesearch = 0x1.ccccccccccccdp-1%float /\
  default_xtol_linesearch = 0x1.999999999999ap-4%float /\
  default_eps_SY = 0x1.fb49140a1644fp-53%float /\
  default_maxls = 20 /\ default_maxcor = 10 /\ default_max_steplength = 0x1.7d784p+26%float /\
  ls_default_ftol = default_ftol_linesearch /\ ls_default_gtol = default_gtol_linesearch /\ ls_default_xtol = default_xtol_linesearch /\
  cauchy_eps_f_sec_src = "np.finfo(float).eps"%string /\ cauchy_eps_f_sec = 0x1p-52%float.
Proof. repeat split; reflexivity. Qed.

(* the decimal constants these binary64 values are nearest to *)
Theorem C12_constants_decimal :
  default_ftol_linesearch = 0.001%float /\ default_gtol_linesearch = 0.9%float /\ default_xtol_linesearch = 0.1%float /\
  default_eps_SY = 2.2e-16%float /\ default_max_steplength = 1e8%float.
Proof. repeat split; reflexivity. Qed.

(* first-iteration step rule of the reference (1/||d|| for non-boxed problems, 1 otherwise), and the places where the port
   deviates from it on purpose: step cap 1 at iteration 0, breakpoints filtered to t > 0 after a stable sort, DCSRCH called
   with stpmin = 0 *)
Theorem C12_first_step_and_deviation_sites :
  ls_first_step_src = ["above_iter == 0 and (not is_boxed)"; "steplength_0 = min(1.0 / np.sqrt(d.dot(d)), max_steplength)"; "steplength_0 = 1.0"]%string /\
  ls_maxstep_iter0_src = ["n_iter == 0"; "return 1.0"]%string /\
  ls_dcsrch_args_src = ["phi"; "dphi"; "ftol"; "gtol"; "xtol"; "0.0"; "max_steplength"]%string /\
  cauchy_sorted_idx_src = ["np.argsort(t, kind='stable')"; "sorted_t_idx[t[sorted_t_idx] > 0]"]%string /\
  bfgs_theta_src = ["yTy / sTy"]%string.
Proof. repeat split; reflexivity. Qed.

(* the model implements that rule: at iteration 0 of a problem with an infinite bound the first trial step is
   min(1/sqrt(d.d), stpmax), later (or on boxed problems) it is 1 *)
Definition first_trial (K : kern) (c : cfg) (xk d : vec) (nit : Z) : float :=
  let stpmax := if nit =? 0 then fone else maxstep xk d (lb c) (ub c) (max_steplength c) in
  if (nit =? 0) && negb (is_boxed c) then pymin (div fone (sqrt (vdot K d d))) stpmax else fone.
Theorem C12_first_step_model : forall K c xk d nit,
  (0 < nit -> first_trial K c xk d nit = fone) /\
  (is_boxed c = true -> first_trial K c xk d nit = fone) /\
  (nit = 0 -> is_boxed c = false -> first_trial K c xk d nit = pymin (div fone (sqrt (vdot K d d))) fone).
Proof.
  intros K c xk d nit. unfold first_trial. repeat split.
  - intros H. destruct (nit =? 0) eqn:E; [apply Z.eqb_eq in E; exfalso; clear - H E; subst; inversion H|reflexivity].
  - intros ->. rewrite andb_false_r. reflexivity.
  - intros -> ->. reflexivity.
Qed.

(* theta = y.y / s.y of the newest pair (exact model of bfgsmats.py, any history) *)
Theorem C12_theta : forall (X G : list Bfgs.vec) (x0 x1 g0 g1 : Bfgs.vec), List.length X = List.length G ->
  let s := Bfgs.vsub x1 x0 in let y := Bfgs.vsub g1 g0 in
  (Bfgs.c_theta (Bfgs.compact (X ++ [x0; x1]) (G ++ [g0; g1])) == Bfgs.dot_raw y y / Bfgs.dot_raw s y)%Q.
Proof. intros X G x0 x1 g0 g1 H. exact (proj2 (BfgsProofs.theta_newest X G x0 x1 g0 g1 H)). Qed.

Print Assumptions C12_constants.
Print Assumptions C12_first_step_model.
Print Assumptions C12_theta.
