(* C06 - restarting from a returned result continues the run as if it had not stopped.
   The checkpoint stores only DIFFERENCES of the history, so the reconstruction is exact only up to rounding in binary64;
   the property itself says "up to rounding".  Proved here: (1) over ANY abelian group of vectors the reconstruction algorithm
   of initialize_X_and_G + the re-insertion of the current point is EXACT - every split point, every reduced maxcor (the most
   recent pairs are kept), chains of restarts; (2) the algorithm these theorems are about IS the one in the driver model
   (reflexivity); (3) in the binary64 model a restart that performs no iteration reports the pairs of the history it rebuilt;
   (4) the laws fail in binary64 by one rounding (witness).  The size of the rounding gap and the continuation (next iterate)
   are explored by the search and compared bit for bit with the model by the driver correspondence on restart chains. *)
From Coq Require Import List ZArith Bool String Floats.PrimFloat.
From LBFGSB Require Import Base.Res Model.SF Model.FloatVec Model.Driver Model.Restore Generated.Memory
  Proofs.RestoreProofs Proofs.RestoreInst Proofs.DriverShape Proofs.DriverRestart.
Import ListNotations.
Open Scope Z_scope.

Section C06_exact.
  (* any abelian group of vectors *)
  Variable V : Type.
  Variables (vzero : V) (vopp : V -> V) (vadd vsub : V -> V -> V).
  Hypothesis vadd_assoc : forall a b c, vadd a (vadd b c) = vadd (vadd a b) c.
  Hypothesis vadd_comm : forall a b, vadd a b = vadd b a.
  Hypothesis vadd_zero_r : forall a, vadd a vzero = a.
  Hypothesis vadd_opp_r : forall a, vadd a (vopp a) = vzero.
  Hypothesis vsub_def : forall a b, vsub a b = vadd a (vopp b).

  (* every split point: from the last point x of ANY history X and the differences of X, the history is rebuilt exactly *)
  Theorem C06_restore_exact : forall (X : list V) (x d : V), X <> [] -> last X d = x ->
    Restore.restore_points vadd vsub x (Restore.diffs vsub X) ++ [x] = X.
  Proof. exact (group_restore_diffs V vzero vopp vadd vsub vadd_assoc vadd_comm vadd_zero_r vadd_opp_r vsub_def). Qed.

  (* a restart that performs no iteration returns the same correction pairs - and with maxcor reduced the most recent
     min(m, maxcor) pairs: rebuild the points, keep at most maxcor+1 of them, re-insert x, drop the oldest if needed *)
  Theorem C06_no_iteration_pairs : forall (maxcor : Z), 0 <= maxcor -> forall (x : V) (sk : list V),
    Restore.diffs vsub (Restore.trim maxcor (Restore.push_bounded maxcor (Restore.restore_points vadd vsub x sk) [] ++ [x]))
    = lastn (Nat.min (List.length sk) (Z.to_nat maxcor)) sk.
  Proof. exact (group_restart_pairs V vzero vopp vadd vsub vadd_assoc vadd_comm vadd_zero_r vadd_opp_r vsub_def). Qed.

  (* chains of restarts: rebuilding from a rebuilt history changes nothing *)
  Theorem C06_chain : forall (X : list V) (x : V),
    let X' := Restore.restore_points vadd vsub x (Restore.diffs vsub X) ++ [x] in
    Restore.restore_points vadd vsub x (Restore.diffs vsub X') ++ [x] = X'.
  Proof. exact (group_restore_chain V vzero vopp vadd vsub vadd_assoc vadd_comm vadd_zero_r vadd_opp_r vsub_def). Qed.
End C06_exact.

(* the algorithm of the theorems above is the one of the driver model, instantiated with binary64 vectors *)
Theorem C06_model_is_instance :
  FloatVec.diffs = Restore.diffs FloatVec.vsub /\
  Driver.restore_points = Restore.restore_points FloatVec.vadd FloatVec.vsub /\
  (forall c, Driver.push_bounded c = Restore.push_bounded (maxcor c)) /\ (forall c, Driver.trim c = Restore.trim (maxcor c)) /\
  (forall c ck, Driver.restore c ck = Restore.restore FloatVec.vadd FloatVec.vsub (maxcor c) (r_x ck) (r_jac ck) (r_sk ck) (r_yk ck)).
Proof.
  split; [exact diffs_inst|]. split; [exact restore_points_inst|]. split; [exact push_bounded_inst|]. split; [exact trim_inst|exact restore_inst].
Qed.

(* ... and the one of the source (Generated/Memory.v is rewritten from main.py on every run) *)
Theorem C06_restore_source :
  nth 7 initialize_X_and_G_src ""%string =
  "for x, g in zip((checkpoint.x - np.cumsum(checkpoint.hess_inv.sk[::-1], axis=0))[::-1], (checkpoint.jac - np.cumsum(checkpoint.hess_inv.yk[::-1], axis=0))[::-1]): if len(X) > maxcor: X.popleft() G.popleft() X.append(x) G.append(g)"%string.
Proof. reflexivity. Qed.

(* binary64 model, every user / kernel: a restart with maxiter <= the checkpoint's nit performs no pass of the loop and
   reports the checkpoint's own pairs (target reached) or the differences of the rebuilt history with x re-inserted *)
Theorem C06_restart_without_iteration : forall U K c ck r tr,
  checkpoint c = Some ck -> maxiter c <= r_nit ck -> run U K c = (Ok r, tr) ->
  (r_sk r = r_sk ck /\ r_yk r = r_yk ck /\ r_msg r = MTarget) \/
  exists f1 g1 G1 t3, let s0 := first_state U K c (vclip (x0 c) (lb c) (ub c)) f1 g1 G1 t3 in
    r_sk r = FloatVec.diffs (s_X s0) /\ r_yk r = FloatVec.diffs (s_G s0) /\ r_nit r = r_nit ck.
Proof. exact restart_no_iteration. Qed.

(* in binary64 the group laws hold only up to rounding: x - (x - s) differs from s *)
Example C06_float_not_exact :
  veqb (hd [] (FloatVec.diffs (Driver.restore_points [1%float] [[0.1%float]] ++ [[1%float]]))) [0.1%float] = false.
Proof. vm_compute. reflexivity. Qed.

Print Assumptions C06_restore_exact.
Print Assumptions C06_no_iteration_pairs.
Print Assumptions C06_model_is_instance.
Print Assumptions C06_restart_without_iteration.
