(* C06 - restarting from a returned result continues the run as if it had not stopped.
   The checkpoint stores only DIFFERENCES of the history, so the reconstruction is exact only up to rounding in binary64;
   the property itself says "up to rounding".  Proved here: (1) over ANY abelian group of vectors the reconstruction algorithm
   of initialize_X_and_G + the re-insertion of the current point is EXACT - every split point, every reduced maxcor (the most
   recent pairs are kept), chains of restarts; (2) the algorithm these theorems are about IS the one in the driver model
   (reflexivity); (3) in the binary64 model a restart that performs no iteration reports the pairs of the history it rebuilt;
   (4) the laws fail in binary64 by one rounding (witness).  The size of the rounding gap and the continuation (next iterate)
   are explored by the search and compared bit for bit with the model by the driver correspondence on restart chains. *)
From Coq Require Import List ZArith Bool String Lia Floats.PrimFloat.
From LBFGSB Require Model.Dcsrch Model.DriverDcs Model.NumpyOps Generated.RestoreGen.
From LBFGSB Require Import Base.Res Model.SF Model.FloatVec Model.Driver Model.Restore Generated.Memory
  Proofs.RestoreProofs Proofs.RestoreInst Proofs.DriverShape Proofs.DriverRestart Proofs.DriverRestartState Proofs.DriverSnapshot Proofs.DriverSplit Generated.StopTests.
Import ListNotations.
Open Scope Z_scope.

Section C06_exact.
  (* any abelian group of vectors *)
  Variable V : Type.
  Variables (vzero : V) (vopp : V -> V) (vadd vsub : V -> V -> V).
  Hypothesis vadd_assoc : forall a b c, vadd a (vadd b c) = vadd (vadd a b) c.
  Hypothesis vadd_comm : forall a b, vadd a b = vadd b a.
  Hypothesis vadd_zero_r : forall a, vadd a vzero = a.
  Hypothesis vadd_opp_r : forall a, vadd a (vopp a) = vzero.
  Hypothesis vsub_def : forall a b, vsub a b = vadd a (vopp b).

  (* every split point: from the last point x of ANY history X and the differences of X, the history is rebuilt exactly *)
  Theorem C06_restore_exact : forall (X : list V) (x d : V), X <> [] -> last X d = x ->
    Restore.restore_points vadd vsub x (Restore.diffs vsub X) ++ [x] = X.
  Proof. exact (group_restore_diffs V vzero vopp vadd vsub vadd_assoc vadd_comm vadd_zero_r vadd_opp_r vsub_def). Qed.

  (* a restart that performs no iteration returns the same correction pairs - and with maxcor reduced the most recent
     min(m, maxcor) pairs: rebuild the points, keep at most maxcor+1 of them, re-insert x, drop the oldest if needed *)
  Theorem C06_no_iteration_pairs : forall (maxcor : Z), 0 <= maxcor -> forall (x : V) (sk : list V),
    Restore.diffs vsub (Restore.trim maxcor (Restore.push_bounded maxcor (Restore.restore_points vadd vsub x sk) [] ++ [x]))
    = lastn (Nat.min (List.length sk) (Z.to_nat maxcor)) sk.
  Proof. exact (group_restart_pairs V vzero vopp vadd vsub vadd_assoc vadd_comm vadd_zero_r vadd_opp_r vsub_def). Qed.

  (* chains of restarts: rebuilding from a rebuilt history changes nothing *)
  Theorem C06_chain : forall (X : list V) (x : V),
    let X' := Restore.restore_points vadd vsub x (Restore.diffs vsub X) ++ [x] in
    Restore.restore_points vadd vsub x (Restore.diffs vsub X') ++ [x] = X'.
  Proof. exact (group_restore_chain V vzero vopp vadd vsub vadd_assoc vadd_comm vadd_zero_r vadd_opp_r vsub_def). Qed.
End C06_exact.

(* the algorithm of the theorems above is the one of the driver model, instantiated with binary64 vectors *)
Theorem C06_model_is_instance :
  FloatVec.diffs = Restore.diffs FloatVec.vsub /\
  Driver.restore_points = Restore.restore_points FloatVec.vadd FloatVec.vsub /\
  (forall c, Driver.push_bounded c = Restore.push_bounded (maxcor c)) /\ (forall c, Driver.trim c = Restore.trim (maxcor c)) /\
  (forall c ck, Driver.restore c ck = Restore.restore FloatVec.vadd FloatVec.vsub (maxcor c) (r_x ck) (r_jac ck) (r_sk ck) (r_yk ck)).
Proof.
  split; [exact diffs_inst|]. split; [exact restore_points_inst|]. split; [exact push_bounded_inst|]. split; [exact trim_inst|exact restore_inst].
Qed.

(* ... and the one of the source (Generated/Memory.v is rewritten from main.py on every run) *)
Theorem C06_restore_source :
  nth 7 initialize_X_and_G_src ""%string =
  "for x, g in zip((checkpoint.x - np.cumsum(checkpoint.hess_inv.sk[::-1], axis=0))[::-1], (checkpoint.jac - np.cumsum(checkpoint.hess_inv.yk[::-1], axis=0))[::-1]): if len(X) > maxcor: X.popleft() G.popleft() X.append(x) G.append(g)"%string.
Proof. reflexivity. Qed.

(* binary64 model, every user / kernel: a restart with maxiter <= the checkpoint's nit performs no pass of the loop and
   reports the checkpoint's own pairs (target reached) or the differences of the rebuilt history with x re-inserted *)
Theorem C06_restart_without_iteration : forall U K c ck r tr,
  checkpoint c = Some ck -> maxiter c <= r_nit ck -> run U K c = (Ok r, tr) ->
  (r_sk r = r_sk ck /\ r_yk r = r_yk ck /\ r_msg r = MTarget) \/
  exists f1 g1 G1 t3, let s0 := first_state U K c (vclip (x0 c) (lb c) (ub c)) f1 g1 G1 t3 in
    r_sk r = FloatVec.diffs (s_X s0) /\ r_yk r = FloatVec.diffs (s_G s0) /\ r_nit r = r_nit ck.
Proof. exact restart_no_iteration. Qed.

(* in binary64 the group laws hold only up to rounding: x - (x - s) differs from s *)
Example C06_float_not_exact :
  veqb (hd [] (FloatVec.diffs (Driver.restore_points [1%float] [[0.1%float]] ++ [[1%float]]))) [0.1%float] = false.
Proof. vm_compute. reflexivity. Qed.

(* (5) the state with which a restarted run enters its loop IS the state the interrupted run stopped in - every field except the
   message placeholder and the memo cell of the function wrapper - when the history is rebuilt exactly (restore c ck = the stored
   points, which (1) proves over any abelian group) AND the newest stored point of the interrupted run was its current iterate
   (its last update was accepted).  The second hypothesis is exactly what the open finding memory-newest-entry-not-x violates. *)
Theorem C06_restart_state : forall U K c (s : lst) ck, checkpoint c = Some ck -> r_nit ck = s_nit s -> u_upd U = None ->
  forall X0 G0 : list vec, s_X s = X0 ++ [s_x s] -> s_G s = G0 ++ [s_g s] -> X0 <> [] ->
    Z.of_nat (List.length (s_X s)) <= maxcor c + 1 -> List.length G0 = List.length X0 ->
    curvature_ok K c (s_x s) (s_g s) (last X0 []) (last G0 []) = true -> s_mats s = Some (s_X s, s_G s) ->
    Driver.restore c ck = (X0, G0) ->
    forall t3, first_state U K c (s_x s) (s_f s) (s_g s) (snd (restored c)) t3 =
               mklst (s_x s) (s_f s) (s_g s) (s_X s) (s_G s) (s_mats s) (s_nit s) MStart false 2 t3.
Proof. exact restart_state. Qed.

(* (6) ... and from that state the restarted run IS the interrupted run continued - same events, same final loop state, for any
   remaining budget - as soon as the next line search evaluates a point other than the restart point (its first trial point,
   whenever the line-search routine accepts the START call): the only difference between the two states, the memo cell of
   the function wrapper, disappears at the first evaluation. *)
Theorem C06_restart_continues : forall U K c (s : lst) ck (X0 G0 : list vec) t3 stp1 fuel ft gt,
  checkpoint c = Some ck -> r_nit ck = s_nit s -> u_upd U = None ->
  s_X s = X0 ++ [s_x s] -> s_G s = G0 ++ [s_g s] -> X0 <> [] ->
  Z.of_nat (List.length (s_X s)) <= maxcor c + 1 -> List.length G0 = List.length X0 ->
  curvature_ok K c (s_x s) (s_g s) (last X0 []) (last G0 []) = true -> s_mats s = Some (s_X s, s_G s) ->
  Driver.restore c ck = (X0, G0) ->
  s_msg s = MStart -> s_succ s = false -> s_warn s = 2 ->       (* the interrupted run was still going on *)
  same_counts (s_sf s) t3 ->                                     (* the restarted wrapper starts from the checkpoint's counters *)
  let d := direction K s in
  let stpmax := if s_nit s =? 0 then fone else maxstep (s_x s) d (lb c) (ub c) (max_steplength c) in
  let stp0 := if (s_nit s =? 0) && negb (is_boxed c) then StopTests.pymin (div fone (sqrt (vdot K d d))) stpmax else fone in
  dcs K (ftol_ls c, gtol_ls c, xtol_ls c, stpmax) [(stp0, s_f s, vdot K (s_g s) d)] = (stp1, TFG) ->
  (0 < Z.to_nat (ls_cap c s))%nat ->
  veqb (vclip (vaxpy (s_x s) stp1 d) (lb c) (ub c)) (SF.sx _ _ _ _ (s_sf s)) = false ->
  veqb (vclip (vaxpy (s_x s) stp1 d) (lb c) (ub c)) (SF.sx _ _ _ _ t3) = false ->
  guard c gt s = true ->
  loop U K c fuel ft gt (first_state U K c (s_x s) (s_f s) (s_g s) (snd (restored c)) t3) = loop U K c fuel ft gt s.
Proof. exact restart_continues. Qed.

(* (7) THE MAIN CLAUSE, in the exact setting: the loop of the uninterrupted run (maxiter N) IS the loop of the interrupted run (maxiter k),
   followed by the loop of the run restarted from its result - same events in the same order, same final state - under the
   hypotheses of (5), (6).  [same_loop_cfg c c']: the restarted configuration differs from the original one only in fields the
   loop does not read (x0, the checkpoint, the tolerances resolved before the loop). *)
Theorem C06_uninterrupted_is_interrupted_then_restarted :
  forall U K c c' (k : Z) ft gt (s0 s_k : lst) tr1 ck (X0 G0 : list vec) t3 stp1,
  loop U K (with_maxiter k c) (Z.to_nat (k - s_nit s0)) ft gt s0 = (Res.Ok s_k, tr1) ->
  s_nit s_k = k -> guard c gt s_k = true ->
  same_loop_cfg c c' ->
  checkpoint c' = Some ck -> r_nit ck = s_nit s_k -> u_upd U = None ->
  s_X s_k = X0 ++ [s_x s_k] -> s_G s_k = G0 ++ [s_g s_k] -> X0 <> [] ->
  Z.of_nat (List.length (s_X s_k)) <= maxcor c' + 1 -> List.length G0 = List.length X0 ->
  curvature_ok K c' (s_x s_k) (s_g s_k) (last X0 []) (last G0 []) = true -> s_mats s_k = Some (s_X s_k, s_G s_k) ->
  Driver.restore c' ck = (X0, G0) ->
  s_msg s_k = MStart -> s_succ s_k = false -> s_warn s_k = 2 ->
  same_counts (s_sf s_k) t3 ->
  let d := direction K s_k in
  let stpmax := if s_nit s_k =? 0 then fone else maxstep (s_x s_k) d (lb c') (ub c') (max_steplength c') in
  let stp0 := if (s_nit s_k =? 0) && negb (is_boxed c') then StopTests.pymin (div fone (sqrt (vdot K d d))) stpmax else fone in
  dcs K (ftol_ls c', gtol_ls c', xtol_ls c', stpmax) [(stp0, s_f s_k, vdot K (s_g s_k) d)] = (stp1, TFG) ->
  (0 < Z.to_nat (ls_cap c' s_k))%nat ->
  veqb (vclip (vaxpy (s_x s_k) stp1 d) (lb c') (ub c')) (SF.sx _ _ _ _ (s_sf s_k)) = false ->
  veqb (vclip (vaxpy (s_x s_k) stp1 d) (lb c') (ub c')) (SF.sx _ _ _ _ t3) = false ->
  loop U K c (Z.to_nat (maxiter c - s_nit s0)) ft gt s0 =
  prepend tr1 (loop U K c' (Z.to_nat (maxiter c - k)) ft gt
                 (first_state U K c' (s_x s_k) (s_f s_k) (s_g s_k) (snd (restored c')) t3)).
Proof. exact split_then_restart. Qed.

(* the fields of a returned result that a restart reads are those of the last loop state *)
Theorem C06_result_fields : forall c gt (s : lst), let r := snapshot (classify c gt s) (s_nit (classify c gt s)) in
  r_x r = s_x s /\ r_fun r = s_f s /\ r_jac r = s_g s /\ r_nit r = s_nit s /\
  r_nfev r = SF.nfev _ _ _ _ (s_sf s) /\ r_njev r = SF.ngev _ _ _ _ (s_sf s) /\ r_sk r = FloatVec.diffs (s_X s) /\ r_yk r = FloatVec.diffs (s_G s).
Proof. exact result_fields. Qed.

(* Non-vacuity of (5), (6): f(x) = x^2 on [-5, 5] from x0 = 1, a kernel that halves x, the DCSRCH model as line-search routine.
   The run with maxiter = 1 stops in state sE1 (x = 0.5, one pair) and returns ckE; the restart from ckE with maxiter = 4
   enters its loop with sE1 (up to the memo cell) and its loop IS the loop of the uninterrupted run continued from sE1. *)
Definition UE : user :=
  mkuser (fun x => Res.Ok (mul (hd 0%float x) (hd 0%float x))) (fun x => Res.Ok [mul 2%float (hd 0%float x)]) None None None
         (Res.Ok 0%float) (Res.Ok 0%float) false (fun _ => []) (fun _ _ _ => Res.Ok []).
Definition KE : kern :=
  mkkern (fun x _ _ _ => map (fun v => mul v 0.5%float) x) (DriverDcs.dcs_model Dcsrch.sq_mul) (fun a b => mul (hd 0%float a) (hd 0%float b)).
Definition gtE : float := 0x1.0c6f7a0b5ed8dp-20%float.
Definition cE (mi : Z) (x0 : float) (ck : option result) : cfg :=
  mkcfg [x0] [(-5)%float] [5%float] 3 None 0%float (TolConst gtE) mi 100 20 1e8%float
        0x1.0624dd2f1a9fcp-10%float 0x1.ccccccccccccdp-1%float 0x1.999999999999ap-4%float 0x1.fb4c5b3a1b5bcp-53%float ck.
Definition sE0 : lst :=
  first_state UE KE (cE 1 1%float None) [1%float] 1%float [2%float] [] (SF.mk _ _ _ _ [1%float] (Some 1%float) (Some [2%float]) 1 1 fone).
Definition sE1 : lst := match loop UE KE (cE 1 1%float None) 1 None gtE sE0 with (Res.Ok s, _) => s | _ => sE0 end.
Definition ckE : result := snapshot (classify (cE 1 1%float None) gtE sE1) 1.
Definition tE3 : SF.st vec float vec float := SF.set_counters _ _ _ _ 2 2 (SF.init vec float vec float [0.5%float] fone).
Example C06_example :
  (* the interrupted run returns ckE ... *)
  fst (run UE KE (cE 1 1%float None)) = Res.Ok ckE /\
  (* ... and the loop of the restart (maxiter 4) from ckE is the loop of the uninterrupted run continued from sE1 *)
  loop UE KE (cE 4 0.5%float (Some ckE)) 3 None gtE
       (first_state UE KE (cE 4 0.5%float (Some ckE)) (s_x sE1) (s_f sE1) (s_g sE1) (snd (restored (cE 4 0.5%float (Some ckE)))) tE3)
  = loop UE KE (cE 4 0.5%float (Some ckE)) 3 None gtE sE1 /\
  (* hence (7): the uninterrupted run's loop (maxiter 4, from the start state) = the interrupted prefix followed by the restarted loop *)
  loop UE KE (cE 4 1%float None) 4 None gtE sE0 =
  prepend (snd (loop UE KE (cE 1 1%float None) 1 None gtE sE0))
          (loop UE KE (cE 4 0.5%float (Some ckE)) 3 None gtE
             (first_state UE KE (cE 4 0.5%float (Some ckE)) (s_x sE1) (s_f sE1) (s_g sE1) (snd (restored (cE 4 0.5%float (Some ckE)))) tE3)) /\
  (* which performs iterations (the final iterate is 1/16 after 3 more halvings) *)
  (exists s tr, loop UE KE (cE 4 0.5%float (Some ckE)) 3 None gtE sE1 = (Res.Ok s, tr) /\ s_x s = [0.0625%float] /\ s_nit s = 4).
Proof.
  split; [vm_compute; reflexivity|]. split; [|split].
  - apply (restart_continues UE KE (cE 4 0.5%float (Some ckE)) sE1 ckE [[1%float]] [[2%float]] tE3 0x1p+0%float 3 None gtE);
      try (vm_compute; reflexivity); try (vm_compute; discriminate); try (vm_compute; lia).
    vm_compute. repeat split.
  - apply (split_then_restart UE KE (cE 4 1%float None) (cE 4 0.5%float (Some ckE)) 1 None gtE sE0 sE1
             (snd (loop UE KE (cE 1 1%float None) 1 None gtE sE0)) ckE [[1%float]] [[2%float]] tE3 0x1p+0%float);
      try (vm_compute; reflexivity); try (vm_compute; discriminate); try (vm_compute; lia).
    vm_compute. repeat split.
  - eexists. eexists. split; [vm_compute; reflexivity|]. split; reflexivity.
Qed.

(* the checkpoint format cannot tell whether the newest stored point is the current iterate: two loop states with different
   memories (the second as after a rejected update) have the same result *)
Theorem C06_checkpoint_cannot_tell :
  let s1 := mk_state [[0%float]; [1%float]] [[2%float]; [4%float]] [1%float] [4%float] in
  let s2 := mk_state [[3%float]; [4%float]] [[5%float]; [7%float]] [1%float] [4%float] in
  snapshot s1 1 = snapshot s2 1 /\ s_X s1 <> s_X s2 /\ last (s_X s1) [] = s_x s1 /\ last (s_X s2) [] <> s_x s2.
Proof. exact checkpoint_cannot_tell. Qed.


(* TRANSLATION TIE: the loop of main.initialize_X_and_G that rebuilds the stored points -
     for x, g in zip((checkpoint.x - np.cumsum(sk[::-1], axis=0))[::-1], (checkpoint.jac - np.cumsum(yk[::-1], axis=0))[::-1]):
         if len(X) > maxcor: X.popleft(); G.popleft()
         X.append(x); G.append(g)
   - is translated from the source on every run (Generated/RestoreGen.v) and IS the restore function of the driver model, for a
   checkpoint with as many yk rows as sk rows (the forward-order cumulative sum of the pinned tree, defect D5, is a different term). *)
Lemma np_cumsum_from_model : forall (rs : list vec) (a : vec), NumpyOps.np_cumsum_from a rs = Driver.cumsum (Some a) rs.
Proof. induction rs as [|r rs IH]; intros a; cbn; [reflexivity|]. f_equal. apply IH. Qed.
Lemma np_cumsum_model : forall rs : list vec, NumpyOps.np_cumsum rs = Driver.cumsum None rs.
Proof. destruct rs as [|r rs]; cbn; [reflexivity|]. f_equal. apply np_cumsum_from_model. Qed.
Lemma restored_points_model : forall (v : vec) (rows : list vec), RestoreGen.restored_points v rows = Driver.restore_points v rows.
Proof. intros. unfold RestoreGen.restored_points, Driver.restore_points. rewrite np_cumsum_model. reflexivity. Qed.
Lemma push_pairs_model : forall (c : cfg) (px pg : list vec) (X G : list vec),
  List.length px = List.length pg -> List.length X = List.length G ->
  RestoreGen.push_pairs (maxcor c) (List.combine px pg) X G = (Driver.push_bounded c px X, Driver.push_bounded c pg G).
Proof.
  intros c. induction px as [|p px IH]; intros pg X G Hp HXG; destruct pg as [|q pg]; try discriminate; [reflexivity|].
  injection Hp as Hp. cbn [List.combine RestoreGen.push_pairs Driver.push_bounded]. rewrite <- HXG.
  destruct (Z.of_nat (List.length X) >? maxcor c); apply IH; auto; rewrite !app_length; cbn [List.length]; try lia.
  destruct X, G; cbn in *; try discriminate; lia.
Qed.
Theorem C06_restore_translated : forall (c : cfg) (ck : result), List.length (r_yk ck) = List.length (r_sk ck) -> r_sk ck <> [] ->
  RestoreGen.initialize_X_and_G (maxcor c) (r_x ck) (r_jac ck) (r_sk ck) (r_yk ck) = Driver.restore c ck.
Proof.
  intros c ck HL Hne. unfold RestoreGen.initialize_X_and_G, Driver.restore. rewrite !restored_points_model.
  destruct (r_sk ck) as [|s0 sk] eqn:E; [congruence|]. rewrite <- E in *.
  apply push_pairs_model; [|reflexivity].
  unfold Driver.restore_points. rewrite !rev_length, !map_length.
  assert (Hc : forall rs acc, List.length (Driver.cumsum acc rs) = List.length rs).
  { induction rs as [|r rs IH]; intros acc; cbn; [reflexivity|]. f_equal. apply IH. }
  rewrite !Hc, !rev_length. symmetry. exact HL.
Qed.

Print Assumptions C06_restore_translated.
Print Assumptions C06_restore_exact.
Print Assumptions C06_no_iteration_pairs.
Print Assumptions C06_model_is_instance.
Print Assumptions C06_restart_without_iteration.
Print Assumptions C06_restart_state.
Print Assumptions C06_restart_continues.
Print Assumptions C06_uninterrupted_is_interrupted_then_restarted.
