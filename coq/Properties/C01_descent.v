(* C01, mechanism (5): the direction handed to the line search is a descent direction.
   Exact-rational model of subspace_minimization (the one of C09); quadratic model m(v) = g.v + 1/2 v^T B v, B = theta I - W M W^T.
   If the Cauchy point decreased the model (C01_cauchy_progress: m(x_cp - x) < 0 at a non-stationary point) and B is positive
   semi-definite, then the subspace point x_bar satisfies m(x_bar - x) <= m(x_cp - x) < 0 and g.(x_bar - x) < 0: the line search is
   given a direction along which the objective decreases to first order, at every non-stationary iterate.  What is NOT proved is
   that this survives rounding in BLAS/LAPACK, nor positive definiteness of the limited-memory matrix in binary64 (C10 proves it
   in exact arithmetic for pairs with positive curvature). *)
From Coq Require Import List QArith.
From LBFGSB Require Import Model.Subspace Proofs.SubspaceProofs Proofs.SubspaceDescent.
Import ListNotations.
Open Scope Q_scope.

Theorem C01_direction_is_descent :
  forall (hint : option (list Q)) (inp : input) (o : output) (n : nat),
    subspace_gen hint inp = SOk o -> wf inp n -> feasible (i_xc inp) (i_lb inp) (i_ub inp) -> ~ i_theta inp == 0 ->
    c_ok inp ->                                        (* c = W^T (x_cp - x), as the Cauchy point hands it over (C08_gcp_c) *)
    Msym (i_M inp) ->
    (forall v, length v = n -> 0 <= qform inp v v) ->  (* B positive semi-definite *)
    mval inp (vsub (i_xc inp) (i_x inp)) < 0 ->        (* the Cauchy point decreased the model *)
    mval inp (vsub (o_xbar o) (i_x inp)) < 0 /\ dot (i_g inp) (vsub (o_xbar o) (i_x inp)) < 0.
Proof.
  intros hint inp o n H1 H2 H3 H4 H5 H6 H7 H8.
  destruct (sub_descent_direction_Bpsd hint inp o n H1 H2 H3 H4 H5 H6 H7) as [Hd Hg].
  split; [eapply Qle_lt_trans; eauto|exact (Hg H8)].
Qed.
Print Assumptions C01_direction_is_descent.

(* pure algebra behind it: a displacement that decreases a positive semi-definite quadratic model is a descent direction *)
Theorem C01_descent_of_model : forall inp d, mval inp d < 0 -> 0 <= qform inp d d -> dot (i_g inp) d < 0.
Proof. exact descent_of_model. Qed.
Print Assumptions C01_descent_of_model.

(* non-vacuity: the instance of Proofs/SubspaceDescent.v where the box truncates the step (alpha = 7/20 < 1) *)
Example C01_descent_example : ExDescent.g_d Ex.inp_b Ex.out_b < 0.
Proof. exact ExDescent.descent_b. Qed.
