(* C08 at the level of binary64: a BIT-EXACT model of get_cauchy_point (Model/FCauchy.v: one IEEE operation per NumPy/Python
   operation, same order, same comparisons; the five BLAS/LAPACK products of the function are oracles whose answers the
   correspondence records from an AST-instrumented copy of the CURRENT source), and what is true of it for ALL inputs - any n,
   any floats including NaN / inf / signed zeros, any oracle answers, any W, theta - i.e. the part of the property that does
   not depend on the accuracy of the linear algebra: ordering of the breakpoints as NumPy's stable argsort does it, which
   variables are fixed and in which order, that a fixed variable is put exactly ON its bound, that variables with a zero
   direction are not touched, and that the result is in the box under exact comparisons.
   The first-local-minimiser clause is a statement about real numbers: it is proved on the exact-rational model (C08.v). *)
From Coq Require Import List Bool Arith Sorted Floats.PrimFloat.
From LBFGSB Require Generated.CauchyHead Generated.CauchyScalars Generated.CauchyStep Generated.CauchyInit Model.NumpyOps Proofs.CauchyWhole.
From LBFGSB Require Import Base.FloatOrd Model.FloatVec Model.FCauchy Proofs.DriverBox Proofs.FCauchyFloat Proofs.FCauchyProofs.
Import ListNotations.

Section C08_float.
  Variables (O : oracles) (x g lb ub : vec) (theta : float) (W : list vec) (use_factor : bool).
  Notation t := (breakpoints x g lb ub).
  Notation d0 := (dir0 t g).
  Notation R := (fgcp_full O x g lb ub theta W use_factor).

  (* the Cauchy point lies in the box, under exact binary64 comparisons (a NaN component of x stays NaN) *)
  Theorem C08f_feasible : wfb lb ub -> inbox x lb ub -> inbox (fst (fgcp O x g lb ub theta W use_factor)) lb ub.
  Proof. exact (fgcp_pair_feasible O x g lb ub theta W use_factor). Qed.

  (* the breakpoints with t_i > 0, in NumPy's stable order: sorted by t, ties by index; determined uniquely by that *)
  Theorem C08f_sorted_breakpoints :
    (forall i, In i (sorted_pos t) <-> i < length t /\ ltb 0 (tnth t i) = true) /\ NoDup (sorted_pos t) /\
    StronglySorted (bp_before t) (sorted_pos t).
  Proof. exact (sorted_pos_spec t). Qed.

  (* the variables fixed by the loop are, in order, a prefix of that list; the loop stops inside a segment exactly when something is left *)
  Theorem C08f_fixed_prefix :
    exists rest, sorted_pos t = r_fixed R ++ rest /\ (r_found R = false -> rest = []) /\ (r_found R = true -> rest <> []).
  Proof. exact (fgcp_fixed_prefix O x g lb ub theta W use_factor). Qed.

  (* a fixed variable is put exactly on the bound its direction points to (bit for bit) *)
  Theorem C08f_fixed_on_bound : length g = length x -> length lb = length x -> length ub = length x ->
    forall i, In i (r_fixed R) -> nth i (r_xcp R) nan = fixval x g lb ub i.
  Proof. intros H1 H2 H3. exact (fgcp_xcp_fixed O x g lb ub theta W use_factor H1 H2 H3). Qed.

  (* every other component is x_i itself, or the clipped point of the final move *)
  Theorem C08f_free_component : length g = length x -> length lb = length x -> length ub = length x ->
    forall i, i < length x -> ~ In i (r_fixed R) ->
    nth i (r_xcp R) nan =
      if r_loop R && negb (eqb (nth i d0 nan) 0) then fclip (add (nth i x nan) (mul (r_told R) (nth i d0 nan))) (nth i lb nan) (nth i ub nan)
      else nth i x nan.
  Proof. intros H1 H2 H3. exact (fgcp_xcp_free O x g lb ub theta W use_factor H1 H2 H3). Qed.

  (* variables resting on a bound with the gradient pushing outward (t_i == 0) are not touched, not fixed, and have a zero direction *)
  Theorem C08f_zero_breakpoint_untouched : length g = length x -> length lb = length x -> length ub = length x ->
    forall i, i < length x -> eqb (tnth t i) 0 = true ->
    nth i (r_xcp R) nan = nth i x nan /\ ~ In i (r_fixed R) /\ nth i d0 nan = 0%float.
  Proof. intros H1 H2 H3. exact (fgcp_zero_breakpoint_untouched O x g lb ub theta W use_factor H1 H2 H3). Qed.

  Theorem C08f_lengths : length (r_xcp R) = length x /\ length (r_c R) = length (o_WTd O d0).
  Proof. split; [apply fgcp_length_xcp|apply fgcp_length_c]. Qed.
End C08_float.

(* ---------------------------------------------------------------------------------------------- *)
(* TRANSLATION TIE: the head of get_cauchy_point - the breakpoints t (two masked assignments), the direction d and the ordered
   breakpoint indices  np.argsort(t, kind="stable") filtered by t[sorted] > 0  - is translated from the NumPy source on every
   run (Generated/Base.cauchy_head) and proved equal to the definitions of the binary64 model.  The ordering line is where the
   pinned tree had its defect D1 (the mask applied in unsorted order): that form does not satisfy this theorem. *)
Module B := LBFGSB.Model.NumpyOps.
Module H := LBFGSB.Generated.CauchyHead.

Lemma head_breakpoints : forall x g lb ub : vec, length g = length x -> length lb = length x -> length ub = length x ->
  let t_0 := List.map (fun _ => 0%float) g in
  let mask_0 := List.map (fun e_ => negb (eqb e_ 0%float)) g in
  B.bset (List.map (fun e_ => eqb e_ 0%float) g) infinity
    (B.bscatter mask_0 (B.bwhere (List.map (fun e_ => ltb e_ 0%float) (B.bgather mask_0 g))
                          (vmap2 div (B.bgather mask_0 (vsub x ub)) (B.bgather mask_0 g))
                          (vmap2 div (B.bgather mask_0 (vsub x lb)) (B.bgather mask_0 g))) t_0)
  = breakpoints x g lb ub.
Proof.
  induction x as [|xi x IH]; intros g lb ub Hg Hl Hu; destruct g as [|gi g]; destruct lb as [|l lb]; destruct ub as [|u ub]; try discriminate; [reflexivity|].
  injection Hg as Hg. injection Hl as Hl. injection Hu as Hu. specialize (IH g lb ub Hg Hl Hu). cbv zeta in IH |- *.
  cbn [List.map breakpoints vsub vmap2 B.bgather]. unfold bp.
  destruct (eqb gi 0) eqn:E0; cbn [negb B.bgather B.bscatter B.bset].
  - f_equal. exact IH.
  - simpl. f_equal. exact IH.
Qed.

Lemma head_direction : forall t g : vec,
  B.bwhere_s (List.map (fun e_ => eqb e_ 0%float) t) 0%float (List.map opp g) = dir0 t g.
Proof.
  unfold dir0. induction t as [|ti t IH]; intros g; destruct g as [|gi g]; cbn; try reflexivity. f_equal. apply IH.
Qed.

Lemma head_filter : forall (t : vec) (idx : list nat),
  B.bgather_idx (List.map (fun e_ => ltb 0%float e_) (List.map (fun i_ => List.nth i_ t nan) idx)) idx = filter (fun i => ltb 0 (tnth t i)) idx.
Proof. intros t. induction idx as [|i idx IH]; cbn; [reflexivity|]. unfold tnth at 1. destruct (ltb 0 (nth i t nan)); [f_equal|]; exact IH. Qed.

Theorem C08f_head_from_source : forall x g lb ub : vec, length g = length x -> length lb = length x -> length ub = length x ->
  H.cauchy_head x g lb ub = (breakpoints x g lb ub, dir0 (breakpoints x g lb ub) g, sorted_pos (breakpoints x g lb ub)).
Proof.
  intros x g lb ub Hg Hl Hu. unfold H.cauchy_head. cbv zeta.
  rewrite (head_breakpoints x g lb ub Hg Hl Hu), head_direction, head_filter. reflexivity.
Qed.

(* ... and so is its final move  is_moving = d != 0; x_cp[is_moving] = np.clip(x + t_old * d, lb, ub)[is_moving]  - the statement in
   which the tied-breakpoint defect lived (repaired by fix: 2a903c7; the former mask t >= t_cur does not satisfy this theorem) *)
Theorem C08f_final_move_from_source : forall (t_old : float) (xcp x d lb ub : vec),
  length x = length xcp -> length d = length xcp -> length lb = length xcp -> length ub = length xcp ->
  H.cauchy_final_move t_old xcp x d lb ub = final_move t_old xcp x d lb ub.
Proof.
  intros t_old. unfold H.cauchy_final_move. cbv zeta.
  induction xcp as [|c xcp IH]; intros x d lb ub Hx Hd Hl Hu; destruct x as [|xi x]; destruct d as [|di d]; destruct lb as [|l lb]; destruct ub as [|u ub]; try discriminate; [reflexivity|].
  injection Hx as Hx. injection Hd as Hd. injection Hl as Hl. injection Hu as Hu. specialize (IH x d lb ub Hx Hd Hl Hu).
  simpl. destruct (eqb di 0); simpl; f_equal; exact IH.
Qed.

(* ... and so are the scalar recurrences of the breakpoint loop and the tail after it: f', f'' with the eps * f''_0 safeguard
   (Python's max keeps its first argument unless the second compares greater), delta_t_min, the break test, the clamp of
   delta_t_min at 0 BEFORE t_old and the last update of c use it - obtained by symbolic execution of the statements of the source *)
Module S := LBFGSB.Generated.CauchyScalars.
Theorem C08f_loop_scalars_from_source : forall (O : oracles) (x g lb ub : vec) (theta : float) (W : list vec) (uf : bool)
    (f2_org : float) (ibp : nat) (t_cur dt : float) (s : st),
  let s1 := step O x g lb ub theta W uf f2_org ibp t_cur dt s in
  let gb := nth ibp g nan in
  let zb := sub (nth ibp (s_xcp s1) nan) (nth ibp x nan) in
  let wb := nth ibp W [] in
  (s_fp s1, s_fs s1, s_dtm s1) =
  S.cauchy_scalar_step theta f2_org dt gb zb (s_fp s) (s_fs s) (o_wMc O wb (s_c s1))
     (o_wMv O wb (vmap2 (fun pj wj => add (mul 2 pj) (mul gb wj)) (s_p s) wb)) uf.
Proof.
  intros. unfold s1, step, S.cauchy_scalar_step, row, ftwo, feps. cbn [s_fp s_fs s_dtm s_xcp s_c]. destruct uf; reflexivity.
Qed.
Theorem C08f_break_and_tail_from_source : forall (O : oracles) (x g lb ub : vec) (theta : float) (W : list vec) (uf : bool),
  let R := fgcp_full O x g lb ub theta W uf in
  (forall dtm dt, S.cauchy_break dtm dt = ltb dtm dt) /\
  (r_loop R = true -> exists s : st, (r_told R, r_dtm R) = S.cauchy_tail (s_dtm s) (s_told s) /\
                                      r_c R = vip (fun cj pj => add cj (mul (r_dtm R) pj)) (s_c s) (s_p s)).
Proof.
  intros. split; [reflexivity|]. unfold R, fgcp_full. destruct (sorted_pos (breakpoints x g lb ub)) as [|i0 rest]; [discriminate|]. intros _.
  destruct (loop _ _ _ _ _ _ _ _ _ _ _ _ _ _) as [s found]. exists s. cbn [r_told r_dtm r_c]. split; reflexivity.
Qed.

(* what is NOT true in binary64 (witnesses by computation): a variable with g_i = 0 has t_i = inf > 0 and IS taken by the loop
   (it is "fixed" without being assigned); a NaN gradient component gives a NaN component of the Cauchy point *)
Theorem C08f_zero_gradient_is_taken_by_the_loop :
  let r := fgcp_full ex_oracles [0%float] [0%float] [(-1)%float] [1%float] 1 [[0%float]] false in
  r_fixed r = [0] /\ vbits (r_xcp r) [0%float] = true /\ r_found r = false.
Proof. exact zero_gradient_is_fixed. Qed.

(* ... and so is ONE WHOLE PASS of the loop after the break test, on the whole state - which component of x_cp is put on which
   bound, zb, c += delta_t * p BEFORE it is handed to the oracle of f', the vector 2 p + g_b W_b handed to the oracle of f'',
   p += g_b * W_b, d[ibp] = 0, the scalars and t_old - by symbolic execution of the statements of the source in order
   (Generated/CauchyStep.v), and the advance to the next breakpoint (t_cur = inf when the sorted indices are exhausted): the
   model's loop unfolds into exactly these translated pieces. *)
Module G := LBFGSB.Generated.CauchyStep.
Lemma np_setitem_upd : forall a i v, B.np_setitem i v a = upd i v a.
Proof. induction a as [|h a IH]; intros [|i] v; cbn; auto; try now rewrite IH. Qed.
Lemma vinplace_axpy : forall (a : float) c p, B.vinplace add c (map (fun e => mul a e) p) = vip (fun cj pj => add cj (mul a pj)) c p.
Proof. induction c as [|h c IH]; intros [|q p]; cbn; auto; try now rewrite IH. Qed.
Lemma vadd_two_maps : forall (f h : float -> float) p w, vadd (map f p) (map h w) = vmap2 (fun a b => add (f a) (h b)) p w.
Proof. induction p as [|a p IH]; intros [|b w]; cbn; auto. unfold vadd in IH. try now rewrite IH. Qed.

Theorem C08f_loop_step_from_source : forall (O : oracles) (x g lb ub : vec) (theta : float) (W : list vec) (uf : bool)
    (f2_org : float) (ibp : nat) (t_cur dt : float) (s : st),
  let s1 := step O x g lb ub theta W uf f2_org ibp t_cur dt s in
  G.cauchy_step (o_wMc O) (o_wMv O) theta f2_org uf x g lb ub (nth ibp W []) ibp t_cur dt (s_xcp s) (s_c s) (s_p s) (s_d s) (s_fp s) (s_fs s)
  = (s_xcp s1, s_c s1, s_p s1, s_d s1, s_fp s1, s_fs s1, s_dtm s1, s_told s1).
Proof.
  intros. unfold s1, step, G.cauchy_step, row, ftwo, feps. cbv zeta. cbn [s_xcp s_c s_p s_d s_fp s_fs s_dtm s_told].
  rewrite !np_setitem_upd, !vinplace_axpy, vadd_two_maps. reflexivity.
Qed.

Theorem C08f_loop_unfold_from_source : forall (O : oracles) (x g lb ub : vec) (theta : float) (W : list vec) (uf : bool)
    (t : vec) (f2_org : float) (ibp : nat) (rest : list nat) (t_cur dt : float) (s : st),
  loop O x g lb ub theta W uf t f2_org (ibp :: rest) t_cur dt s =
  if S.cauchy_break (s_dtm s) dt then (s, true)
  else let s1 := step O x g lb ub theta W uf f2_org ibp t_cur dt s in
       let '(tn, dn) := G.cauchy_advance t rest (s_told s1) in loop O x g lb ub theta W uf t f2_org rest tn dn s1.
Proof. intros. cbn [loop]. unfold S.cauchy_break, G.cauchy_advance, tnth. destruct (ltb (s_dtm s) dt); [reflexivity|]. cbv zeta. cbn [s_told step]. reflexivity. Qed.

(* ... and so is everything between the ordering of the breakpoints and the loop: c = 0, f' = -d.d, f'' = -theta f', its correction
   by the BLAS answer, f2_org, delta_t_min, the early return without breakpoint and the first breakpoint (Generated/CauchyInit.v).
   With the head, the loop pass, the break test, the advance, the tail and the final move above, EVERY statement of
   get_cauchy_point outside its logging is translated from the source, and the model is their composition: *)
Module I := LBFGSB.Generated.CauchyInit.
Theorem C08f_init_from_source : forall (O : oracles) (x g lb ub : vec) (theta : float) (W : list vec) (uf : bool),
  let t := breakpoints x g lb ub in let d := dir0 t g in let idx := sorted_pos t in let p := o_WTd O d in
  let '(fp, fs, f2, dtm) := I.cauchy_init (fun a _ => o_dd O a) (o_pMp O) theta uf d p in
  fgcp_full O x g lb ub theta W uf =
  match idx with
  | [] => let '(xcp, c) := I.cauchy_no_breakpoint x p in mkres xcp c [] 0 dtm false false
  | i0 :: _ =>
      let '(t_cur, dt, told0) := I.cauchy_first t i0 in
      let '(s, found) := loop O x g lb ub theta W uf t f2 idx t_cur dt (mkst x (snd (I.cauchy_no_breakpoint x p)) p d fp fs dtm told0 []) in
      let dtm1 := if ltb (s_dtm s) 0 then 0%float else s_dtm s in
      let told := add (s_told s) dtm1 in
      mkres (final_move told (s_xcp s) x (s_d s) lb ub) (vip (fun cj pj => add cj (mul dtm1 pj)) (s_c s) (s_p s)) (s_fixed s) told dtm1 found true
  end.
Proof. intros. cbv zeta. unfold fgcp_full, I.cauchy_init, I.cauchy_first, I.cauchy_no_breakpoint, tnth, vzeros, fzero. cbv zeta. destruct (sorted_pos _); reflexivity. Qed.

(* THE WHOLE FUNCTION.  get_cauchy_point assembled from the translated pieces only (Proofs/CauchyWhole.v: get_cauchy_point_src -
   the head, the initialisation, the `while` as a recursion over the sorted breakpoint indices whose body is the translated break
   test, loop pass and advance, the translated tail and final move) returns exactly what the binary64 model fgcp returns, for
   arrays of one length: the theorems C08f_* above are therefore theorems about the translated source. *)
Theorem C08f_whole_from_source : forall (O : oracles) (x g lb ub : vec) (theta : float) (W : list vec) (uf : bool),
  length g = length x -> length lb = length x -> length ub = length x ->
  CauchyWhole.get_cauchy_point_src O x g lb ub theta W uf = fgcp O x g lb ub theta W uf.
Proof.
  intros O x g lb ub theta W uf Hg Hl Hu. unfold CauchyWhole.get_cauchy_point_src, fgcp.
  rewrite (C08f_head_from_source x g lb ub Hg Hl Hu).
  pose proof (C08f_init_from_source O x g lb ub theta W uf) as HI. cbv zeta in HI.
  destruct (I.cauchy_init (fun a _ => o_dd O a) (o_pMp O) theta uf (dir0 (breakpoints x g lb ub) g) (o_WTd O (dir0 (breakpoints x g lb ub) g))) as [[[fp fs] f2] dtm] eqn:EI.
  rewrite HI. clear HI.
  destruct (sorted_pos (breakpoints x g lb ub)) as [|i0 rest] eqn:Eidx; [reflexivity|].
  destruct (I.cauchy_first (breakpoints x g lb ub) i0) as [[t_cur dt] told0] eqn:EF.
  set (s0 := mkst x (snd (I.cauchy_no_breakpoint x (o_WTd O (dir0 (breakpoints x g lb ub) g)))) (o_WTd O (dir0 (breakpoints x g lb ub) g))
                  (dir0 (breakpoints x g lb ub) g) fp fs dtm told0 []).
  change (x, snd (I.cauchy_no_breakpoint x (o_WTd O (dir0 (breakpoints x g lb ub) g))), o_WTd O (dir0 (breakpoints x g lb ub) g),
          dir0 (breakpoints x g lb ub) g, fp, fs, dtm, told0) with (CauchyWhole.proj s0).
  rewrite (CauchyWhole.loop_eq O x g lb ub theta W uf (breakpoints x g lb ub) f2 (i0 :: rest) t_cur dt s0).
  destruct (FCauchyProofs.loop_shapes O x g lb ub theta W uf (breakpoints x g lb ub) f2 (i0 :: rest) t_cur dt s0) as (Lx & _ & _ & Ld).
  destruct (loop O x g lb ub theta W uf (breakpoints x g lb ub) f2 (i0 :: rest) t_cur dt s0) as [s found]. cbn [fst snd] in *.
  unfold CauchyWhole.proj. unfold S.cauchy_tail, S.cauchy_clamp. cbv zeta. cbn [r_xcp r_c].
  rewrite CauchyWhole.vinplace_axpy. f_equal.
  apply C08f_final_move_from_source.
  - rewrite Lx. reflexivity.
  - rewrite Ld, Lx. unfold s0. cbn [s_d s_xcp]. unfold dir0. rewrite FCauchyProofs.vmap2_length, FCauchyProofs.breakpoints_length. rewrite Hg, Hl, Hu. repeat rewrite Nat.min_id. reflexivity.
  - rewrite Lx. exact Hl.
  - rewrite Lx. exact Hu.
Qed.

Print Assumptions C08f_head_from_source.
Print Assumptions C08f_loop_scalars_from_source.
Print Assumptions C08f_final_move_from_source.
Print Assumptions C08f_whole_from_source.
Print Assumptions C08f_feasible.
Print Assumptions C08f_sorted_breakpoints.
Print Assumptions C08f_fixed_prefix.
Print Assumptions C08f_fixed_on_bound.
Print Assumptions C08f_free_component.
Print Assumptions C08f_zero_breakpoint_untouched.

(* Non-vacuity / witnesses by computation (Proofs/FCauchyProofs.v): the loop exiting on a tied breakpoint with recorded oracle
   answers (the regression case of the repaired mask defect), NumPy's argsort on NaNs, ties and signed zeros. *)
Example C08f_nonvacuous := (conj exit_on_tied_breakpoint argsort_with_nan_and_ties).
