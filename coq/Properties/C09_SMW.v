(* C09 — restatements only (MathComp part): the Sherman-Morrison-Woodbury step of subspace_minimization *)
From mathcomp Require Import all_ssreflect all_algebra.
From LBFGSB Require Import Proofs.SMW.
Import GRing.Theory Num.Theory.
Local Open Scope ring_scope.

(* np.linalg.solve branch: (I - theta^-1 M A A^T) v = M A r  ==>  (theta I - A^T M A) d = - r
   for d = -(theta^-1 (r + theta^-1 A^T v)) *)
Theorem C09_smw_direction :
  forall (F : fieldType) (t k : nat) (theta : F) (A : 'M[F]_(k, t)) (M : 'M[F]_k) (r : 'cV[F]_t) (v : 'cV[F]_k),
    theta != 0 ->
    (1%:M - theta^-1 *: (M *m (A *m A^T))) *m v = M *m (A *m r) ->
    (theta%:M - A^T *m M *m A) *m (- (theta^-1 *: (r + theta^-1 *: (A^T *m v)))) = - r.
Proof. exact smw_direction. Qed.
Print Assumptions C09_smw_direction.

(* LEL^T branch: K v = A r with K = Minv - theta^-1 A A^T (form_k), Minv M = I *)
Theorem C09_smw_direction_K :
  forall (F : fieldType) (t k : nat) (theta : F) (A : 'M[F]_(k, t)) (M : 'M[F]_k) (r : 'cV[F]_t) (v : 'cV[F]_k),
    theta != 0 ->
    forall Minv : 'M[F]_k, Minv *m M = 1%:M ->
    (Minv - theta^-1 *: (A *m A^T)) *m v = A *m r ->
    (theta%:M - A^T *m M *m A) *m (- (theta^-1 *: (r + theta^-1 *: (A^T *m v)))) = - r.
Proof. exact smw_direction_K. Qed.
Print Assumptions C09_smw_direction_K.

Theorem C09_smw_direction_unique :
  forall (F : fieldType) (t k : nat) (theta : F) (A : 'M[F]_(k, t)) (M : 'M[F]_k) (r : 'cV[F]_t) (v : 'cV[F]_k),
    theta != 0 ->
    (1%:M - theta^-1 *: (M *m (A *m A^T))) *m v = M *m (A *m r) ->
    (theta%:M - A^T *m M *m A) \in unitmx ->
    - (theta^-1 *: (r + theta^-1 *: (A^T *m v))) = - (invmx (theta%:M - A^T *m M *m A) *m r).
Proof. exact smw_direction_unique. Qed.
Print Assumptions C09_smw_direction_unique.

(* H symmetric positive semi-definite and H d = - r: d minimises q(e) = r.e + 1/2 e^T H e *)
Theorem C09_newton_minimises :
  forall (R : realFieldType) (t : nat) (H : 'M[R]_t) (r d : 'cV[R]_t),
    H^T = H -> H *m d = - r -> (forall z : 'cV[R]_t, 0 <= (z^T *m H *m z) 0 0) ->
    forall e : 'cV[R]_t,
      (r^T *m d) 0 0 + 2%:R^-1 * (d^T *m (H *m d)) 0 0 <= (r^T *m e) 0 0 + 2%:R^-1 * (e^T *m (H *m e)) 0 0.
Proof. exact newton_minimises. Qed.
Print Assumptions C09_newton_minimises.
