(* C16 - finite-difference modes work at the bounds and agree with exact gradients.
   Decided by proof: the REASON the pinned tree raised.  SciPy's approx_derivative raises "x0 violates bound constraints" iff
   np.any((x0 < lb) | (x0 > ub)); every point the driver hands to the wrapper (hence to the differencing routine) is inside
   the box under the exact binary64 comparison (C02), so that check cannot fire; and nfev counts every objective evaluation
   including the stencil points.  NOT decided here (explored by the search): that SciPy's stencil stays inside the bounds it
   is given, and the accuracy of the differencing scheme along a floating-point trajectory. *)
From Coq Require Import List ZArith Bool String Floats.PrimFloat.
From LBFGSB Require Import Base.Res Base.Hoare Base.FloatOrd Model.SF Model.FloatVec Model.Driver
  Proofs.SFProofs Proofs.SFPoints Proofs.DriverBox Proofs.DriverReport Proofs.DriverReportRun.
Import ListNotations.
Open Scope Z_scope.

(* the differencing routine is asked for an estimate at the wrapper's cached point, with the value cached there *)
Theorem C16_estimate_requested_at_cached_point :
  forall (uf : vec -> res float) ug stencil fdest (t : SF.st vec float vec float) g t1 tr,
  SF.update_grad vec float vec float uf ug stencil fdest true t = (Ok (g, t1), tr) -> SF.sg _ _ _ _ t = None ->
  exists v vs, fdest (SF.sx _ _ _ _ t) v vs = Ok g /\ SF.sx _ _ _ _ t1 = SF.sx _ _ _ _ t.
Proof.
  intros uf ug stencil fdest t g t1 tr H Hs. unfold SF.update_grad in H. rewrite Hs in H.
  apply bind_ok_inv in H as ([v t2] & tr1 & tr2 & H1 & H2 & ->).
  assert (Hx : SF.sx _ _ _ _ t2 = SF.sx _ _ _ _ t).
  { unfold SF.update_fun in H1. destruct (SF.sf _ _ _ _ t); [unfold ret in H1; inversion H1; reflexivity|].
    apply bind_ok_inv in H1 as (w & q1 & q2 & Q1 & Q2 & ->). unfold ret in Q2. inversion Q2; reflexivity. }
  apply bind_ok_inv in H2 as (vs & tr3 & tr4 & H3 & H4 & ->).
  destruct (fdest (SF.sx _ _ _ _ t2) v vs) as [g0| |] eqn:E; try discriminate. unfold ret in H4. inversion H4; subst.
  exists v, vs. rewrite <- Hx. split; [exact E|reflexivity].
Qed.

Section C16.
  Variable U : user.
  Variable K : kern.
  Variable c : cfg.
  Hypothesis finite_difference_mode : fdmode U = true.
  Hypothesis lb_nonan : nonan (lb c).
  Hypothesis ub_nonan : nonan (ub c).
  Hypothesis same_len : List.length (lb c) = List.length (ub c).
  (* assumption on SciPy (observed by the search in all four modes): stencil points of a point in the box are in the box *)
  Hypothesis stencil_in_box : forall p, inbox p (lb c) (ub c) -> Forall (fun q => inbox q (lb c) (ub c)) (fd_stencil U p).

  (* the predicate approx_derivative tests, on one coordinate *)
  Definition violates (x l u : float) : bool := ltb x l || ltb u x.

  (* no objective evaluation of a finite-difference run - base points and stencil points - is at a point that violates a
     bound, "touches or numerically grazes" included: the statement is about the exact comparison on the actual floats *)
  Theorem C16_no_bound_error : forall out tr, run U K c = (out, tr) ->
    Forall (ev_in_box c) tr /\ forall x l u, okc x l u -> violates x l u = false.
  Proof.
    intros out tr H. split.
    - destruct (bounds_error c) as [e|] eqn:Eb.
      + unfold run in H. rewrite Eb in H. inversion H; subst. constructor.
      + pose proof (box_run U K c (bounds_accepted c Eb lb_nonan ub_nonan same_len) stencil_in_box) as [H1 _]. rewrite H in H1. exact H1.
    - intros x l u [Hn|[H1 H2]]; unfold violates.
      + destruct (ltb x l) eqn:E1; [destruct (ltb_not_nan _ _ E1); congruence|].
        destruct (ltb u x) eqn:E2; [destruct (ltb_not_nan _ _ E2); congruence|reflexivity].
      + rewrite (leb_ltb_false _ _ H1), (leb_ltb_false _ _ H2). reflexivity.
  Qed.

  (* nfev counts every objective evaluation, stencil points included (they go through the counting wrapper) *)
  Theorem C16_counts : forall r tr, run U K c = (Ok r, tr) -> r_nfev r = nfev0 c + cntP isF tr.
  Proof. intros r tr H. exact (proj1 (rp_counters _ _ _ _ (report_run U K c r tr H))). Qed.
End C16.

Print Assumptions C16_no_bound_error.
Print Assumptions C16_counts.
Print Assumptions C16_estimate_requested_at_cached_point.

(* Non-vacuity: a one-variable 2-point run starting ON its upper bound: the stencil oracle steps inward, the estimate is
   requested at the bound itself. *)
Definition U16 : user :=
  mkuser (fun x => Ok (mul (hd 0%float x) (hd 0%float x))) (fun x => Raise ("never"%string, ""%string)) None None None (Ok 0%float) (Ok 0%float)
         true (fun x => [[sub (hd 0%float x) 0.5%float]])
         (fun x v vs => Ok [div (sub (hd 0%float vs) v) (-0.5)%float]).
Definition K16 : kern :=
  mkkern (fun x _ _ _ => [0%float]) (fun _ h => match h with [_] => (1%float, TFG) | _ => (1%float, TConv) end) (fun _ _ => (-4)%float).
Definition c16 : cfg :=
  mkcfg [2%float] [(-1)%float] [2%float] 3 None 0%float (TolConst 0%float) 1 50 5 1%float 0.001%float 0.9%float 0.1%float 0%float None.
Example C16_example : exists r tr, run U16 K16 c16 = (Ok r, tr) /\ In (EvF [2%float] (Ok 4%float)) tr /\ In (EvF [1.5%float] (Ok 2.25%float)) tr /\
  r_nfev r = cntP isF tr.
Proof. eexists. eexists. split; [vm_compute; reflexivity|]. repeat split; cbn; tauto. Qed.
