(* C09 at the level of binary64: a BIT-EXACT model of get_freev / subspace_minimization (Model/FSubspace.v: one IEEE operation
   per NumPy/Python operation, same order, same comparisons; the two dense linear-algebra quantities of the function - the
   vector W M c and the reduced Newton correction WTZ' v - are oracles whose answers the correspondence records from an
   AST-instrumented copy of the CURRENT source), and what is true of it for ALL inputs - any n, any floats including NaN / inf /
   signed zeros, any oracle answers, any theta - i.e. the part of the property that does not depend on the accuracy of the
   linear algebra: which variables are free, that the variables at rest are not moved, the range of the step length
   alpha_star, the early return, and that the result is in the box under exact comparisons.
   The minimisation / descent clauses are statements about real numbers: they are proved on the exact-rational model (C09.v). *)
From Coq Require Import List Bool Arith Sorted Floats.PrimFloat.
From LBFGSB Require Generated.FreeSet Generated.SubspaceTail Proofs.SubspaceTail.
From LBFGSB Require Import Base.FloatOrd Model.FloatVec Model.FCauchy Model.FSubspace Proofs.DriverBox Proofs.FSubspaceProofs.
Import ListNotations.

Section C09_float.
  Variables (O : sub_oracles) (x xc c g lb ub : vec) (theta : float) (use_factor : bool).
  Notation free := (ffree xc lb ub).
  Notation R := (fsubspace_full O x xc c g lb ub theta use_factor).
  Notation xbar := (fsubspace O x xc c g lb ub theta use_factor).
  Notation alpha := (alpha_star O x xc c g lb ub theta use_factor free).
  Notation dH := (dhat O x xc c g theta use_factor free).
  Notation cnds := (step_cands O x xc c g lb ub theta use_factor free).

  (* (S1) xbar lies in the box, under exact binary64 comparisons (okc: l <= v <= u, or v is NaN - np.clip keeps a NaN) *)
  Theorem C09f_feasible : wfb lb ub -> inbox xc lb ub -> inbox xbar lb ub.
  Proof. exact (fsub_feasible O x xc c g lb ub theta use_factor). Qed.

  (* ... and without any assumption on xc as soon as one variable is free (the result is an np.clip) *)
  Theorem C09f_feasible_moved : wfb lb ub -> sr_early R = false -> inbox xbar lb ub.
  Proof. exact (fsub_feasible_moved O x xc c g lb ub theta use_factor). Qed.

  (* (S2) shapes; the free set is exactly { i | xc_i != ub_i and xc_i != lb_i } with binary64 != *)
  Theorem C09f_length : length lb = length xc -> length ub = length xc -> length xbar = length xc.
  Proof. exact (fsub_length O x xc c g lb ub theta use_factor). Qed.

  Theorem C09f_free_set : length lb = length xc -> length ub = length xc -> forall i,
    In i (findices xc lb ub) <->
    (i < length xc /\ eqb (nth i xc nan) (nth i ub nan) = false /\ eqb (nth i xc nan) (nth i lb nan) = false).
  Proof. exact (findices_iff xc lb ub). Qed.

  Theorem C09f_free_set_sorted : StronglySorted lt (findices xc lb ub) /\ sr_free R = free.
  Proof. split; [apply findices_sorted|apply fsub_free_is_ffree]. Qed.

  Theorem C09f_nan_is_free : length lb = length xc -> length ub = length xc -> forall i, i < length xc ->
    is_nan (nth i xc nan) = true -> nth i free false = true.
  Proof. exact (nan_is_free xc lb ub). Qed.

  (* (S3) a variable at rest: xbar_i = clip(xc_i + 0.0); IEEE-equal to xc_i when lb_i <= ub_i; the same bits unless xc_i is a zero *)
  Theorem C09f_nonfree : length lb = length xc -> length ub = length xc -> forall i, i < length xc ->
    sr_early R = false -> nth i free false = false ->
    nth i xbar nan = fclip (add (nth i xc nan) 0) (nth i lb nan) (nth i ub nan).
  Proof. exact (fsub_nonfree O x xc c g lb ub theta use_factor). Qed.

  Theorem C09f_nonfree_eqb : length lb = length xc -> length ub = length xc -> forall i, i < length xc ->
    nth i free false = false -> leb (nth i lb nan) (nth i ub nan) = true -> eqb (nth i xbar nan) (nth i xc nan) = true.
  Proof. exact (fsub_nonfree_eqb O x xc c g lb ub theta use_factor). Qed.

  Theorem C09f_nonfree_bits : length lb = length xc -> length ub = length xc -> forall i, i < length xc ->
    nth i free false = false -> leb (nth i lb nan) (nth i ub nan) = true -> eqb (nth i xc nan) 0 = false ->
    nth i xbar nan = nth i xc nan.
  Proof. exact (fsub_nonfree_bits O x xc c g lb ub theta use_factor). Qed.

  (* a free variable: xbar_i = clip(xc_i + (0.0 + (1.0 * alpha_star) * dHat_j)), j = number of free variables before i *)
  Theorem C09f_free_component : length lb = length xc -> length ub = length xc -> forall i, i < length xc ->
    sr_early R = false -> nth i free false = true -> rank i free < length dH ->
    nth i xbar nan =
    fclip (add (nth i xc nan) (add 0 (mul (mul 1 alpha) (nth (rank i free) dH nan)))) (nth i lb nan) (nth i ub nan).
  Proof. exact (fsub_free_component O x xc c g lb ub theta use_factor). Qed.

  (* (S4) alpha_star <= 1 and alpha_star is not NaN, for all inputs; it is 1.0 or the smallest non-NaN quotient *)
  Theorem C09f_alpha_le_one : leb alpha 1 = true /\ is_nan alpha = false.
  Proof. split; [apply alpha_le_one|apply alpha_not_nan]. Qed.

  Theorem C09f_alpha_selected :
    (alpha = 1%float \/ (In alpha cnds /\ ltb alpha 1 = true)) /\ (forall q, In q cnds -> is_nan q = true \/ leb alpha q = true).
  Proof. split; [apply alpha_cases|apply alpha_minimal]. Qed.

  (* every free variable strictly inside its bounds: 0 <= alpha_star <= 1 (0 < alpha_star fails by underflow: see
     FSubspaceProofs.alpha_zero_by_underflow) *)
  Theorem C09f_alpha_range : length lb = length xc -> length ub = length xc ->
    (forall i, i < length xc -> nth i free false = true ->
       ltb (nth i lb nan) (nth i xc nan) = true /\ ltb (nth i xc nan) (nth i ub nan) = true) ->
    leb 0 alpha = true /\ leb alpha 1 = true.
  Proof. exact (alpha_nonneg O x xc c g lb ub theta use_factor). Qed.

  (* (S5) no free variable: the Cauchy point is returned as it is *)
  Theorem C09f_no_free_variable : has_free free = false -> xbar = xc.
  Proof. exact (fsub_no_free O x xc c g lb ub theta use_factor). Qed.

  Theorem C09f_all_on_bounds : length lb = length xc -> length ub = length xc ->
    (forall i, i < length xc -> eqb (nth i xc nan) (nth i ub nan) = true \/ eqb (nth i xc nan) (nth i lb nan) = true) ->
    xbar = xc /\ sr_early R = true.
  Proof. exact (fsub_all_on_bounds O x xc c g lb ub theta use_factor). Qed.

  (* the sign of a zero alpha_star (which NumPy's vectorised nanmin does not determine) does not reach xbar *)
  Theorem C09f_alpha_zero_sign a a' : eqb a a' = true ->
    xbar_of O x xc c g lb ub theta use_factor free a = xbar_of O x xc c g lb ub theta use_factor free a'.
  Proof. exact (fsub_alpha_zero_sign O x xc c g lb ub theta use_factor a a'). Qed.
End C09_float.

(* what is NOT true in binary64 (witnesses by computation) *)
Theorem C09f_nonfree_bits_can_change :
  let r := ex_run [(-0)%float; 0x1p-1%float] [(-0)%float; 0x1p-1%float] [1%float; 1%float] [(-1)%float; (-1)%float] [0%float; 1%float] 1 in
  sr_free r = [false; true] /\ sr_early r = false /\
  fbits (nth 0 (sr_xbar r) nan) (-0) = false /\ fbits (nth 0 (sr_xbar r) nan) 0 = true.
Proof. exact nonfree_negative_zero_changes_sign. Qed.

Theorem C09f_nan_from_finite_inputs :
  let r := ex_run [0%float] [0%float] [(-0x1.fffffffffffffp+1023)%float] [(-1)%float] [1%float] 0x1p-1 in
  sr_free r = [true] /\ vbits (sr_dhat r) [infinity] = true /\ fbits (sr_alpha r) 0 = true /\ vbits (sr_xbar r) [nan] = true.
Proof. exact nan_from_finite_inputs. Qed.

(* the free set of the model IS the mask of subspacemin.get_freev, translated from its NumPy source on every run:
   ((x_cp != ub) & (x_cp != lb)) element-wise, for arrays of equal length *)
Theorem C09f_free_mask_from_source : forall xc lb ub : vec, length lb = length xc -> length ub = length xc ->
  LBFGSB.Generated.FreeSet.free_mask xc lb ub = ffree xc lb ub.
Proof.
  unfold LBFGSB.Generated.FreeSet.free_mask. induction xc as [|x xc IH]; intros lb ub Hl Hu; destruct lb as [|l lb]; destruct ub as [|u ub]; try discriminate; [reflexivity|].
  cbn. unfold is_free. f_equal. apply IH; [injection Hl|injection Hu]; auto.
Qed.

(* TRANSLATION TIE for the rest of subspace_minimization.  Everything but the reduced solve - the early return for an empty
   free set, r = grad + theta (xc - x) and its in-place correction, rHat = [r[i] for i in free_vars], dHat from the answer of
   the reduced solve, mask = dHat != 0, alpha_star = min(1.0, np.nanmin(np.where(...) / dHat[mask] if ... else 1.0)) and the
   returned np.clip(xc + alpha_star * Z @ dHat, lb, ub), with Z the selection matrix that get_freev builds from free_vars - is
   translated from the NumPy source on every run (Generated/SubspaceTail.v; element-wise list reading of the idioms in
   Model/NumpyOps.v) and IS the binary64 model the theorems above are about, for arrays of one length and a reduced solve that
   answers with one number per free variable.  free_vars = mask.nonzero()[0] is `indices_from 0` of the translated mask. *)
Theorem C09f_tail_from_source : forall (O : sub_oracles) (x xc c g lb ub : vec) (theta : float) (uf : bool),
  length lb = length xc -> length ub = length xc -> length x = length xc -> length g = length xc ->
  length (o_corr O (ffree xc lb ub) (rhat O x xc c g theta uf (ffree xc lb ub))) = Proofs.SubspaceTail.count (ffree xc lb ub) ->
  LBFGSB.Generated.SubspaceTail.subspace_minimization (o_Wc O) (fun _ rh => o_corr O (ffree xc lb ub) rh) theta uf x xc c g lb ub
    (indices_from 0 (LBFGSB.Generated.FreeSet.free_mask xc lb ub))
  = fsubspace O x xc c g lb ub theta uf.
Proof.
  intros O x xc c g lb ub theta uf Hl Hu Hx Hg Hc. rewrite C09f_free_mask_from_source by assumption.
  exact (Proofs.SubspaceTail.subspace_tail_eq O x xc c g lb ub theta uf Hl Hu Hx Hg Hc).
Qed.

(* the hypotheses are met and both sides are a non-trivial point: two free variables out of three, a step cut to alpha = 1/2 *)
Example C09f_tail_example :
  let O := mkSO (fun c => [0.25; 0.5; 0.125]%float) (fun _ rh => map (fun e => mul e 0.5) rh) in
  let x := [0; 0; 1]%float in let xc := [0.5; 0; 1]%float in let g := [-1; 1; -2]%float in
  let lb := [0; 0; 0]%float in let ub := [1; 1; 2]%float in
  length (o_corr O (ffree xc lb ub) (rhat O x xc [1]%float g 2 true (ffree xc lb ub))) = Proofs.SubspaceTail.count (ffree xc lb ub)
  /\ LBFGSB.Generated.SubspaceTail.subspace_minimization (o_Wc O) (fun _ rh => o_corr O (ffree xc lb ub) rh) 2 true x xc [1]%float g lb ub
       (indices_from 0 (LBFGSB.Generated.FreeSet.free_mask xc lb ub)) = fsubspace O x xc [1]%float g lb ub 2 true
  /\ map (fun e => eqb e 0) (vsub (fsubspace O x xc [1]%float g lb ub 2 true) xc) = [false; true; false].
Proof. cbv zeta. split; [reflexivity|]. split; vm_compute; reflexivity. Qed.

Print Assumptions C09f_tail_from_source.
Print Assumptions C09f_feasible.
Print Assumptions C09f_free_set.
Print Assumptions C09f_nonfree_eqb.
Print Assumptions C09f_nonfree_bits.
Print Assumptions C09f_alpha_le_one.
Print Assumptions C09f_alpha_range.
Print Assumptions C09f_no_free_variable.
Print Assumptions C09f_alpha_zero_sign.

(* Non-vacuity / witnesses by computation (Proofs/FSubspaceProofs.v). *)
Example C09f_nonvacuous := (conj nonfree_negative_zero_changes_sign (conj alpha_zero_by_underflow nan_from_finite_inputs)).
