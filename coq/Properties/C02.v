(* C02 - every evaluated, reported and returned point lies inside the box, exactly.
   This file only restates theorems proved in Proofs/DriverBox.v (driver model: coq/Model/Driver.v). *)
From Coq Require Import List ZArith Bool String Floats.PrimFloat.
From LBFGSB Require Import Base.Res Base.Hoare Base.FloatOrd Model.SF Model.FloatVec Model.Driver Proofs.DriverBox.
From LBFGSB Require Generated.Base.
Import ListNotations.
Open Scope Z_scope.

Section C02.
  Variable U : user.     (* objective, gradient (or finite differences), callback, update function, scaler, ftarget(), gtol() *)
  Variable K : kern.     (* ANY search-point kernel (Cauchy + subspace), ANY line-search routine, ANY dot product *)
  Variable c : cfg.      (* x0, bounds, budgets, tolerances, optional checkpoint *)
  (* the bounds hold no NaN (get_bounds then rejects lb > ub and an x0 outside the box: modelled, bounds_error) *)
  Hypothesis lb_nonan : nonan (lb c).
  Hypothesis ub_nonan : nonan (ub c).
  Hypothesis same_len : List.length (lb c) = List.length (ub c).
  (* finite-difference modes: SciPy's approx_derivative keeps its stencil inside the bounds it is given *)
  Hypothesis stencil_in_box : forall p, inbox p (lb c) (ub c) -> Forall (fun q => inbox q (lb c) (ub c)) (fd_stencil U p).

  (* Whatever the outcome of the run (result or exception): every point at which the objective or the gradient is
     evaluated, the point handed to the scaler and to the update function, the x of every state handed to the
     callback, and the returned x have every coordinate inside [lb_i, ub_i] under the exact binary64 comparison
     (or NaN, which only arises from NaN arithmetic: see C02_nan_only_from_nan). *)
  Theorem C02_points_in_box : forall out tr, run U K c = (out, tr) ->
    Forall (ev_in_box c) tr /\ forall r, out = Ok r -> inbox (r_x r) (lb c) (ub c).
  Proof.
    intros out tr H. destruct (bounds_error c) as [e|] eqn:Eb.
    - unfold run in H. rewrite Eb in H. inversion H; subst. split; [constructor|intros; discriminate].
    - pose proof (box_run U K c (bounds_accepted c Eb lb_nonan ub_nonan same_len) stencil_in_box) as [H1 H2].
      rewrite H in H1, H2. cbn in H1, H2. split; [exact H1|]. intros r ->. apply H2. reflexivity.
  Qed.
End C02.

(* a coordinate that satisfies the in-box predicate is not outside, with no exception for NaN *)
Theorem C02_not_outside : forall x l u, okc x l u -> ltb x l = false /\ ltb u x = false.
Proof.
  intros x l u [Hn|[H1 H2]].
  - split.
    + destruct (ltb x l) eqn:E; [|reflexivity]. destruct (ltb_not_nan _ _ E). congruence.
    + destruct (ltb u x) eqn:E; [|reflexivity]. destruct (ltb_not_nan _ _ E). congruence.
  - split; apply leb_ltb_false; assumption.
Qed.

(* components with lb == ub never move *)
Theorem C02_fixed_never_move : forall x l u, eqb l u = true -> okc x l u -> is_nan x = true \/ eqb x l = true.
Proof. exact okc_fixed. Qed.

(* clipping produces NaN only from NaN *)
Theorem C02_nan_only_from_nan : forall x l u, leb l u = true -> is_nan (fclip x l u) = true -> is_nan x = true.
Proof. intros x l u H1 H2. exact (fclip_nan x l u H2 H1). Qed.

(* The projection itself is read from the source on every run: the iterate update of main.py and the three trial-point expressions
   of linesearch.py are translated (NumPy vector expressions -> Model/FloatVec.v) to ONE term, which is the projected point
   vclip (x + a d) the driver model evaluates, updates and reports (the un-projected form of the pinned tree was defect D2). *)
Lemma vadd_map_mul_vaxpy : forall (x d : vec) (a : float), vadd x (List.map (fun e_ => PrimFloat.mul a e_) d) = vaxpy x a d.
Proof.
  induction x as [|xi x IH]; intros d a; destruct d as [|di d]; cbn; try reflexivity.
  unfold vadd, vaxpy in *. cbn. f_equal. apply IH.
Qed.
Theorem C02_projection_from_source : forall x a d lb ub,
  LBFGSB.Generated.Base.projected_point x a d lb ub = vclip (vaxpy x a d) lb ub.
Proof. intros. unfold LBFGSB.Generated.Base.projected_point. rewrite vadd_map_mul_vaxpy. reflexivity. Qed.
Theorem C02_projection_sites_from_source :
  LBFGSB.Generated.Base.projection_sites_src =
  ["main: np.clip(x + _ * d, lb, ub)"; "linesearch: np.clip(x0 + _ * d, lb, ub)";
   "linesearch: np.clip(x0 + _ * d, lb, ub)"; "linesearch: np.clip(x0 + _ * d, lb, ub)"]%string.
Proof. reflexivity. Qed.

Print Assumptions C02_points_in_box.
Print Assumptions C02_not_outside.
Print Assumptions C02_fixed_never_move.

(* Non-vacuity: the search kernel proposes a point outside the box, the trial point is clipped onto the bound. *)
Definition U2 : user :=
  mkuser (fun x => Ok (opp (hd 0%float x))) (fun x => Ok [(-1)%float]) None None None (Ok 0%float) (Ok 0%float) false (fun _ => []) (fun _ _ _ => Ok []).
Definition K2 : kern :=
  mkkern (fun _ _ _ _ => [2%float]) (fun _ h => match h with [_] => (1%float, TFG) | _ => (1%float, TConv) end) (fun _ _ => (-1)%float).
Definition c2 : cfg :=
  mkcfg [0.5%float] [0%float] [1%float] 3 None 0%float (TolConst 0%float) 1 10 20 1%float 0.001%float 0.9%float 0.1%float 0%float None.
Example C02_example :
  exists r tr, run U2 K2 c2 = (Ok r, tr) /\ In (EvF [1%float] (Ok (-1)%float)) tr /\ r_x r = [1%float].
Proof. eexists. eexists. split; [vm_compute; reflexivity|]. split; [cbn; tauto|reflexivity]. Qed.
