(* C07 - the callback state is a faithful snapshot usable as a crash checkpoint.
   Restates Proofs/DriverSnapshot.snapshot_is_result (driver model: coq/Model/Driver.v). *)
From Coq Require Import List ZArith Bool String Floats.PrimFloat.
From LBFGSB Require Import Base.Res Base.Sim Model.SF Model.FloatVec Model.Driver Proofs.DriverSnapshot Proofs.DriverInert.
Import ListNotations.
Open Scope Z_scope.

(* For every user, every kernel / line-search behaviour, every configuration (checkpoint, scaler, update function, finite
   differences, any budgets), whatever the run does afterwards (it may go on, stop, or raise): a state handed to the callback
   (to which the callback answered) is, in x, fun, jac, nfev, njev, nit and correction pairs, exactly the result of the same run
   made with maxiter = that state's nit.  In particular its nit is the number of completed iterations.
   (with_maxiter k c is c with maxiter := k; same_state compares the seven fields the property lists.) *)
Theorem C07_snapshot_is_result : forall U K c out tr snap b,
  run U K c = (out, tr) -> In (EvCb snap (Ok b)) tr ->
  exists r' tr', run U K (with_maxiter (r_nit snap) c) = (Ok r', tr') /\ same_state r' snap.
Proof. exact snapshot_is_result. Qed.

(* the prefix lemma behind it, on the loop: passes do not depend on maxiter, which only decides where the loop stops *)
Theorem C07_loop_prefix : forall U K c fuel ft gt s r tr snap b,
  loop U K c fuel ft gt s = (r, tr) -> In (EvCb snap (Ok b)) tr ->
  s_nit s < r_nit snap /\
  exists s_k tr', loop U K (with_maxiter (r_nit snap) c) (Z.to_nat (r_nit snap - s_nit s)) ft gt s = (Ok s_k, tr') /\
                  fields_of s_k snap /\ s_nit s_k = r_nit snap.
Proof. exact loop_snapshot. Qed.

(* the presence of a callback that returns False does not alter the run: same outcome, and the same trace of user-visible
   events once the callback events themselves are erased *)
Theorem C07_callback_inert : forall U K c cbf, (forall s, cbf s = Ok false) -> u_cb U = None ->
  sim not_cb (run (with_cb (Some cbf) U) K c) (run U K c).
Proof. exact inert_run. Qed.

Print Assumptions C07_snapshot_is_result.
Print Assumptions C07_callback_inert.

(* Non-vacuity: a 3-iteration run with a recording callback; the state of iteration 2 is the result of the maxiter = 2 run. *)
Definition U7 : user :=
  mkuser (fun x => Ok (mul (hd 0%float x) (hd 0%float x))) (fun x => Ok [mul 2%float (hd 0%float x)]) (Some (fun _ => Ok false)) None None (Ok 0%float) (Ok 0%float)
         false (fun _ => []) (fun _ _ _ => Ok []).
Definition K7 : kern :=
  mkkern (fun x _ _ _ => [mul 0.5%float (hd 0%float x)]) (fun _ h => match h with [_] => (1%float, TFG) | _ => (1%float, TConv) end)
         (fun a b => mul (hd 0%float a) (hd 0%float b)).
Definition c7 : cfg :=
  mkcfg [4%float] [(-9)%float] [9%float] 3 None 0%float (TolConst 0%float) 3 50 5 1%float 0.001%float 0.9%float 0.1%float 0%float None.
Example C07_example : exists r tr snap r2 tr2,
  run U7 K7 c7 = (Ok r, tr) /\ run U7 K7 (with_maxiter 2 c7) = (Ok r2, tr2) /\
  In (EvCb snap (Ok false)) tr /\ r_nit snap = 2 /\ r_x snap = [1%float] /\ r_x r2 = [1%float] /\ r_nit r2 = 2 /\ r_sk r2 = r_sk snap.
Proof.
  eexists. eexists. eexists. eexists. eexists. split; [vm_compute; reflexivity|]. split; [vm_compute; reflexivity|].
  split; [cbn [In]; do 7 right; left; reflexivity|]. cbn. repeat split.
Qed.
