(* C03 - the objective never increases from one accepted iterate to the next.
   Restates Proofs/DriverValuesRun.values_run (driver model: coq/Model/Driver.v). *)
From Coq Require Import List ZArith Bool String Floats.PrimFloat.
From LBFGSB Require Generated.LsBook Proofs.DriverSplit.
From LBFGSB Require Import Base.Res Base.Hoare Base.FloatOrd Model.SF Model.FloatVec Model.Driver
  Proofs.SFProofs Proofs.DriverReport Proofs.DriverValues Proofs.DriverValuesRun.
Import ListNotations.
Open Scope Z_scope.

Section C03.
  Variable U : user.   (* any objective (convex or not, badly scaled, ...), callable or finite-difference gradient, callback, scaler *)
  Variable K : kern.   (* ANY search direction, ANY line-search routine (More-Thuente or not), any dot product *)
  Variable c : cfg.    (* any box, start, maxcor, maxls, maxfun (the budget may run out in the middle of a line search), checkpoint *)
  (* fixed objective: a function of the point (np.array_equal-equal points are not distinguished), no update function *)
  Hypothesis user_respects_array_equal : forall p q, veqb p q = true ->
    uf U p = uf U q /\ ug U p = ug U q /\ fd_stencil U p = fd_stencil U q /\ fd_est U p = fd_est U q.
  Hypothesis no_update_function : u_upd U = None.
  Hypothesis checkpoint_coherent : ck_coherent U c.

  (* below a b :  b = a  or  b < a  (binary64 comparison).  The start value, the values carried by the successive
     callback states and the returned value form a chain: each is equal to or strictly below the one before. *)
  Theorem C03_monotone : forall r tr, run U K c = (Ok r, tr) ->
    exists sg fstart, scale_in sg tr /\ start_ok U c sg fstart /\
      chain (fstart :: snaps tr) /\ below (last (snaps tr) fstart) (r_fun r).
  Proof.
    intros r tr H. destruct (values_run U K c user_respects_array_equal no_update_function checkpoint_coherent r tr H)
      as (sg & fs & H1 & H2 & H3 & H4 & _). exists sg, fs. auto.
  Qed.

  (* consequently the returned value is never worse than the starting one *)
  Theorem C03_never_worse : forall r tr, run U K c = (Ok r, tr) ->
    exists sg fstart, scale_in sg tr /\ start_ok U c sg fstart /\ below fstart (r_fun r).
  Proof.
    intros r tr H. destruct (C03_monotone r tr H) as (sg & fs & H1 & H2 & H3 & H4). exists sg, fs. repeat split; auto.
    eapply below_trans; [apply chain_last; exact H3|exact H4].
  Qed.
End C03.

(* a line search that finds no point better than its start leaves the iterate where it was *)
Theorem C03_failed_search_keeps_iterate : forall (s : lst) t1,
  let s' := snd (fail_step s t1) in s_x s' = s_x s /\ s_f s' = s_f s /\ s_g s' = s_g s.
Proof. intros s t1. unfold fail_step. destruct (_ =? _)%nat; cbn; auto. Qed.

(* the accepted step: the step handed back by the line search is a trial step of that call whose (scaled) objective value
   is strictly below the value at the start of the search, whatever the line-search routine answered *)
Theorem C03_accepted_step_is_downhill : forall U K c,
  (forall p q, veqb p q = true -> uf U p = uf U q /\ ug U p = ug U q /\ fd_stencil U p = fd_stencil U q /\ fd_est U p = fd_est U q) ->
  forall xk f0 g0 d nit cap t a t1 tr,
  Inv vec float vec float (uf U) (ug U) (fd_stencil U) (fd_est U) (fdmode U) t ->
  line_search U K c xk f0 g0 d nit cap t = (Ok (Some a, t1), tr) ->
  exists fv, uf U (vclip (vaxpy xk a d) (lb c) (ub c)) = Ok fv /\ ltb (mul fv (SF.scale _ _ _ _ t)) f0 = true.
Proof.
  intros U K c Hu xk f0 g0 d nit cap t a t1 tr HI H.
  destruct (val_line_search U K c Hu xk f0 g0 d nit cap t HI _ _ H) as (_ & _ & _ & _ & Hs). exact (Hs a eq_refl).
Qed.

(* TRANSLATION TIE: the rule that decides which trial is accepted - `best_f = f0` at the start, `if f_m1 < best_f: best_f = f_m1;
   best_stp = steplength` after every evaluation, `steplength = best_stp` at the end - is recognised in the source of line_search on
   every run (Generated/LsBook.v) and is the model's: monotonicity rests on it (the pinned tree compared with the previous trial
   only, defect D3). *)
Theorem C03_best_trial_from_source : forall (U : user) (K : kern) (c : cfg) k xk d par s stp,
  dcs K par (l_hist s ++ [(l_stp s, l_f s, l_dphi s)]) = (stp, TFG) ->
  ls_loop U K c (S k) xk d par s =
  bind (sf_fun_and_grad U (vclip (vaxpy xk stp d) (lb c) (ub c)) (l_sf s))
       (fun '(f, g, t1) => let b := LBFGSB.Generated.LsBook.best_update f stp (l_best s, l_bestf s) in
          ls_loop U K c k xk d par (mklss stp f (vdot K g d) (l_hist s ++ [(l_stp s, l_f s, l_dphi s)]) (fst b) (snd b) TFG stp t1)).
Proof.
  intros U K c k xk d par s stp H. cbn [ls_loop]. rewrite H. apply DriverSplit.bind_ext. intros [[f g] t1].
  unfold LBFGSB.Generated.LsBook.best_update. cbn [snd fst]. destruct (ltb f (l_bestf s)); reflexivity.
Qed.

Print Assumptions C03_monotone.
Print Assumptions C03_never_worse.
Print Assumptions C03_accepted_step_is_downhill.

(* Non-vacuity: a one-variable run where the only trial of the first line search is uphill (maxls = 1): the iterate stays. *)
Definition U3 : user :=
  mkuser (fun x => Ok (mul (hd 0%float x) (hd 0%float x))) (fun x => Ok [mul 2%float (hd 0%float x)]) None None None (Ok 0%float) (Ok 0%float)
         false (fun _ => []) (fun _ _ _ => Ok []).
Definition K3 : kern :=
  mkkern (fun _ _ _ _ => [(-3)%float]) (fun _ h => match h with [_] => (1%float, TFG) | _ => (1%float, TWarn) end) (fun _ _ => (-8)%float).
Definition c3 : cfg :=
  mkcfg [1%float] [(-5)%float] [5%float] 3 None 0%float (TolConst 0%float) 5 10 1 1%float 0.001%float 0.9%float 0.1%float 0%float None.
Example C03_example : exists r tr, run U3 K3 c3 = (Ok r, tr) /\ r_x r = [1%float] /\ r_fun r = 1%float /\ r_msg r = MAbnormal /\
  In (EvF [(-3)%float] (Ok 9%float)) tr.
Proof. eexists. eexists. split; [vm_compute; reflexivity|]. repeat split. cbn. tauto. Qed.
