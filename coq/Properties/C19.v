(* C19.v -- property file.
   C19: each packaged benchmark gradient (lbfgsb/benchmarks.py) is the
   gradient of its benchmark function, in every dimension, at every point of
   the domain, and has the shape of x.

   Bench.v is regenerated from the Python source on every check; the theorems
   below are restatements of results of BenchProofs.v about those generated
   definitions.

     grad_correct dom f g :=
       forall x, length (g x) = length x /\
         forall i, i < length x -> dom x ->
           is_derive (fun t => f (upd x i t)) (nth i x 0) (nth i (g x) 0)

   Float literals are read as the decimal rationals written in the source
   (0.2 = 1/5).  dom_X is True except dom_ackley (sum of squares <> 0) and
   dom_griewank (the cosines the gradient code divides by are <> 0). *)
From Coq Require Import Reals List.
From Coquelicot Require Import Coquelicot.
From LBFGSB Require Import Model.BenchLib Generated.Bench Proofs.BenchProofs.
Import ListNotations.
Open Scope R_scope.

Theorem C19_sphere : grad_correct dom_sphere sphere sphere_grad.
Proof. exact sphere_grad_correct. Qed.
Print Assumptions C19_sphere.

Theorem C19_quartic : grad_correct dom_quartic quartic quartic_grad.
Proof. exact quartic_grad_correct. Qed.
Print Assumptions C19_quartic.

Theorem C19_rastrigin : grad_correct dom_rastrigin rastrigin rastrigin_grad.
Proof. exact rastrigin_grad_correct. Qed.
Print Assumptions C19_rastrigin.

Theorem C19_styblinski_tang :
  grad_correct dom_styblinski_tang styblinski_tang styblinski_tang_grad.
Proof. exact styblinski_tang_grad_correct. Qed.
Print Assumptions C19_styblinski_tang.

Theorem C19_rosenbrock : grad_correct dom_rosenbrock rosenbrock rosenbrock_grad.
Proof. exact rosenbrock_grad_correct. Qed.
Print Assumptions C19_rosenbrock.

Theorem C19_beale : grad_correct dom_beale beale beale_grad.
Proof. exact beale_grad_correct. Qed.
Print Assumptions C19_beale.

Theorem C19_griewank : grad_correct dom_griewank griewank griewank_grad.
Proof. exact griewank_grad_correct. Qed.
Print Assumptions C19_griewank.

Theorem C19_ackley : grad_correct dom_ackley ackley ackley_grad.
Proof. exact ackley_grad_correct. Qed.
Print Assumptions C19_ackley.

(* degenerate lengths of the chained functions: what the code computes *)
Theorem C19_rosenbrock_short : forall x, (length x < 2)%nat ->
  rosenbrock x = 0 /\ rosenbrock_grad x = zeros (length x).
Proof. exact rosenbrock_short. Qed.

Theorem C19_beale_short : forall x, (length x < 2)%nat ->
  beale x = 0 /\ beale_grad x = zeros (length x).
Proof. exact beale_short. Qed.

(* ------------------------------------------------------------------ *)
(* Non-vacuity: the domain predicates hold at concrete points, and the
   index range is inhabited. *)

Example C19_nonvacuous_separable :
  dom_sphere [1; 2] /\ dom_quartic [1; 2] /\ dom_rastrigin [1; 2]
  /\ dom_styblinski_tang [1; 2] /\ (1 < length [1; 2])%nat.
Proof. exact nonvacuous_separable. Qed.

Example C19_nonvacuous_chained :
  dom_rosenbrock [1; 2; 3] /\ dom_beale [1; 2; 3] /\ (2 < length [1; 2; 3])%nat.
Proof. exact nonvacuous_chained. Qed.

Example C19_nonvacuous_aggregate :
  dom_ackley [1; 0] /\ dom_griewank [0; 0] /\ (1 < length [1; 0])%nat.
Proof. exact nonvacuous_aggregate. Qed.
