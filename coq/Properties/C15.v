(* C15 - the function wrapper never serves a stale value and counts every evaluation once.
   This file only restates theorems proved in Proofs/SFProofs.v. *)
From Coq Require Import String List ZArith Bool.
From LBFGSB Require Generated.WrapperSrc.
From LBFGSB Require Import Base.Res Model.SF Model.SFInst Proofs.SFProofs.
Import ListNotations.
Open Scope Z_scope.

Section C15.
  Variables (P F G S : Type) (peqb : P -> P -> bool) (fmul : F -> S -> F) (gmul : G -> S -> G).
  Variables (uf : P -> res F) (ug : P -> res G) (stencil : P -> list P) (fdest : P -> F -> list F -> res G) (fdmode : bool).
  (* assumption: the user's functions do not distinguish points that np.array_equal identifies *)
  Hypothesis user_respects_array_equal :
    forall p q, peqb p q = true -> uf p = uf q /\ ug p = ug q /\ stencil p = stencil q /\ fdest p = fdest q.

  (* For every history of value / gradient / value-and-gradient requests and scaling-factor changes, of any
     length, on a freshly created wrapper: every answer is the fresh evaluation at the requested point times
     the scaling factor current at that request, and the counters equal the number of user calls made. *)
  Theorem C15_wrapper : forall os x0 s0 l t1 tr,
    SF.run P F G S peqb fmul gmul uf ug stencil fdest fdmode os (SF.init P F G S x0 s0) = (Ok (l, t1), tr) ->
    answers_ok P F G S fmul gmul uf ug stencil fdest fdmode os s0 l /\
    nfev P F G S t1 = count_f P F G tr /\
    (fdmode = false -> ngev P F G S t1 = count_g P F G tr).
  Proof.
    intros os x0 s0 l t1 tr H.
    destruct (run_spec P F G S peqb fmul gmul uf ug stencil fdest fdmode user_respects_array_equal os _ l t1 tr
                (Inv_init P F G S uf ug stencil fdest fdmode x0 s0) H) as (Ha & _ & Hn & Hg).
    cbn in Ha, Hn, Hg. repeat split; auto.
  Qed.

  (* No re-evaluation: right after a value request has been answered, a value request at an equal point
     makes no user call and leaves the wrapper unchanged. *)
  Theorem C15_no_reevaluation : forall p t v t1 tr q,
    Inv P F G S uf ug stencil fdest fdmode t ->
    SF.sf_fun P F G S peqb fmul uf p t = (Ok (v, t1), tr) ->
    peqb q (sx P F G S t1) = true ->
    exists a, SF.step P F G S peqb fmul gmul uf ug stencil fdest fdmode (OFun P S q) t1 = (Ok (a, t1), []).
  Proof.
    intros p t v t1 tr q HI H Hq.
    destruct (fun_then_cached P F G S peqb fmul uf ug stencil fdest fdmode user_respects_array_equal p t v t1 tr HI H) as (Hw & _ & _).
    apply no_reevaluation_fun; auto.
    unfold SF.sf_fun in H. apply bind_ok_inv in H as ([v2 t3] & tr3 & tr4 & H3 & H4 & ->).
    unfold ret in H4. inversion H4; subst.
    destruct (update_x_spec P F G S peqb uf ug stencil fdest fdmode user_respects_array_equal p t HI) as (HI1 & _).
    exact (proj1 (proj2 (update_fun_spec P F G S uf ug stencil fdest fdmode _ _ _ _ HI1 H3))).
  Qed.
End C15.

(* the wrapper model (Model/SF.v) mirrors these methods of scalar_function.ScalarFunction and closures of its __init__: their
   normalised source, re-extracted on every run, is what it was when the model was written (the copies returned to the caller,
   f * scaling_factor and g * scaling_factor, are new arrays: seeded changes C05-d / C17-c replace them by the cached object) *)
Theorem C15_wrapper_source :
  WrapperSrc.sf_update_x_src = ["self.x = np.atleast_1d(x).astype(float)";
  "self.f_updated = False";
  "self.g_updated = False";
  "self.H_updated = False"]%string /\
  WrapperSrc.sf_update_fun_src = ["if not self.f_updated: self._update_fun_impl() self.f_updated = True"]%string /\
  WrapperSrc.sf_update_grad_src = ["if not self.g_updated: self._update_grad_impl() self.g_updated = True"]%string /\
  WrapperSrc.sf_fun_src = ["if not np.array_equal(x, self.x): self.update_x(x)";
  "self._update_fun()";
  "return self.f * self.scaling_factor"]%string /\
  WrapperSrc.sf_grad_src = ["if not np.array_equal(x, self.x): self.update_x(x)";
  "self._update_grad()";
  "return self.g * self.scaling_factor"]%string /\
  WrapperSrc.sf_fun_and_grad_src = ["if not np.array_equal(x, self.x): self.update_x(x)";
  "self._update_fun()";
  "self._update_grad()";
  "return (self.f * self.scaling_factor, self.g * self.scaling_factor)"]%string /\
  WrapperSrc.sf_init_fun_wrapped_src = ["self.nfev += 1";
  "fx = fun(np.copy(x), *args)";
  "if not np.isscalar(fx): try: fx = np.asarray(fx).item() except (TypeError, ValueError) as e: raise ValueError('The user-provided objective function must return a scalar value.') from e";
  "if fx < self._lowest_f: self._lowest_x = x self._lowest_f = fx";
  "return fx"]%string /\
  WrapperSrc.sf_init_update_fun_src = ["self.f = fun_wrapped(self.x)"]%string /\
  WrapperSrc.sf_init_grad_wrapped_src = ["self.ngev += 1";
  "return np.atleast_1d(grad(np.copy(x), *args))"]%string /\
  WrapperSrc.sf_init_update_grad_1_src = ["self.g = grad_wrapped(self.x)"]%string /\
  WrapperSrc.sf_init_update_grad_2_src = ["self._update_fun()";
  "self.ngev += 1";
  "self.g = approx_derivative(fun_wrapped, self.x, f0=self.f, **finite_diff_options)";
  "lb, ub = finite_diff_options['bounds']";
  "self.g[np.broadcast_to(np.equal(lb, ub), self.g.shape)] = 0.0"]%string.
Proof. repeat split; reflexivity. Qed.

Print Assumptions C15_wrapper.
Print Assumptions C15_no_reevaluation.

(* Non-vacuity: a concrete history on the executable instance satisfies the hypotheses and produces answers. *)
Example C15_example :
  fst (run_i false (map decode [0; 4; 8; 10; 2; 2]) (SF.init Z Z Z Z 2 1)) =
  Ok ([AFun _ _ 35; AGrad _ _ 73; ABoth _ _ 595 129; ANone _ _; AFun _ _ 1785; AFun _ _ 1785],
      SF.mk Z Z Z Z 9 (Some 595) (Some 129) 2 2 3).
Proof. vm_compute. reflexivity. Qed.

(* The wrapper is a single memo cell: a gradient request at another point in between evicts the value.
   (Interpretation note in DESIGN.md, C15: "the point it was last evaluated at" is the wrapper's current point.) *)
Example C15_single_cell : snd (run_i false (map decode [0; 4; 0]) (SF.init Z Z Z Z 2 1)) =
  [EvF _ _ _ 2 (Ok 35); EvG _ _ _ 5 (Ok 73); EvF _ _ _ 2 (Ok 35)].
Proof. vm_compute. reflexivity. Qed.
