(* C15 - the function wrapper never serves a stale value and counts every evaluation once.
   This file only restates theorems proved in Proofs/SFProofs.v. *)
From Coq Require Import String List ZArith Bool.
From LBFGSB Require Generated.WrapperSrc Generated.SFSrc Model.SFPy Proofs.SFRefine.
From LBFGSB Require Import Base.Res Model.SF Model.SFInst Proofs.SFProofs.
Import ListNotations.
Open Scope Z_scope.

Section C15.
  Variables (P F G S : Type) (peqb : P -> P -> bool) (fmul : F -> S -> F) (gmul : G -> S -> G).
  Variables (uf : P -> res F) (ug : P -> res G) (stencil : P -> list P) (fdest : P -> F -> list F -> res G) (fdmode : bool).
  (* assumption: the user's functions do not distinguish points that np.array_equal identifies *)
  Hypothesis user_respects_array_equal :
    forall p q, peqb p q = true -> uf p = uf q /\ ug p = ug q /\ stencil p = stencil q /\ fdest p = fdest q.

  (* For every history of value / gradient / value-and-gradient requests and scaling-factor changes, of any
     length, on a freshly created wrapper: every answer is the fresh evaluation at the requested point times
     the scaling factor current at that request, and the counters equal the number of user calls made. *)
  Theorem C15_wrapper : forall os x0 s0 l t1 tr,
    SF.run P F G S peqb fmul gmul uf ug stencil fdest fdmode os (SF.init P F G S x0 s0) = (Ok (l, t1), tr) ->
    answers_ok P F G S fmul gmul uf ug stencil fdest fdmode os s0 l /\
    nfev P F G S t1 = count_f P F G tr /\
    (fdmode = false -> ngev P F G S t1 = count_g P F G tr).
  Proof.
    intros os x0 s0 l t1 tr H.
    destruct (run_spec P F G S peqb fmul gmul uf ug stencil fdest fdmode user_respects_array_equal os _ l t1 tr
                (Inv_init P F G S uf ug stencil fdest fdmode x0 s0) H) as (Ha & _ & Hn & Hg).
    cbn in Ha, Hn, Hg. repeat split; auto.
  Qed.

  (* No re-evaluation: right after a value request has been answered, a value request at an equal point
     makes no user call and leaves the wrapper unchanged. *)
  Theorem C15_no_reevaluation : forall p t v t1 tr q,
    Inv P F G S uf ug stencil fdest fdmode t ->
    SF.sf_fun P F G S peqb fmul uf p t = (Ok (v, t1), tr) ->
    peqb q (sx P F G S t1) = true ->
    exists a, SF.step P F G S peqb fmul gmul uf ug stencil fdest fdmode (OFun P S q) t1 = (Ok (a, t1), []).
  Proof.
    intros p t v t1 tr q HI H Hq.
    destruct (fun_then_cached P F G S peqb fmul uf ug stencil fdest fdmode user_respects_array_equal p t v t1 tr HI H) as (Hw & _ & _).
    apply no_reevaluation_fun; auto.
    unfold SF.sf_fun in H. apply bind_ok_inv in H as ([v2 t3] & tr3 & tr4 & H3 & H4 & ->).
    unfold ret in H4. inversion H4; subst.
    destruct (update_x_spec P F G S peqb uf ug stencil fdest fdmode user_respects_array_equal p t HI) as (HI1 & _).
    exact (proj1 (proj2 (update_fun_spec P F G S uf ug stencil fdest fdmode _ _ _ _ HI1 H3))).
  Qed.
End C15.

(* the wrapper model (Model/SF.v) mirrors these methods of scalar_function.ScalarFunction and closures of its __init__: their
   normalised source, re-extracted on every run, is what it was when the model was written (the copies returned to the caller,
   f * scaling_factor and g * scaling_factor, are new arrays: seeded changes C05-d / C17-c replace them by the cached object) *)
Theorem C15_wrapper_source :
  WrapperSrc.sf_update_x_src = ["self.x = np.atleast_1d(x).astype(float)";
  "self.f_updated = False";
  "self.g_updated = False";
  "self.H_updated = False"]%string /\
  WrapperSrc.sf_update_fun_src = ["if not self.f_updated: self._update_fun_impl() self.f_updated = True"]%string /\
  WrapperSrc.sf_update_grad_src = ["if not self.g_updated: self._update_grad_impl() self.g_updated = True"]%string /\
  WrapperSrc.sf_fun_src = ["if not np.array_equal(x, self.x): self.update_x(x)";
  "self._update_fun()";
  "return self.f * self.scaling_factor"]%string /\
  WrapperSrc.sf_grad_src = ["if not np.array_equal(x, self.x): self.update_x(x)";
  "self._update_grad()";
  "return self.g * self.scaling_factor"]%string /\
  WrapperSrc.sf_fun_and_grad_src = ["if not np.array_equal(x, self.x): self.update_x(x)";
  "self._update_fun()";
  "self._update_grad()";
  "return (self.f * self.scaling_factor, self.g * self.scaling_factor)"]%string /\
  WrapperSrc.sf_init_fun_wrapped_src = ["self.nfev += 1";
  "fx = fun(np.copy(x), *args)";
  "if not np.isscalar(fx): try: fx = np.asarray(fx).item() except (TypeError, ValueError) as e: raise ValueError('The user-provided objective function must return a scalar value.') from e";
  "if fx < self._lowest_f: self._lowest_x = x self._lowest_f = fx";
  "return fx"]%string /\
  WrapperSrc.sf_init_update_fun_src = ["self.f = fun_wrapped(self.x)"]%string /\
  WrapperSrc.sf_init_grad_wrapped_src = ["self.ngev += 1";
  "return np.atleast_1d(grad(np.copy(x), *args))"]%string /\
  WrapperSrc.sf_init_update_grad_1_src = ["self.g = grad_wrapped(self.x)"]%string /\
  WrapperSrc.sf_init_update_grad_2_src = ["self._update_fun()";
  "self.ngev += 1";
  "self.g = approx_derivative(fun_wrapped, self.x, f0=self.f, **finite_diff_options)";
  "lb, ub = finite_diff_options['bounds']";
  "self.g[np.broadcast_to(np.equal(lb, ub), self.g.shape)] = 0.0"]%string.
Proof. repeat split; reflexivity. Qed.

(* TRANSLATION TIE.  scalar_function.ScalarFunction itself - the closures fun_wrapped / update_fun / grad_wrapped / update_grad
   (both variants) of __init__ and the methods update_x, _update_fun, _update_grad, fun, grad, fun_and_grad - is translated
   statement by statement on every run into functions on the record of the object's attributes (Generated/SFSrc.v; attribute
   record and helpers in Model/SFPy.v).  That translated class REFINES the memo cell the theorems above are about: through the
   abstraction "a stored value counts only while its validity flag is set", every method gives the model's answer, the model's
   trace of user calls, raises when the model raises, and reaches the abstraction of the model's next state, from every state in
   which a set flag has its value (established by __init__, preserved by every method); hence so does every finite sequence of
   requests, and C15_wrapper holds of the translated source. *)
Section C15_source.
  Variables (P F G S : Type) (peqb : P -> P -> bool) (fmul : F -> S -> F) (gmul : G -> S -> G).
  Variables (uf : P -> res F) (ug : P -> res G) (stencil : P -> list P) (fdest : P -> F -> list F -> res G) (fdmode : bool).
  Notation pst := (SFPy.pst P F G S).
  Notation mapr := (SFRefine.mapr P F G).

  Theorem C15_source_methods_refine : forall (x : P) (t : pst), SFPy.inv t ->
    mapr (fun '(v, t') => (v, SFPy.abs t')) (SFSrc.m_fun P F G S peqb fmul uf x t) = SF.sf_fun P F G S peqb fmul uf x (SFPy.abs t) /\
    mapr (fun '(g, t') => (g, SFPy.abs t')) (SFSrc.m_grad P F G S peqb gmul uf ug stencil fdest fdmode x t)
      = SF.sf_grad P F G S peqb gmul uf ug stencil fdest fdmode x (SFPy.abs t) /\
    mapr (fun '(v, g, t') => (v, g, SFPy.abs t')) (SFSrc.m_fun_and_grad P F G S peqb fmul gmul uf ug stencil fdest fdmode x t)
      = SF.sf_fun_and_grad P F G S peqb fmul gmul uf ug stencil fdest fdmode x (SFPy.abs t).
  Proof.
    intros x t I. split; [exact (proj1 (SFRefine.fun_refines P F G S peqb fmul uf x t I))|].
    split; [exact (proj1 (SFRefine.grad_refines P F G S peqb gmul uf ug stencil fdest fdmode x t I))|].
    exact (proj1 (SFRefine.fun_and_grad_refines P F G S peqb fmul gmul uf ug stencil fdest fdmode x t I)).
  Qed.

  Theorem C15_source_refines_model : forall (os : list (SF.op P S)) (x0 : P) (s0 : S),
    mapr (fun '(l, t') => (l, SFPy.abs t')) (SFRefine.py_run P F G S peqb fmul gmul uf ug stencil fdest fdmode os (SFSrc.init P F G S x0 s0))
    = SF.run P F G S peqb fmul gmul uf ug stencil fdest fdmode os (SF.init P F G S x0 s0).
  Proof.
    intros os x0 s0. destruct (SFRefine.init_refines P F G S x0 s0) as [I E]. rewrite <- E.
    exact (SFRefine.run_refines P F G S peqb fmul gmul uf ug stencil fdest fdmode os _ I).
  Qed.

  Hypothesis user_respects_array_equal :
    forall p q, peqb p q = true -> uf p = uf q /\ ug p = ug q /\ stencil p = stencil q /\ fdest p = fdest q.

  (* C15_wrapper, of the translated class: the counters are the attributes nfev / ngev of the object *)
  Theorem C15_wrapper_of_source : forall os x0 s0 l t1 tr,
    SFRefine.py_run P F G S peqb fmul gmul uf ug stencil fdest fdmode os (SFSrc.init P F G S x0 s0) = (Ok (l, t1), tr) ->
    answers_ok P F G S fmul gmul uf ug stencil fdest fdmode os s0 l /\
    SFPy.pnfev t1 = count_f P F G tr /\
    (fdmode = false -> SFPy.pngev t1 = count_g P F G tr).
  Proof.
    intros os x0 s0 l t1 tr H. pose proof (C15_source_refines_model os x0 s0) as R. rewrite H in R. unfold SFRefine.mapr in R. cbn in R.
    exact (C15_wrapper P F G S peqb fmul gmul uf ug stencil fdest fdmode user_respects_array_equal os x0 s0 l (SFPy.abs t1) tr (eq_sym R)).
  Qed.
End C15_source.

Print Assumptions C15_source_refines_model.
Print Assumptions C15_wrapper_of_source.
Print Assumptions C15_wrapper.
Print Assumptions C15_no_reevaluation.

(* Non-vacuity: a concrete history on the executable instance satisfies the hypotheses and produces answers. *)
Example C15_example :
  fst (run_i false (map decode [0; 4; 8; 10; 2; 2]) (SF.init Z Z Z Z 2 1)) =
  Ok ([AFun _ _ 35; AGrad _ _ 73; ABoth _ _ 595 129; ANone _ _; AFun _ _ 1785; AFun _ _ 1785],
      SF.mk Z Z Z Z 9 (Some 595) (Some 129) 2 2 3).
Proof. vm_compute. reflexivity. Qed.

(* The wrapper is a single memo cell: a gradient request at another point in between evicts the value.
   (Interpretation note in DESIGN.md, C15: "the point it was last evaluated at" is the wrapper's current point.) *)
Example C15_single_cell : snd (run_i false (map decode [0; 4; 0]) (SF.init Z Z Z Z 2 1)) =
  [EvF _ _ _ 2 (Ok 35); EvG _ _ _ 5 (Ok 73); EvF _ _ _ 2 (Ok 35)].
Proof. vm_compute. reflexivity. Qed.

(* the translated class on the executable instance: same answers, same calls, and the object's own counters *)
Example C15_source_example :
  let r := SFRefine.py_run Z Z Z Z Z.eqb Z.mul Z.mul uf_i ug_i stencil_i fdest_i false (map decode [0; 4; 8; 10; 2; 2]) (SFSrc.init Z Z Z Z 2 1) in
  (match fst r with Ok (l, t) => Some (l, SFPy.abs t, SFPy.f_updated t, SFPy.g_updated t) | _ => None end)
  = Some ([AFun _ _ 35; AGrad _ _ 73; ABoth _ _ 595 129; ANone _ _; AFun _ _ 1785; AFun _ _ 1785], SF.mk Z Z Z Z 9 (Some 595) (Some 129) 2 2 3, true, true)
  /\ snd r = snd (run_i false (map decode [0; 4; 8; 10; 2; 2]) (SF.init Z Z Z Z 2 1)).
Proof. vm_compute. split; reflexivity. Qed.
