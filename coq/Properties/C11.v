(* C11 - line-search steps are feasible, within budget and strictly downhill.
   Restates lemmas about [line_search] of the driver model (coq/Model/Driver.v, hand-written from linesearch.py). *)
From Coq Require Import List ZArith Bool String Lia Floats.PrimFloat.
From LBFGSB Require Generated.MaxStep Generated.Base Generated.MainLoop Generated.LsBook Generated.StopTests Model.NumpyOps Proofs.DriverSplit.
From LBFGSB Require Import Base.Res Base.Hoare Base.FloatOrd Model.SF Model.FloatVec Model.Driver Generated.Consts
  Proofs.SFProofs Proofs.SFPoints Proofs.DriverBox Proofs.DriverReport Proofs.DriverValues Proofs.DriverLineSearch
  Model.Dcsrch Model.DriverDcs Proofs.DcsrchProofs Proofs.DriverDcsrch Proofs.FloatZero Proofs.DriverStepPositive.
Import ListNotations.
Open Scope Z_scope.

Section C11.
  Variable U : user.   (* any objective, convex or not (oscillating, ...), callable or finite-difference gradient *)
  Variable K : kern.   (* ANY line-search routine behaviour (the DCSRCH oracle), any dot product *)
  Variable c : cfg.    (* any box and line-search tolerances *)
  Variables (xk : vec) (f0 : float) (g0 d : vec) (nit cap : Z) (t : SF.st vec float vec float).
  (* ANY start xk, ANY direction d (descent or not), any iteration index, any evaluation cap *)

  (* 1. every point the line search evaluates lies inside the box (whatever the outcome, exception included) *)
  Theorem C11_points_in_box :
    wfb (lb c) (ub c) -> (forall p, inbox p (lb c) (ub c) -> Forall (fun q => inbox q (lb c) (ub c)) (fd_stencil U p)) ->
    inbox (SF.sx _ _ _ _ t) (lb c) (ub c) ->
    forall out tr, line_search U K c xk f0 g0 d nit cap t = (out, tr) -> Forall (ev_in_box c) tr.
  Proof.
    intros Hb Hs Ht out tr H. pose proof (box_line_search U K c Hb Hs xk f0 g0 d nit cap t Ht) as [H1 _]. rewrite H in H1. exact H1.
  Qed.

  (* 2. with a callable gradient at most cap objective evaluations are made (cap = min(maxls, maxfun - nfev) at the call site) *)
  Theorem C11_within_budget : fdmode U = false ->
    forall r tr, line_search U K c xk f0 g0 d nit cap t = (Ok r, tr) -> cntP isF tr <= Z.max 0 cap /\ cntP isG tr <= Z.max 0 cap.
  Proof.
    intros Hc r tr H. split.
    - exact (proj2 (rep_line_search U K c xk f0 g0 d nit cap t r tr H) Hc).
    - exact (rep_line_search_g U K c xk f0 g0 d nit cap t r tr H Hc).
  Qed.

  (* 3. a step handed back is a trial step of this call whose objective value is STRICTLY below the value at the start *)
  Theorem C11_strictly_downhill :
    (forall p q, veqb p q = true -> uf U p = uf U q /\ ug U p = ug U q /\ fd_stencil U p = fd_stencil U q /\ fd_est U p = fd_est U q) ->
    Inv vec float vec float (uf U) (ug U) (fd_stencil U) (fd_est U) (fdmode U) t ->
    forall a t1 tr, line_search U K c xk f0 g0 d nit cap t = (Ok (Some a, t1), tr) ->
    exists fv, uf U (vclip (vaxpy xk a d) (lb c) (ub c)) = Ok fv /\ ltb (mul fv (SF.scale _ _ _ _ t)) f0 = true.
  Proof.
    intros Hu HI a t1 tr H. destruct (val_line_search U K c Hu xk f0 g0 d nit cap t HI _ _ H) as (_ & _ & _ & _ & Hs). exact (Hs a eq_refl).
  Qed.

  (* 4. with the line-search routine instantiated by the bit-exact model of SciPy's DCSRCH (Model/Dcsrch.v; ANY behaviour sq of
     the C library's pow(x, 2.0) used by dcstep), the step handed back is NaN or lies in [0, stpmax], where stpmax is 1 at
     iteration 0 and the maximum feasible step (capped by max_steplength) afterwards - including when the first trial step
     (1, or 1/|d| at iteration 0 of an unboxed problem) lies outside that range: the START checks then refuse it and no step is
     handed back.  The NaN alternative cannot be dropped: C11_dcsrch_can_return_nan. *)
  Theorem C11_step_in_range : forall sq : float -> float, (forall q h, dcs K q h = dcs_model sq q h) ->
    leb 0 (stpmax_of c xk d nit) = true ->
    forall a t1 tr, line_search U K c xk f0 g0 d nit cap t = (Ok (Some a, t1), tr) ->
    is_nan a = true \/ (leb 0 a = true /\ leb a (stpmax_of c xk d nit) = true).
  Proof. intros sq HK Hm a t1 tr H. exact (line_search_range_dcsrch U K c sq HK xk f0 g0 d nit cap t a t1 tr Hm H). Qed.

  (* 5. the step handed back is not zero: a zero step would evaluate the start point itself (x + 0*d clipped = x for a finite
     direction and a start inside the box), whose value is not strictly below itself.  With 4.: NaN or in (0, stpmax]. *)
  Theorem C11_step_positive : forall sq : float -> float, (forall q h, dcs K q h = dcs_model sq q h) ->
    (forall p q, veqb p q = true -> uf U p = uf U q /\ ug U p = ug U q /\ fd_stencil U p = fd_stencil U q /\ fd_est U p = fd_est U q) ->
    Inv vec float vec float (uf U) (ug U) (fd_stencil U) (fd_est U) (fdmode U) t ->
    (exists fv0, uf U xk = Ok fv0 /\ f0 = mul fv0 (SF.scale _ _ _ _ t)) ->            (* f0 is the value at the start *)
    inbox xk (lb c) (ub c) -> nonan xk ->                                               (* the start is a feasible point *)
    Forall (fun di => FloatVec.is_finite di = true) d -> List.length d = List.length xk ->   (* the direction is finite *)
    leb 0 (stpmax_of c xk d nit) = true ->
    forall a t1 tr, line_search U K c xk f0 g0 d nit cap t = (Ok (Some a, t1), tr) ->
    is_nan a = true \/ (ltb 0 a = true /\ leb a (stpmax_of c xk d nit) = true).
  Proof.
    intros sq HK Hu HI Hf0 Hb Hn Hd Hl Hm a t1 tr H.
    pose proof (line_search_step_nonzero FloatZero.axpy_zero FloatZero.eqb_trans U K c Hu xk f0 g0 d nit cap t a t1 tr HI Hf0 Hb Hn Hd Hl H) as Hz.
    destruct (line_search_range_dcsrch U K c sq HK xk f0 g0 d nit cap t a t1 tr Hm H) as [E|[E1 E2]]; [left; exact E|right].
    split; [|exact E2]. destruct (ltb 0 a) eqn:El; [reflexivity|exfalso].
    destruct (leb_not_nan _ _ E1) as [N0 Na].
    assert (E3 : leb a 0 = true) by (apply ltb_false_leb; assumption).
    rewrite (leb_antisym _ _ E3 E1) in Hz. discriminate.
  Qed.
End C11.

(* the routine can propose a NaN step from finite values and steps in range (3*(fx-fp) overflows inside dcstep) *)
Theorem C11_dcsrch_can_return_nan :
  run_dcsrch sq_mul (0x1.0624dd2f1a9fcp-10, 0x1.ccccccccccccdp-1, 0x1.999999999999ap-4, 1)%float
             [(1, 0, -1); (1, 0x1.1ccf385ebc8ap+1023, 0)]%float = (nan, Dcsrch.TFG).
Proof. exact nan_step_example. Qed.

(* the maximum feasible step of the model IS linesearch.max_allowed_steplength (iterations >= 1), translated from its NumPy source
   on every run: boolean-mask indexing, np.where, np.isfinite, np.nanmin and Python's min become list operations, and the result
   is proved equal to the model's [maxstep] for arrays of equal length *)
Lemma max_step_ratios_from_source : forall x d lb ub : vec, List.length d = List.length x -> List.length lb = List.length x -> List.length ub = List.length x ->
  let mask_ := List.map (fun e_ => negb (eqb e_ 0%float)) d in
  let tmp_ := NumpyOps.bwhere (List.map (fun e_ => ltb 0%float e_) (NumpyOps.bgather mask_ d))
                (vmap2 div (NumpyOps.bgather mask_ (vsub ub x)) (NumpyOps.bgather mask_ d))
                (vmap2 div (NumpyOps.bgather mask_ (vsub lb x)) (NumpyOps.bgather mask_ d)) in
  NumpyOps.bgather (List.map FloatVec.is_finite tmp_) tmp_ = step_ratios x d lb ub.
Proof.
  induction x as [|xi x IH]; intros d lb ub Hd Hl Hu; destruct d as [|di d]; destruct lb as [|l lb]; destruct ub as [|u ub]; try discriminate; [reflexivity|].
  injection Hd as Hd. injection Hl as Hl. injection Hu as Hu. specialize (IH d lb ub Hd Hl Hu). cbv zeta in IH |- *.
  cbn [List.map step_ratios vsub vmap2 NumpyOps.bgather]. unfold fzero.
  destruct (eqb di 0) eqn:E0; cbn [negb].
  - exact IH.
  - cbn [NumpyOps.bgather List.map vmap2 NumpyOps.bwhere].
    destruct (ltb 0 di); cbn [NumpyOps.bgather List.map]; (destruct (FloatVec.is_finite _); [f_equal|]; exact IH).
Qed.
Theorem C11_max_step_from_source : forall (x d lb ub : vec) (cap : float),
  List.length d = List.length x -> List.length lb = List.length x -> List.length ub = List.length x ->
  LBFGSB.Generated.MaxStep.max_allowed_steplength x d lb ub cap = maxstep x d lb ub cap.
Proof.
  intros x d lb ub cap Hd Hl Hu. unfold LBFGSB.Generated.MaxStep.max_allowed_steplength, maxstep. cbv zeta.
  rewrite (max_step_ratios_from_source x d lb ub Hd Hl Hu). destruct (step_ratios x d lb ub); reflexivity.
Qed.

(* the trial points: the three expressions np.clip(x0 + alpha * d, lb, ub) of line_search (and the iterate update of main.py),
   translated from the source on every run, are the clipped point the model evaluates (clause 1 rests on the clip being there) *)
Theorem C11_trial_point_from_source : forall x a d lb ub,
  LBFGSB.Generated.Base.projected_point x a d lb ub = vclip (vaxpy x a d) lb ub.
Proof.
  intros. unfold LBFGSB.Generated.Base.projected_point. f_equal.
  revert d. induction x as [|xi x IH]; intros d; destruct d as [|di d]; cbn; try reflexivity. unfold vadd, vaxpy in *. cbn. f_equal. apply IH.
Qed.
Theorem C11_trial_point_sites_from_source :
  LBFGSB.Generated.Base.projection_sites_src =
  ["main: np.clip(x + _ * d, lb, ub)"; "linesearch: np.clip(x0 + _ * d, lb, ub)";
   "linesearch: np.clip(x0 + _ * d, lb, ub)"; "linesearch: np.clip(x0 + _ * d, lb, ub)"]%string.
Proof. reflexivity. Qed.

(* the first trial step of the model IS the first-step rule of line_search, translated from its source on every run
   (1 / sqrt(d.d) capped by max_steplength at iteration 0 of a problem that is not fully boxed, 1 otherwise) *)
Theorem C11_first_step_from_source : forall (K : kern) (c : cfg) (d : vec) (nit : Z) (stpmax : float),
  LBFGSB.Generated.MainLoop.first_step (vdot K) (nit =? 0) (is_boxed c) d stpmax =
  (if (nit =? 0) && negb (is_boxed c) then StopTests.pymin (div fone (sqrt (vdot K d d))) stpmax else fone).
Proof. reflexivity. Qed.

(* WHICH trial step is handed back: the bookkeeping of line_search - best_stp = None, best_f = f0; after every evaluation
   `if f_m1 < best_f: best_f = f_m1; best_stp = steplength`; after the loop the three `return None` tests and `steplength = best_stp` -
   is recognised statement by statement in the source on every run (Generated/LBFGSB.Generated.LsBook.v) and IS what the model's loop and
   line_search do (the comparison with the PREVIOUS trial of the pinned tree, defect D3, and a start value of +inf are other terms) *)
Definition conv_or_warn (t : Driver.task) : bool := match t with Driver.TConv | Driver.TWarn => true | _ => false end.
Theorem C11_best_trial_from_source : forall (U : user) (K : kern) (c : cfg),
  (* one pass of the loop whose routine answers FG *)
  (forall k xk d par s stp, dcs K par (l_hist s ++ [(l_stp s, l_f s, l_dphi s)]) = (stp, Driver.TFG) ->
     ls_loop U K c (S k) xk d par s =
     bind (sf_fun_and_grad U (vclip (vaxpy xk stp d) (lb c) (ub c)) (l_sf s))
          (fun '(f, g, t1) => let b := LBFGSB.Generated.LsBook.best_update f stp (l_best s, l_bestf s) in
             ls_loop U K c k xk d par (mklss stp f (vdot K g d) (l_hist s ++ [(l_stp s, l_f s, l_dphi s)]) (fst b) (snd b) Driver.TFG stp t1))) /\
  (* the whole search *)
  (forall xk f0 g0 d nit cap t,
     line_search U K c xk f0 g0 d nit cap t =
     bind (ls_loop U K c (Z.to_nat cap) xk d (ftol_ls c, gtol_ls c, xtol_ls c, stpmax_of c xk d nit)
             (mklss (LBFGSB.Generated.MainLoop.first_step (vdot K) (nit =? 0) (is_boxed c) d (stpmax_of c xk d nit)) f0 (vdot K g0 d) []
                    (fst (LBFGSB.Generated.LsBook.best_init f0)) (snd (LBFGSB.Generated.LsBook.best_init f0)) Driver.TFG
                    (LBFGSB.Generated.MainLoop.first_step (vdot K) (nit =? 0) (is_boxed c) d (stpmax_of c xk d nit)) t))
          (fun s => ret (LBFGSB.Generated.LsBook.ls_result (l_last s) (conv_or_warn (l_task s)) (l_best s), l_sf s))).
Proof.
  intros U K c. split.
  - intros k xk d par s stp H. cbn [ls_loop]. rewrite H. apply DriverSplit.bind_ext. intros [[f g] t1].
    unfold LBFGSB.Generated.LsBook.best_update. cbn [snd fst]. destruct (ltb f (l_bestf s)); reflexivity.
  - intros xk f0 g0 d nit cap t. unfold line_search, stpmax_of. apply DriverSplit.bind_ext. intros s.
    unfold LBFGSB.Generated.LsBook.ls_result, conv_or_warn, fzero. destruct (negb (FloatVec.is_finite (l_last s)) || eqb (l_last s) 0); [reflexivity|].
    destruct (l_task s); reflexivity.
Qed.

(* the first-step rule, the iteration-0 cap and the arguments handed to DCSRCH are those of the source *)
Theorem C11_source_pins :
  ls_first_step_src = ["above_iter == 0 and (not is_boxed)"; "steplength_0 = min(1.0 / np.sqrt(d.dot(d)), max_steplength)"; "steplength_0 = 1.0"]%string /\
  ls_maxstep_iter0_src = ["n_iter == 0"; "return 1.0"]%string /\
  ls_dcsrch_args_src = ["phi"; "dphi"; "ftol"; "gtol"; "xtol"; "0.0"; "max_steplength"]%string.
Proof. repeat split; reflexivity. Qed.

Print Assumptions C11_points_in_box.
Print Assumptions C11_within_budget.
Print Assumptions C11_strictly_downhill.
Print Assumptions C11_step_in_range.
Print Assumptions C11_step_positive.
Print Assumptions C11_dcsrch_can_return_nan.

(* Non-vacuity of C11_step_in_range / C11_step_positive: f(x) = x^2 on [-5, 5], start x = 1 (f0 = 1, g0 = 2), direction d = -1/2,
   iteration 0, the DCSRCH model as line-search routine: the search evaluates x = 1/2 only (inside the box), accepts the step 1,
   which is > 0, <= stpmax = 1, and f(1/2) = 1/4 < 1.  The hypotheses about the start (in the box, no NaN, finite direction, f0 the
   value at x) hold by computation; the remaining hypothesis, "objective and gradient do not distinguish points that np.array_equal
   identifies", is about U alone (x*x and 2*x give the same value for +0 and -0) and is not part of this example. *)
Definition U11 : user :=
  mkuser (fun x => Ok (mul (hd 0%float x) (hd 0%float x))) (fun x => Ok [mul 2%float (hd 0%float x)]) None None None
         (Ok 0%float) (Ok 0%float) false (fun _ => []) (fun _ _ _ => Ok []).
Definition K11 : kern :=
  mkkern (fun x _ _ _ => map (fun v => mul v 0.5%float) x) (dcs_model Dcsrch.sq_mul) (fun a b => mul (hd 0%float a) (hd 0%float b)).
Definition c11 : cfg :=
  mkcfg [1%float] [(-5)%float] [5%float] 3 None 0%float (TolConst 0x1.0c6f7a0b5ed8dp-20%float) 5 10 20 1e8%float
        0x1.0624dd2f1a9fcp-10%float 0x1.ccccccccccccdp-1%float 0x1.999999999999ap-4%float 0x1.fb4c5b3a1b5bcp-53%float None.
Definition t11 : SF.st vec float vec float := SF.mk _ _ _ _ [1%float] (Some 1%float) (Some [2%float]) 1 1 fone.
Example C11_example :
  exists t1 tr, line_search U11 K11 c11 [1%float] 1%float [2%float] [(-0.5)%float] 0 20 t11 = (Ok (Some 1%float, t1), tr) /\
    tr = [EvF [0.5%float] (Ok 0.25%float); EvG [0.5%float] (Ok [1%float])] /\
    ltb 0 1%float = true /\ leb 1%float (stpmax_of c11 [1%float] [(-0.5)%float] 0) = true /\
    inbox [1%float] (lb c11) (ub c11) /\ nonan [1%float] /\ Forall (fun di => FloatVec.is_finite di = true) [(-0.5)%float] /\
    (exists fv0, uf U11 [1%float] = Ok fv0 /\ 1%float = mul fv0 (SF.scale _ _ _ _ t11)).
Proof.
  eexists. eexists. split; [vm_compute; reflexivity|]. split; [reflexivity|]. split; [reflexivity|]. split; [reflexivity|].
  split; [cbn; split; [right; split; reflexivity|exact I]|]. split; [repeat constructor|]. split; [repeat constructor|].
  exists 1%float. split; reflexivity.
Qed.
