#!/bin/bash
# usage: goals.sh FILE LINE  -- show the proof state just before LINE (1-based)
f=$1; n=$2
head -n $((n-1)) "$f" > /tmp/_g.v
echo "Show. Abort All. " >> /tmp/_g.v
cd /verif/coq && timeout 120 coqc -Q . LBFGSB /tmp/_g.v 2>&1 | head -${3:-60}
